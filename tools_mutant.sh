#!/bin/sh
# usage: tools_mutant.sh <patch-file> <PROPERTY_ID> [tier]
# Applies a patch to a scratch COPY of /repo/src (never /repo itself), runs the property's check
# against the copy with evidence/replays redirected to scratch, prints the verdict line and
# removes the copy.  Exit 0 = mutant detected (check exited 1), 1 = mutant survived, 2 = machinery.
set -u
PATCH="$(realpath "$1")"; PROP="$2"; TIER="${3:-quick}"
W="$(mktemp -d /dev/shm/mut-XXXXXX)"
trap 'rm -rf "$W"' EXIT
mkdir -p "$W/repo" "$W/out"
cp -r /repo/src "$W/repo/src"
( cd "$W/repo" && patch -p1 -s < "$PATCH" ) || { echo "PATCH-FAILED $PATCH"; exit 2; }
cd /verif
DATASHARD_SRC="$W/repo/src" VERIF_OUT_DIR="$W/out" ./check "$PROP" --tier "$TIER" > "$W/log" 2>&1
RC=$?
grep -E "^(VIOLATION|KNOWN-FINDING|MACHINERY)" "$W/log" | head -5
tail -1 "$W/log"
case $RC in
  1) echo "MUTANT-DETECTED $(basename "$PATCH") by $PROP/$TIER"; exit 0;;
  0) echo "MUTANT-SURVIVED $(basename "$PATCH") vs $PROP/$TIER"; exit 1;;
  *) echo "MACHINERY-FAILURE rc=$RC"; tail -20 "$W/log"; exit 2;;
esac
