#!/usr/bin/env python3
"""Regenerate seeded/SUMMARY.md from seeded/*/result.json and meta.json (the confirmations and check results written by tools_seeded.py)."""
import glob
import json
import os

VERIF = os.path.dirname(os.path.abspath(__file__))


def main() -> None:
    rows = []
    for d in sorted(glob.glob(os.path.join(VERIF, "seeded", "C*-*"))):
        try:
            res = json.load(open(os.path.join(d, "result.json")))
            meta = json.load(open(os.path.join(d, "meta.json")))
        except Exception:  # noqa: BLE001
            continue
        checks = ", ".join(f"{c}:{'detected' if v['detected'] else 'rc=' + str(v['rc'])}" for c, v in sorted(res.get("checks", {}).items()))
        rows.append((res["id"], str(meta.get("title") or meta.get("summary", ""))[:110].replace("|", "/"), "yes" if res.get("confirmed") else "NO",
                     ", ".join(res.get("detected_by", [])) or "-", checks))
    out = ["# Seeded property-breaking changes", "",
           "One sub-agent per property and round, given only the property record and a private scratch worktree (nothing from /verif).",
           "Round 1 = ids -1..-3 (20 properties); round 2 = ids -4, -5 (all 20 properties: changes asked to avoid the obvious mechanism). Undetected changes carry a note in result.json and are discussed in DESIGN.md 14.5.",
           "Each delivery (`patch.diff`, `demo.py`, `meta.json`) was confirmed by `tools_seeded.py` on scratch copies: the patch applies to /repo's HEAD,",
           "the test suite gives the baseline result, `demo.py` exits 0 on the unchanged sources and 1 on the patched ones; the named checks were then",
           "run (quick tier) against the patched copy. `patch.as-delivered.diff` = the delivery before it was rebased onto later repo fixes.", "",
           "| id | change | confirmed | detected by | checks run |", "|---|---|---|---|---|"]
    out += [f"| {a} | {b} | {c} | {d_} | {e} |" for a, b, c, d_, e in rows]
    n_det = sum(1 for r in rows if r[3] != "-")
    out += ["", f"{len(rows)} changes, {n_det} detected by at least one check."]
    open(os.path.join(VERIF, "seeded", "SUMMARY.md"), "w").write("\n".join(out) + "\n")
    print(f"{len(rows)} changes, {n_det} detected")


if __name__ == "__main__":
    main()
