#!/usr/bin/env python3
"""Create a mutant patch by exact string replacement(s) on a scratch copy of /repo/src.
usage: tools_mkmutant.py OUT.patch FILE OLD NEW [FILE OLD NEW ...]   (FILE relative to /repo, e.g. src/datashard/x.py)
"""
import difflib, sys
out = sys.argv[1]
args = sys.argv[2:]
chunks = []
files = {}
for i in range(0, len(args), 3):
    f, old, new = args[i:i+3]
    src = files.get(f) or open('/repo/' + f).read()
    if src.count(old) != 1:
        sys.exit(f"pattern occurs {src.count(old)} times in {f}: {old[:60]!r}")
    files[f] = src.replace(old, new)
for f, new_src in files.items():
    a = open('/repo/' + f).read().splitlines(keepends=True)
    b = new_src.splitlines(keepends=True)
    chunks.append(''.join(difflib.unified_diff(a, b, 'a/' + f, 'b/' + f)))
open(out, 'w').write(''.join(chunks))
print(out, sum(c.count('\n@@') + c.startswith('@@') for c in chunks), 'hunks')
