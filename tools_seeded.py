#!/usr/bin/env python3
"""Confirm and evaluate a seeded property-breaking change delivered by a fresh sub-agent.

usage: tools_seeded.py <delivery dir (patch.diff, demo.py, meta.json)> <seeded id, e.g. C05-1> [CHECK_ID ...]

Steps (all on scratch copies under /dev/shm, removed afterwards; /repo is never touched):
  1. the patch applies to a clean copy of /repo's HEAD sources (git apply --check semantics via patch -p1);
  2. the repository's test suite gives the baseline result on the patched copy (143 passed / 7 pandas failures);
  3. demo.py exits 0 on the unchanged sources and 1 on the patched ones;
  4. each named check (default: the property's own) is run with --tier quick against the patched copy.
The delivery is copied to /verif/seeded/<id>/ and result.json is written there.
"""
import json
import os
import re
import shutil
import subprocess
import sys
import tempfile

VERIF = os.path.dirname(os.path.abspath(__file__))


def sh(cmd, **kw):
    return subprocess.run(cmd, shell=True, text=True, capture_output=True, **kw)


def main() -> int:
    src_dir, sid = sys.argv[1], sys.argv[2]
    prop = sid.split("-")[0]
    checks = sys.argv[3:] or [prop]
    dst = os.path.join(VERIF, "seeded", sid)
    os.makedirs(dst, exist_ok=True)
    for f in ("patch.diff", "demo.py", "meta.json"):
        if os.path.abspath(src_dir) != dst:
            shutil.copy(os.path.join(src_dir, f), os.path.join(dst, f))
    w = tempfile.mkdtemp(prefix="seeded-", dir="/dev/shm")
    res = {"id": sid, "property": prop}
    try:
        sh(f"git -C /repo archive HEAD | tar -x -C {w}")
        clean = os.path.join(w, "clean")
        os.makedirs(clean)
        sh(f"cp -r {w}/src {clean}/src")
        r = sh(f"cd {w} && patch -p1 -s < {dst}/patch.diff")
        res["patch_applies"] = r.returncode == 0
        if r.returncode != 0:
            res["error"] = (r.stdout + r.stderr)[-500:]
            return finish(dst, res)
        r = sh(f"cd {w} && env -u DATASHARD_VERIF PYTHONPATH={w}/src /venv/bin/python -m pytest -q -p no:cacheprovider --timeout=900 2>&1 | tail -1")
        res["tests"] = r.stdout.strip()
        m = re.search(r"(\d+) failed, (\d+) passed", r.stdout)
        res["tests_as_baseline"] = bool(m and m.group(1) == "7" and m.group(2) == "143")
        r0 = sh(f"cd {w} && PYTHONPATH={clean}/src timeout 600 /venv/bin/python {dst}/demo.py")
        r1 = sh(f"cd {w} && PYTHONPATH={w}/src timeout 600 /venv/bin/python {dst}/demo.py")
        res["demo_unchanged_exit"], res["demo_changed_exit"] = r0.returncode, r1.returncode
        res["demo_changed_tail"] = (r1.stdout + r1.stderr)[-600:]
        res["confirmed"] = res["tests_as_baseline"] and r0.returncode == 0 and r1.returncode == 1
        res["checks"] = {}
        for c in checks:
            out = os.path.join(w, "out-" + c)
            os.makedirs(out)
            r = sh(f"cd {VERIF} && DATASHARD_SRC={w}/src VERIF_OUT_DIR={out} ./check {c} --tier quick")
            lines = [l for l in r.stdout.splitlines() if l.startswith(("VIOLATION", "  what:", "MACHINERY", "["))]
            res["checks"][c] = {"rc": r.returncode, "detected": r.returncode == 1, "lines": lines[:6] + lines[-1:]}
        res["detected_by"] = [c for c, v in res["checks"].items() if v["detected"]]
    finally:
        shutil.rmtree(w, ignore_errors=True)
    return finish(dst, res)


def finish(dst, res) -> int:
    json.dump(res, open(os.path.join(dst, "result.json"), "w"), indent=1)
    print(json.dumps({k: v for k, v in res.items() if k not in ("checks", "demo_changed_tail")}))
    for c, v in res.get("checks", {}).items():
        print(c, "rc", v["rc"], *v["lines"][:3], sep="\n   ")
    return 0


if __name__ == "__main__":
    sys.exit(main())
