--------------------------- MODULE MC_S3LockLive ---------------------------
(***************************************************************************)
(* Liveness of the conditional-write S3 lock (C19, "a blocked acquirer     *)
(* fails with a timeout error within its configured timeout" and "a lock   *)
(* is taken over after its lease lapsed", as eventualities).               *)
(*                                                                         *)
(* Fairness: the clock, and every client that is INSIDE acquire(),         *)
(* is_held() or release() (owner thread only).  A holder may sit on the    *)
(* lock forever, an idle client need not start, the heartbeat thread is    *)
(* NOT fair (it may stall - that is what a lapsed lease is).               *)
(* Bounds: acquire() is started only while its deadline is on the clock;   *)
(* every client has a budget of MaxWrites PUT attempts (the counter of     *)
(* the lock body), and the eventualities are claimed for calls that stay   *)
(* within the budget (a polling loop may spin arbitrarily often between    *)
(* two clock ticks, so no finite budget covers every fair behaviour).      *)
(***************************************************************************)
EXTENDS S3Lock

CONSTANT MaxWrites

OwnerThreadStep(c) ==
  \/ TryCreate(c) \/ HeadReq(c) \/ AgeCheck(c) \/ TakeoverPut(c) \/ DeadlineCheck(c) \/ Sleep(c)
  \/ IsHeldGet(c) \/ IsHeldSleep(c) \/ ReleaseGet(c) \/ ReleaseDelete(c)

InCall(c) == pc[c] \notin {"idle", "held"}
Spent(c) == seq[c] >= MaxWrites

LiveNext == Next /\ (\A c \in Clients : seq'[c] <= MaxWrites /\ (pc'[c] # "idle" => start'[c] + Timeout <= MaxNow))
Fair(c) == WF_vars(InCall(c) /\ OwnerThreadStep(c) /\ seq'[c] <= MaxWrites)     \* the budget is part of the fair action: LiveSpec stays machine closed
LiveSpec == Init /\ [][LiveNext]_vars /\ WF_vars(Tick) /\ \A c \in Clients : Fair(c)

\* every acquire() / is_held() / release() call returns (acquire: True or TimeoutError)
CallReturns == \A c \in Clients : InCall(c) ~> (~InCall(c) \/ Spent(c))

\* companion (must FAIL): without the budget clause the polling loop of acquire() may spend the whole budget
\* between two clock ticks and stop in the middle of a call - the clause is what the bound costs, not a loophole
CallReturnsUnbudgeted == \A c \in Clients : InCall(c) ~> ~InCall(c)
\* loops that send no PUT (the is_held() retry, release()) are not excused by the budget: they must terminate outright
ReadOnlyCallsReturn == \A c \in Clients : (pc[c] \in {"h_get", "h_sleep", "h_get1", "r_get", "r_del"}) ~> ~InCall(c)
\* reachability companion (must FAIL): the budget can indeed run out in the middle of acquire()
NeverStuck == ~(\E c \in Clients : pc[c] = "create" /\ seq[c] = MaxWrites /\ Owner(obj) # "none")
=============================================================================
