---------------------------- MODULE Trace_FLock ----------------------------
(***************************************************************************)
(* Trace validation of the real FileLock against FLock.tla.                 *)
(* TRACE_FILE = [traces: <<t1, ...>>], every trace [events: <<e1, ...>>].   *)
(*                                                                         *)
(* TraceMode = "strict"    threads with distinct FileLock instances under   *)
(*     the deterministic scheduler; one event per syscall (open / flock /   *)
(*     close / unlink with the inode numbers the kernel reported), clock    *)
(*     read, sleep, API return.  Every event must be the action FLock.tla   *)
(*     takes at that control point with the same outcome; the kernel model  *)
(*     must agree with what the real kernel answered.                       *)
(* TraceMode = "reference" the same events; syscalls are applied to the     *)
(*     kernel model by their own semantics (and must agree with it), the    *)
(*     API events are judged by the reference rules alone (verdict for      *)
(*     executions the transcription does not explain).                      *)
(* TraceMode = "stress"    merged logs of real processes, written INSIDE    *)
(*     the critical section (Enter / Exit with the shared counter), plus    *)
(*     AcqCall / Timeout / Kill; only the reference layer of FLock.tla      *)
(*     moves (holding, busy, dead, deadline) and a model of the counter.    *)
(***************************************************************************)
EXTENDS FLock, Json, IOUtils, TLCExt, Sequences

CONSTANTS TraceMode,
          Slack          \* stress: a blocked acquirer must raise by deadline + Slack

VARIABLES tid, l, counter

TraceData == JsonDeserialize(IOEnv.TRACE_FILE)
Traces == TraceData.traces
NT == Len(Traces)
Evs == Traces[tid].events
ev == Evs[l]
A == ev.a
tvars == <<vars, tid, l, counter>>
TraceProcOf == [x \in Lockers |-> x]        \* every traced locker is its own 'process' (no Die in thread traces)

TraceInit == tid \in 1..NT /\ l = 1 /\ counter = 0 /\ Init

IsEv(k) == l <= Len(Evs) /\ ev.k = k /\ l' = l + 1 /\ UNCHANGED <<tid, counter>>

TrTick == IsEv("Tick") /\ ev.now >= now /\ now' = ev.now /\ UNCHANGED <<kvars, cvars, gvars>>

(***************************************************************************)
(* strict                                                                   *)
(***************************************************************************)
Same == UNCHANGED vars
SAcqStart == IsEv("AcqStart") /\ StartAcquire(A)
SOpen == IsEv("Open") /\ ev.status = "ok" /\ Open(A) /\ fd'[A] = ev.ino /\ ev.created = (dirent = 0)
SFlockEx == IsEv("Flock") /\ ev.op = "EX" /\ ev.nb /\ Flock(A)
            /\ (ev.status = "ok") = (pc'[A] = "held") /\ (ev.status = "EWOULDBLOCK") = (pc'[A] = "close")
SFlockUn == IsEv("Flock") /\ ev.op = "UN" /\ ev.status = "ok" /\ Unlock(A)
SClose == IsEv("Close") /\ IF pc[A] = "close" THEN CloseFail(A) ELSE CloseRel(A)
SUnlink == IsEv("Unlink") /\ UnlinkRel(A)
SDeadline == IsEv("Deadline") /\ DeadlineCheck(A)
SSleep == IsEv("Sleep") /\ Sleep(A)
SAcqRet == IsEv("AcqRet") /\ Same /\ ev.locked = locked[A]
           /\ CASE ev.res = "ok" -> (pc[A] = "held" /\ A \in holding)
                [] ev.res = "timeout" -> (pc[A] = "idle" /\ ~locked[A])
                [] OTHER -> FALSE
SRelCall == IsEv("RelCall") /\ Same /\ pc[A] = "held"
SRelRet == IsEv("RelRet") /\ Same /\ pc[A] = "idle" /\ ~locked[A] /\ ev.locked = locked[A]
StrictNext == TrTick \/ SAcqStart \/ SOpen \/ SFlockEx \/ SFlockUn \/ SClose \/ SUnlink \/ SDeadline \/ SSleep
              \/ SAcqRet \/ SRelCall \/ SRelRet

(***************************************************************************)
(* reference: kernel semantics of the syscalls + reference rules            *)
(***************************************************************************)
CFrozen == UNCHANGED <<pc, locked, rounds>>
RAcqStart == IsEv("AcqStart") /\ deadline' = [deadline EXCEPT ![A] = now + Timeout]
             /\ UNCHANGED <<kvars, now>> /\ CFrozen /\ Obs(A, "acquire_call")
ROpen ==
  /\ IsEv("Open") /\ ev.status = "ok"
  /\ ev.created = (dirent = 0)
  /\ ev.ino = (IF dirent = 0 THEN NextIno ELSE dirent)            \* the model's kernel names the inode the real one reported
  /\ dirent' = ev.ino
  /\ born' = IF dirent = 0 THEN [i \in DOMAIN born \cup {NextIno} |-> IF i = NextIno THEN now ELSE born[i]] ELSE born
  /\ fd' = [fd EXCEPT ![A] = ev.ino]
  /\ UNCHANGED <<locks, now, deadline>> /\ CFrozen /\ Obs(A, "open")
RFlockEx ==
  /\ IsEv("Flock") /\ ev.op = "EX"
  /\ (ev.status = "ok") = ~HeldByOther(A)
  /\ locks' = IF ev.status = "ok" THEN locks \cup {<<fd[A], A>>} ELSE locks
  /\ UNCHANGED <<dirent, born, fd, now, deadline>> /\ CFrozen
  /\ Obs(A, CASE ev.status = "ok" -> "flock_ok" [] ev.status = "wait" -> "kernel_wait" [] OTHER -> "try_fail")
RFlockWake == IsEv("FlockWake") /\ ~HeldByOther(A) /\ locks' = locks \cup {<<fd[A], A>>}
              /\ UNCHANGED <<dirent, born, fd, now, deadline>> /\ CFrozen /\ Obs(A, "flock_ok")
RFlockUn == IsEv("Flock") /\ ev.op = "UN" /\ locks' = locks \ {<<fd[A], A>>}
            /\ UNCHANGED <<dirent, born, fd, now, deadline>> /\ CFrozen /\ Obs(A, "flock_un")
RClose == IsEv("Close") /\ KClose(A) /\ UNCHANGED <<dirent, born, now, deadline>> /\ CFrozen /\ Obs(A, "close")
RUnlink == IsEv("Unlink") /\ dirent' = (IF ev.status = "ok" THEN 0 ELSE dirent) /\ (ev.status = "ok") = (dirent # 0)
           /\ UNCHANGED <<born, fd, locks, now, deadline>> /\ CFrozen /\ Obs(A, "unlink")
RDeadline == IsEv("Deadline") /\ UNCHANGED <<kvars, now, deadline>> /\ CFrozen
             /\ Obs(A, IF now >= deadline[A] THEN "deadline_late" ELSE "deadline_ok")
RSleep == IsEv("Sleep") /\ UNCHANGED <<kvars, now, deadline>> /\ CFrozen /\ Obs(A, "sleep")
RAcqRet == IsEv("AcqRet") /\ UNCHANGED <<kvars, now, deadline>> /\ CFrozen
           /\ Obs(A, CASE ev.res = "ok" -> "acquire_ok" [] ev.res = "timeout" -> "timeout" [] OTHER -> "acquire_other")
RRelCall == IsEv("RelCall") /\ UNCHANGED <<kvars, now, deadline>> /\ CFrozen /\ Obs(A, "release_call")
RRelRet == IsEv("RelRet") /\ UNCHANGED <<kvars, now, deadline>> /\ CFrozen /\ Obs(A, "release_done")
RefNext == TrTick \/ RAcqStart \/ ROpen \/ RFlockEx \/ RFlockWake \/ RFlockUn \/ RClose \/ RUnlink \/ RDeadline \/ RSleep
           \/ RAcqRet \/ RRelCall \/ RRelRet

(***************************************************************************)
(* stress: process logs.  ev.t = CLOCK_MONOTONIC in ms (shared by all       *)
(* processes of the machine), events sorted by t.                           *)
(***************************************************************************)
At(k) == l <= Len(Evs) /\ ev.k = k /\ l' = l + 1 /\ UNCHANGED tid /\ ev.t >= now /\ now' = ev.t
         /\ UNCHANGED <<kvars, pc, locked, rounds>>
\* extra rules of the stress binding, remembered in viol like the others
XObs(a, e, extra) ==
  /\ viol' = viol \cup Broken(a, e) \cup extra
  /\ chk' = chk /\ holding' = NextHolding(a, e) /\ busy' = NextBusy(a, e) /\ UNCHANGED dead

PAcqCall == At("AcqCall") /\ deadline' = [deadline EXCEPT ![A] = ev.t + ev.timeout] /\ UNCHANGED counter /\ XObs(A, "acquire_call", {})
\* inside the critical section: the counter read is the value the previous critical section wrote
PEnter == At("Enter") /\ UNCHANGED <<deadline, counter>>
          /\ XObs(A, "acquire_ok", If(ev.c # counter, "CounterSerial"))
PExit == At("Exit") /\ UNCHANGED deadline /\ counter' = ev.c
         /\ XObs(A, "release_call", If(ev.c # counter + 1 \/ A \notin holding, "CounterSerial"))
\* a blocked acquirer: TimeoutError no later than deadline + Slack, and only while a live process has the lock
PTimeout == At("Timeout") /\ UNCHANGED <<deadline, counter>>
            /\ XObs(A, "timeout", If(ev.t > deadline[A] + Slack, "TimeoutHonoured") \cup If((holding \ {A}) = {}, "DeathReleases"))
PKill == At("Kill") /\ UNCHANGED <<deadline, counter, viol, chk>>
         /\ holding' = holding \ {A} /\ busy' = busy \ {A} /\ dead' = dead \cup {A}
StressNext == PAcqCall \/ PEnter \/ PExit \/ PTimeout \/ PKill

CounterSerial == "CounterSerial" \notin viol

TraceNext == CASE TraceMode = "strict" -> StrictNext [] TraceMode = "reference" -> RefNext [] OTHER -> StressNext
TraceSpec == TraceInit /\ [][TraceNext]_tvars

InvTable == << <<"TypeOK", TypeOK>>, <<"MutualExclusion", MutualExclusion>>, <<"CounterSerial", CounterSerial>>,
               <<"DeathReleases", DeathReleases>>, <<"TimeoutHonoured", TimeoutHonoured>> >>
\* (NoUnlinkRace is a structural lemma of the model, not part of the claim: it is not evaluated on traces)
ViolatedNow == {i \in 1..Len(InvTable) : ~InvTable[i][2]}
FirstViolated == CHOOSE i \in ViolatedNow : \A j \in ViolatedNow : i <= j

ASSUME TLCSet(2, [t \in 1..NT |-> 0]) /\ TLCSet(3, [t \in 1..NT |-> <<0, "">>])

Progress ==
  /\ TLCSet(2, [TLCGet(2) EXCEPT ![tid] = IF l > @ THEN l ELSE @])
  /\ IF ViolatedNow # {} /\ TLCGet(3)[tid][1] = 0
     THEN TLCSet(3, [TLCGet(3) EXCEPT ![tid] = <<l, InvTable[FirstViolated][1]>>])
     ELSE TRUE
  /\ ViolatedNow = {}

Verdicts ==
  /\ PrintT(<<"REACHED", TLCGet(2)>>)
  /\ PrintT(<<"VIOLATED", TLCGet(3)>>)
=============================================================================
