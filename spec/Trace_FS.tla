------------------------------- MODULE Trace_FS -------------------------------
(***************************************************************************)
(* Trace validation against FSDurable: a recorded sequence of system calls *)
(* of the REAL library (strace of an unpatched child process for C16; the  *)
(* step log of the crash harness for C03) is accepted iff it is a          *)
(* behaviour of the L0 model, and TLC evaluates the L0 invariants in every *)
(* state of that behaviour and in every state a silent PowerLoss can       *)
(* branch to after each consumed event (at most one per event; the         *)
(* post-loss states are terminal).                                         *)
(*                                                                         *)
(* IOEnv.TRACE_FILE: JSON array of traces                                  *)
(*   [init |-> [entries, reach], loss |-> BOOLEAN, events |-> <<e1, ..>>]  *)
(* Every event has the uniform field set of FSDurable!Apply.  Two events   *)
(* are environment observations rather than system calls:                  *)
(*   crash    the harness killed the process before its next call          *)
(*   observe  the independent reader's projection of the surviving         *)
(*            directory: the regular files present, and whether the        *)
(*            pointer file differs from the one before the operation.      *)
(*            Accepted only if it equals what the model predicts.          *)
(*                                                                         *)
(* Nothing an action computes is taken from the trace except identities    *)
(* (paths, descriptor numbers, byte counts): which inode a descriptor      *)
(* denotes, what is durable, what a pointer reaches is computed here.      *)
(*                                                                         *)
(* Acceptance (POSTCONDITION, -workers 1): TLC register 1 collects the     *)
(* traces consumed to the end, register 2 the longest consumed prefix of   *)
(* every trace, register 3 the ancestor-directory notes (extension).       *)
(***************************************************************************)
EXTENDS FSDurable, Json, IOUtils, TLCExt

TraceLog == JsonDeserialize(IOEnv.TRACE_FILE)

ASSUME TLCSet(1, {}) /\ TLCSet(2, [t \in 1..Len(TraceLog) |-> 0]) /\ TLCSet(3, {})

VARIABLES tid, l

vars == <<vol, dur, ino, fdt, info, reach, mode, pubTorn, flips, ackBad, held, tid, l>>

T == TraceLog[tid]

Init ==
  /\ tid \in 1..Len(TraceLog)
  /\ l = 1
  /\ InitFrom(TraceLog[tid].init)

Files == {p \in DOMAIN vol : ino[vol[p]].kind = "file"}

Observe(e) ==
  /\ mode = "crashed"
  /\ Files = Range(e.files)
  /\ (flips > 0) = e.hintChanged
  /\ UNCHANGED fsvars

Event(e) ==
  \/ e.op \notin {"crash", "observe"} /\ Apply(e)
  \/ e.op = "crash" /\ Crash
  \/ e.op = "observe" /\ Observe(e)

Consume ==
  /\ l <= Len(T.events)
  /\ Event(T.events[l])
  /\ l' = l + 1
  /\ tid' = tid
  /\ TLCSet(2, [TLCGet(2) EXCEPT ![tid] = IF @ < l THEN l ELSE @])
  /\ (l = Len(T.events)) => TLCSet(1, TLCGet(1) \cup {tid})
  /\ (AncGaps' # {}) => TLCSet(3, TLCGet(3) \cup {<<tid, d>> : d \in AncGaps'})

Lose ==
  /\ T.loss
  /\ PowerLoss
  /\ UNCHANGED <<tid, l>>

Next == Consume \/ Lose

Spec == Init /\ [][Next]_vars

\* one operation per crash trace: its crash state is PRE (0 pointer advances) or POST (1)
AtMostOneFlip == T.maxflips >= 0 => flips <= T.maxflips

\* Always true: exports the registers; harness/props/c16.py and c03.py require
\* accepted = 1..Len(TraceLog) and report the first unexplained event otherwise.
Post ==
  ndJsonSerialize(IOEnv.VERIF_OUT,
     << [accepted |-> TLCGet(1), progress |-> TLCGet(2), ancestors |-> TLCGet(3), n |-> Len(TraceLog)] >>)

Alias == [tid |-> tid, l |-> l, why |-> Culprits]
=============================================================================
