------------------------------ MODULE FSDurable ------------------------------
(***************************************************************************)
(* L0: a POSIX-conservative model of a local file system under process     *)
(* crash and power loss, at the granularity of the system calls DataShard  *)
(* issues when it publishes a file (properties C16 and C03).               *)
(*                                                                         *)
(* Code modelled (the callers' step sequences are in MC_FSDurable.tla; the *)
(* real sequences are validated against THIS module by Trace_FS.tla):      *)
(*   storage_backend.py:228-304  LocalStorageBackend.write_file            *)
(*        mkstemp(".tmp." prefix) write fsync close replace open(dir) fsync *)
(*   data_operations.py:193-235  DataFileWriter.open  (NamedTemporaryFile) *)
(*   data_operations.py:278-328  DataFileWriter.close                      *)
(*        writer.close open(tmp,RO) fsync close replace open(dir) fsync    *)
(*   metadata_manager.py:67-118, 136-242, 285-320  the pointer is written  *)
(*        through write_file, after the metadata file                      *)
(*   file_lock.py:103-122, 153-187  open(O_CREAT) flock / flock(UN) close  *)
(*   garbage_collector.py:222-264, transaction.py:603-665  os.remove       *)
(*                                                                         *)
(* State                                                                   *)
(*   vol   path -> inode    the name space the running system sees         *)
(*   dur   path -> inode    the name space that is CERTAINLY on stable     *)
(*                          storage (a directory's entries enter it only   *)
(*                          through fsync of that directory)               *)
(*   ino   inode -> [kind, len, syn, target, torn]                         *)
(*           len  = bytes written so far, syn = bytes certainly durable    *)
(*           (empty / partial / full of DESIGN 4.4 are len = 0, 0 < len <  *)
(*            size, len >= size for the size the independent reader saw)   *)
(*           target = for pointer files: the metadata file the content     *)
(*            names;  torn = content was cut by a power loss               *)
(*   fdt   fd -> [ino, wr]  open file descriptions of the writing process  *)
(*   info  path -> [cls, dir]   class and parent directory of every path   *)
(*           ever seen (TLA+ has no string functions: the environment      *)
(*           supplies them)                                                *)
(*   reach target -> set of [path, size]: everything the INDEPENDENT       *)
(*           READER found reachable from that metadata version             *)
(*   mode  "run" | "crashed" (process died, kernel state intact)           *)
(*         | "lost" (power loss: only durable state survives)              *)
(*                                                                         *)
(* Power-loss semantics (the model's, POSIX-conservative): file content    *)
(* beyond the last fsync may be lost, torn or kept; the un-fsynced updates *)
(* of a directory (creations, renames, unlinks) may all have reached the   *)
(* disk or none of them, independently for every directory.  PowerLoss is  *)
(* evaluated after EVERY step, so every per-directory prefix is covered    *)
(* (a later cut point with "none" is below any prefix, and the invariants  *)
(* are monotone in what survives).                                         *)
(***************************************************************************)
EXTENDS Integers, Sequences, FiniteSets, TLC

ROOT == "."
HINT == "metadata.version-hint.text"

\* names under which content becomes visible to readers / recovery / GC
FinalCls == {"hint", "meta", "list", "manifest", "data", "marker"}

VARIABLES vol, dur, ino, fdt, info, reach, mode, pubTorn, flips, ackBad, held

fsvars == <<vol, dur, ino, fdt, info, reach, mode, pubTorn, flips, ackBad, held>>

Put(f, k, v) == [x \in (DOMAIN f) \cup {k} |-> IF x = k THEN v ELSE f[x]]
Del(f, k)    == [x \in (DOMAIN f) \ {k} |-> f[x]]
Range(s)     == {s[i] : i \in DOMAIN s}
EmptyFn      == [x \in {} |-> 0]

NewIno == Cardinality(DOMAIN ino) + 1          \* inodes are never recycled in the model
File0  == [kind |-> "file", len |-> 0, syn |-> 0, target |-> "", torn |-> FALSE]
Dir0   == [kind |-> "dir",  len |-> 0, syn |-> 0, target |-> "", torn |-> FALSE]

Names(i)    == {p \in DOMAIN vol : vol[p] = i}
HasFinal(i) == \E p \in Names(i) : info[p].cls \in FinalCls
Children(d) == {p \in DOMAIN info : info[p].dir = d}
DirPath(i)  == CHOOSE p \in DOMAIN vol : vol[p] = i

(* ------------------------------------------------------------------------ *)
(* Initial state from a description of what is already on disk (all of it   *)
(* durable and complete): init.entries = sequence of                        *)
(* [path, dir, cls, kind, size, target], init.reach = sequence of           *)
(* [target, files = sequence of [path, size]].                              *)
(* ------------------------------------------------------------------------ *)
ReachOf(seq) == [t \in {r.target : r \in Range(seq)} |->
                   UNION {Range(r.files) : r \in {x \in Range(seq) : x.target = t}}]

InitFrom(init) ==
  LET ents == init.entries IN
  /\ vol  = [p \in {ents[k].path : k \in DOMAIN ents} |-> CHOOSE k \in DOMAIN ents : ents[k].path = p]
  /\ dur  = vol
  /\ ino  = [k \in DOMAIN ents |-> [kind |-> ents[k].kind, len |-> ents[k].size, syn |-> ents[k].size,
                                     target |-> ents[k].target, torn |-> FALSE]]
  /\ info = [p \in {ents[k].path : k \in DOMAIN ents} |->
               LET k == CHOOSE j \in DOMAIN ents : ents[j].path = p IN [cls |-> ents[k].cls, dir |-> ents[k].dir]]
  /\ fdt  = EmptyFn
  /\ reach = ReachOf(init.reach)
  /\ mode = "run"
  /\ pubTorn = FALSE
  /\ flips = 0
  /\ ackBad = FALSE
  /\ held = {}

(* ------------------------------------------------------------------------ *)
(* System calls.  `e` is an event record with the uniform field set         *)
(* [op, path, dir, cls, fd, n, off, creat, trunc, wr, size, src, dst, how,  *)
(*  target, reach, files, hintChanged, commit].  Only SUCCESSFUL calls are   *)
(* events.                                                                  *)
(* ------------------------------------------------------------------------ *)
Mkdir(e) ==
  /\ e.path \notin DOMAIN vol
  /\ (e.path = ROOT \/ e.dir \in DOMAIN vol)
  /\ LET i == NewIno IN
       /\ ino' = Put(ino, i, Dir0)
       /\ vol' = Put(vol, e.path, i)
       \* the table root's own entry in ITS parent is outside the table: assumed durable
       /\ dur' = IF e.path = ROOT THEN Put(dur, e.path, i) ELSE dur
  /\ info' = Put(info, e.path, [cls |-> "dir", dir |-> e.dir])
  /\ UNCHANGED <<fdt, reach, mode, pubTorn, flips, ackBad, held>>

\* open / openat / creat, also mkstemp and NamedTemporaryFile (O_CREAT|O_EXCL).
\* e.size >= 0 (step logs of the crash harness only): the length found on disk at this
\* moment; growth not explained by logged writes was written by a non-intercepted writer
\* (pyarrow's C++ file handle).
OpenAt(e) ==
  /\ e.fd \notin DOMAIN fdt
  /\ IF e.path \in DOMAIN vol
     THEN LET i == vol[e.path]
              old == ino[i].len
              new == IF ino[i].kind # "file" THEN old
                     ELSE IF e.trunc THEN 0
                     ELSE IF e.size > old THEN e.size ELSE old
          IN /\ fdt' = Put(fdt, e.fd, [ino |-> i, wr |-> e.wr])
             /\ ino' = [ino EXCEPT ![i] = [@ EXCEPT !.len = new, !.syn = IF new < @ THEN new ELSE @]]
             /\ pubTorn' = (pubTorn \/ (new # old /\ HasFinal(i)))
             /\ UNCHANGED <<vol, info>>
     ELSE /\ e.creat
          /\ e.dir \in DOMAIN vol
          /\ LET i == NewIno IN
               /\ ino' = Put(ino, i, File0)
               /\ vol' = Put(vol, e.path, i)
               /\ fdt' = Put(fdt, e.fd, [ino |-> i, wr |-> e.wr])
          /\ info' = Put(info, e.path, [cls |-> e.cls, dir |-> e.dir])
          /\ UNCHANGED pubTorn
  /\ UNCHANGED <<dur, reach, mode, flips, ackBad, held>>

\* write / writev append n bytes; pwrite extends to off+n; ftruncate sets the length.
\* A write that carries `target` is a write of pointer content naming that metadata file;
\* `reach` is what the independent reader found reachable from that version.
SetLen(i, new, tgt) ==
  /\ ino' = [ino EXCEPT ![i] = [@ EXCEPT !.len = new,
                                         !.syn = IF new < @ THEN new ELSE @,
                                         !.target = IF tgt # "" THEN tgt ELSE @]]
  /\ pubTorn' = (pubTorn \/ HasFinal(i))

Write(e) ==
  /\ e.fd \in DOMAIN fdt
  /\ fdt[e.fd].wr
  /\ LET i == fdt[e.fd].ino IN
       /\ ino[i].kind = "file"
       /\ SetLen(i, CASE e.op = "write"  -> ino[i].len + e.n
                      [] e.op = "pwrite" -> IF e.off + e.n > ino[i].len THEN e.off + e.n ELSE ino[i].len
                      [] e.op = "trunc"  -> e.n,
                 e.target)
  /\ reach' = IF e.target # "" THEN Put(reach, e.target, Range(e.reach)) ELSE reach
  /\ UNCHANGED <<vol, dur, fdt, info, mode, flips, ackBad, held>>

\* fsync / fdatasync: of a file = its content is durable; of a directory = its entries are.
SyncDir(d) ==
  LET ch == Children(d) IN
  [p \in ((DOMAIN dur) \ ch) \cup ((DOMAIN vol) \cap ch) |-> IF p \in ch THEN vol[p] ELSE dur[p]]

Fsync(e) ==
  /\ e.fd \in DOMAIN fdt
  /\ LET i == fdt[e.fd].ino IN
       IF ino[i].kind = "file"
       THEN /\ ino' = [ino EXCEPT ![i] = [@ EXCEPT !.syn = ino[i].len]]
            /\ UNCHANGED dur
       ELSE /\ dur' = SyncDir(DirPath(i))
            /\ UNCHANGED ino
  /\ UNCHANGED <<vol, fdt, info, reach, mode, pubTorn, flips, ackBad, held>>

Close(e) ==
  /\ e.fd \in DOMAIN fdt
  /\ fdt' = Del(fdt, e.fd)
  /\ held' = held \ {e.fd}
  /\ UNCHANGED <<vol, dur, ino, info, reach, mode, pubTorn, flips, ackBad>>

\* rename / os.replace inside one directory: atomic, replaces an existing target.
Rename(e) ==
  /\ e.src \in DOMAIN vol
  /\ info[e.src].dir = e.dir
  /\ vol' = Put(Del(vol, e.src), e.dst, vol[e.src])
  /\ info' = Put(info, e.dst, [cls |-> e.cls, dir |-> e.dir])
  /\ flips' = flips + (IF e.dst = HINT THEN 1 ELSE 0)
  /\ UNCHANGED <<dur, ino, fdt, reach, mode, pubTorn, ackBad, held>>

Unlink(e) ==
  /\ e.path \in DOMAIN vol
  /\ ino[vol[e.path]].kind = "file"
  /\ vol' = Del(vol, e.path)
  /\ UNCHANGED <<dur, ino, fdt, info, reach, mode, pubTorn, flips, ackBad, held>>

Flock(e) ==
  /\ e.fd \in DOMAIN fdt
  /\ IF e.how = "ex" THEN held = {} /\ held' = {e.fd} ELSE held' = held \ {e.fd}
  /\ UNCHANGED <<vol, dur, ino, fdt, info, reach, mode, pubTorn, flips, ackBad>>

\* The operation returned to its caller.  For a committing operation the acknowledged
\* pointer must not be revocable by a power loss.
PointerSettled ==
  /\ HINT \in DOMAIN vol /\ HINT \in DOMAIN dur /\ vol[HINT] = dur[HINT]
  /\ ino[vol[HINT]].syn = ino[vol[HINT]].len

Ack(e) ==
  /\ ackBad' = (ackBad \/ (e.commit /\ ~PointerSettled))
  /\ UNCHANGED <<vol, dur, ino, fdt, info, reach, mode, pubTorn, flips, held>>

Apply(e) ==
  /\ mode = "run"
  /\ \/ e.op = "mkdir" /\ Mkdir(e)
     \/ e.op = "open" /\ OpenAt(e)
     \/ e.op \in {"write", "pwrite", "trunc"} /\ Write(e)
     \/ e.op = "fsync" /\ Fsync(e)
     \/ e.op = "close" /\ Close(e)
     \/ e.op = "rename" /\ Rename(e)
     \/ e.op = "unlink" /\ Unlink(e)
     \/ e.op = "flock" /\ Flock(e)
     \/ e.op = "ack" /\ Ack(e)

(* ---------------- environment ---------------- *)
\* The writing process dies: descriptors and flocks vanish, kernel state stays.
Crash ==
  /\ mode = "run"
  /\ mode' = "crashed"
  /\ fdt' = EmptyFn
  /\ held' = {}
  /\ UNCHANGED <<vol, dur, ino, info, reach, pubTorn, flips, ackBad>>

DirtyDirs == {info[p].dir : p \in {q \in (DOMAIN vol) \cup (DOMAIN dur) :
                 ~(q \in DOMAIN vol /\ q \in DOMAIN dur /\ vol[q] = dur[q])}}

PowerLoss ==
  /\ mode \in {"run", "crashed"}
  /\ mode' = "lost"
  /\ fdt' = EmptyFn
  /\ held' = {}
  /\ \E K \in SUBSET DirtyDirs, c \in {"lost", "torn", "kept"} :
       LET surv == {p \in DOMAIN vol : info[p].dir \in K} \cup {p \in DOMAIN dur : info[p].dir \notin K}
           nl(i) == CASE c = "lost" -> ino[i].syn
                      [] c = "kept" -> ino[i].len
                      [] c = "torn" -> ino[i].syn + ((ino[i].len - ino[i].syn) \div 2)
       IN /\ vol' = [p \in surv |-> IF info[p].dir \in K THEN vol[p] ELSE dur[p]]
          /\ dur' = vol'
          /\ ino' = [i \in DOMAIN ino |->
                       IF ino[i].kind = "file" /\ ino[i].len > ino[i].syn
                       THEN [ino[i] EXCEPT !.len = nl(i), !.syn = nl(i), !.torn = (nl(i) < ino[i].len)]
                       ELSE ino[i]]
  /\ UNCHANGED <<info, reach, pubTorn, flips, ackBad>>

(* ---------------- properties ---------------- *)
\* present and complete in name space ns
Complete(ns, f) ==
  /\ f.path \in DOMAIN ns
  /\ LET i == ns[f.path] IN ino[i].kind = "file" /\ ~ino[i].torn /\ ino[i].len >= f.size

\* present, complete, and neither its directory entry nor its content can be lost any more
DurablyComplete(f) ==
  /\ f.path \in DOMAIN vol /\ f.path \in DOMAIN dur /\ vol[f.path] = dur[f.path]
  /\ LET i == vol[f.path] IN ino[i].kind = "file" /\ ~ino[i].torn /\ ino[i].syn >= f.size

PtrInos == (IF HINT \in DOMAIN vol THEN {vol[HINT]} ELSE {}) \cup (IF HINT \in DOMAIN dur THEN {dur[HINT]} ELSE {})

PtrDurable(i) ==
  /\ ino[i].target # "" /\ ino[i].len > 0 /\ ino[i].syn = ino[i].len
  /\ ino[i].target \in DOMAIN reach
  /\ \A f \in reach[ino[i].target] : DurablyComplete(f)

\* C16, "at the instant the version pointer is advanced" and ever after: whatever pointer a
\* power loss could leave behind (the visible one or the last durable one) names a version all
\* of whose files are durable.
PointerNeverOutruns == mode # "lost" => \A i \in PtrInos : PtrDurable(i)

\* C16, every post-power-loss state: the surviving pointer is whole and so is all it reaches.
PostLossOK ==
  mode = "lost" =>
    (HINT \in DOMAIN vol =>
       LET i == vol[HINT] IN
         /\ ~ino[i].torn /\ ino[i].len > 0 /\ ino[i].target \in DOMAIN reach
         /\ \A f \in reach[ino[i].target] : Complete(vol, f))

\* C16, "in particular after a commit was acknowledged"
AckedCommitDurable == ~ackBad

\* C03/C02 at L0: a name under which content is consumed never shows an empty or growing file
AtomicPublish ==
  mode # "lost" =>
    /\ ~pubTorn
    /\ \A p \in DOMAIN vol : info[p].cls \in FinalCls => ino[vol[p]].len > 0

\* C03 at L0: in every state a process crash could freeze, the pointer names a version all of
\* whose files are present and complete (the version before the operation, or - once the pointer
\* was renamed - the one after it); MaxFlips bounds the pointer advances of one operation.
PtrComplete ==
  HINT \in DOMAIN vol =>
    LET i == vol[HINT] IN
      /\ ino[i].target \in DOMAIN reach
      /\ \A f \in reach[ino[i].target] : Complete(vol, f)

CrashPreOrPost0 == mode # "lost" => PtrComplete

\* Extension (reported separately, DESIGN C16 "Limits"): directories on the path to a reachable
\* file whose own creation is not yet durable at a moment the pointer names that file.
RECURSIVE AncGap(_)
AncGap(d) ==
  IF d = ROOT \/ d \notin DOMAIN info THEN {}
  ELSE (IF d \in DOMAIN vol /\ d \in DOMAIN dur /\ vol[d] = dur[d] THEN {} ELSE {d}) \cup AncGap(info[d].dir)

AncGaps ==
  IF mode = "lost" THEN {}
  ELSE UNION {UNION {AncGap(info[f.path].dir) : f \in {g \in reach[ino[i].target] : g.path \in DOMAIN info}} :
                i \in {j \in PtrInos : ino[j].target \in DOMAIN reach}}

AncestorsDurable == AncGaps = {}

\* diagnostics for error traces (ALIAS): which reachable files are not yet durable / complete
Culprits ==
  [notDurable |-> UNION {{f.path : f \in {g \in reach[ino[i].target] : ~DurablyComplete(g)}} :
                           i \in {j \in PtrInos : ino[j].target \in DOMAIN reach}},
   notComplete |-> IF HINT \in DOMAIN vol /\ ino[vol[HINT]].target \in DOMAIN reach
                   THEN {f.path : f \in {g \in reach[ino[vol[HINT]].target] : ~Complete(vol, g)}} ELSE {},
   emptyFinal |-> {p \in DOMAIN vol : info[p].cls \in FinalCls /\ ino[vol[p]].len = 0},
   ptrUnsynced |-> {i \in PtrInos : ino[i].syn # ino[i].len \/ ino[i].target \notin DOMAIN reach},
   pubTorn |-> pubTorn, ackBad |-> ackBad, mode |-> mode]
=============================================================================
