------------------------------ MODULE MC_FLock ------------------------------
(***************************************************************************)
(* Model-checking wrapper for FLock.tla (C19).  Lockers "a" (process P),    *)
(* "b" and "c" (two threads of process Q, distinct FileLock instances).     *)
(*   as is   : Mode = "flock", UnlinkOnRelease = FALSE, BlockingFlock =     *)
(*             FALSE -> LockSafety and NoUnlinkRace hold, also with Die.    *)
(*   anti-vacuity: UnlinkOnRelease = TRUE -> MutualExclusion, NoUnlinkRace  *)
(*             FAIL; BlockingFlock = TRUE -> TimeoutHonoured FAILS;         *)
(*             Mode = "excl" with Die -> DeathReleases FAILS; Mode = "excl" *)
(*             with a holder older than StaleAge -> MutualExclusion FAILS.  *)
(***************************************************************************)
EXTENDS FLock

MC_ProcOf == [l \in Lockers |-> IF l = "a" THEN "P" ELSE "Q"]

\* reachability companions (must FAIL)
NeverTimedOut == ~(\E l \in Lockers : pc[l] = "idle" /\ rounds[l] > 0 /\ ~locked[l] /\ now >= deadline[l] /\ (busy \ {l}) # {})
NeverAcquiredAfterDeath == ~(\E l \in Lockers : l \in holding /\ dead # {})
=============================================================================
