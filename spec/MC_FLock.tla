------------------------------ MODULE MC_FLock ------------------------------
(***************************************************************************)
(* Model-checking wrapper for FLock.tla (C19).  Lockers "a" (process P),    *)
(* "b" and "c" (two threads of process Q, distinct FileLock instances).     *)
(*   as is   : Mode = "flock", UnlinkOnRelease = FALSE, BlockingFlock =     *)
(*             FALSE -> LockSafety and NoUnlinkRace hold, also with Die.    *)
(*   anti-vacuity: UnlinkOnRelease = TRUE -> MutualExclusion, NoUnlinkRace  *)
(*             FAIL; BlockingFlock = TRUE -> TimeoutHonoured FAILS;         *)
(*             Mode = "excl" with Die -> DeathReleases FAILS; Mode = "excl" *)
(*             with a holder older than StaleAge -> MutualExclusion FAILS.  *)
(***************************************************************************)
EXTENDS FLock

MC_ProcOf == [l \in Lockers |-> IF l = "a" THEN "P" ELSE "Q"]

\* reachability companions (must FAIL)
NeverTimedOut == ~(\E l \in Lockers : pc[l] = "idle" /\ rounds[l] > 0 /\ ~locked[l] /\ now >= deadline[l] /\ (busy \ {l}) # {})
NeverAcquiredAfterDeath == ~(\E l \in Lockers : l \in holding /\ dead # {})

(***************************************************************************)
(* Liveness (C19: "a blocked acquirer fails with a timeout error within    *)
(* its configured timeout", as an eventuality): under weak fairness of the *)
(* clock and of every locker that is INSIDE acquire() or release() - a     *)
(* holder may sit on the lock forever, an idle locker need not start, a    *)
(* process may die at any time - every acquire() call returns (True or     *)
(* TimeoutError) and every release() call returns.  The clock of the       *)
(* model is bounded, so acquire() is only started while its deadline is    *)
(* still on the clock (LiveNext); nothing else is constrained.             *)
(*   BlockingFlock = TRUE must violate AcquireReturns (the blocked flock   *)
(*   has no enabled step while the holder sits on the lock).               *)
(***************************************************************************)
InCall(l) == pc[l] \notin {"idle", "held", "dead"}
LiveNext == Next /\ (\A l \in Lockers : deadline'[l] <= MaxNow)
LiveSpec == Init /\ [][LiveNext]_vars
            /\ WF_vars(Tick)
            /\ \A l \in Lockers : WF_vars(InCall(l) /\ LockerStep(l))
AcquireReturns == \A l \in Lockers : InCall(l) ~> ~InCall(l)
\* with a holder that never releases, a contender that keeps calling acquire() keeps getting TimeoutError - and never True
=============================================================================
