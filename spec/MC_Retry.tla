------------------------------ MODULE MC_Retry ------------------------------
(***************************************************************************)
(* Every sequence of attempt outcomes the environment can produce against  *)
(* retry_with_backoff (Retry.tla): TLC checks RetryContract in every state *)
(* and ExportInv prints one JSON line per finished call - the fault        *)
(* sequence to inject, and the ending, attempt count and sleep schedule    *)
(* the real code must show.                                                *)
(***************************************************************************)
EXTENDS Retry, Json, IOUtils

CONSTANT DoExport

ExportInv == (DoExport /\ Done) =>
  PrintT(ToJson([F |-> F, status |-> status, value |-> value, raised |-> raised,
                 attempts |-> N, sleeps |-> sleeps]))

(* Trace validation: the endings observed on the real code (one JSON object per line: F = classes of  *)
(* the attempts actually made, status, value, raised) are judged by the reference predicates.        *)
Obs == ndJsonDeserialize(IOEnv.OBS_FILE)
\* (an invariant that does its work in the initial state only)
ValidateObserved == (N = 0) =>
  LET bad == SelectSeq([i \in 1..Len(Obs) |-> [i |-> i, failed |-> FailedClauses(Obs[i].F, Obs[i].status, Obs[i].value, Obs[i].raised)]],
                       LAMBDA r : r.failed # {})
  IN PrintT(ToJson([validated |-> Len(Obs), bad |-> bad]))
=============================================================================
