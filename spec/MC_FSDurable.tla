---------------------------- MODULE MC_FSDurable ----------------------------
(***************************************************************************)
(* Model-checks DataShard's local publish protocol on the L0 file-system   *)
(* model: every operation type is written down as the sequence of system   *)
(* calls the code issues (DESIGN Appendix A.1/A.3/A.5/A.6; transcribed     *)
(* from the sources named at each operator) and executed as an explicit    *)
(* process.  After EVERY step the process may Crash and the machine may    *)
(* lose power; TLC checks                                                  *)
(*   C16: PointerNeverOutruns, PostLossOK, AckedCommitDurable              *)
(*   C03: AtomicPublish, CrashPreOrPost0 (in every state = at every crash  *)
(*        point; the state after Crash is the state before it)             *)
(* for every operation type x 0..2 prior snapshots.                        *)
(*                                                                         *)
(* Variant (CONSTANT) switches ONE deviation from the code as it is; each  *)
(* deviation must make TLC fail (anti-vacuity; they mirror the C16 and    *)
(* C03 patches under mutants/):                                            *)
(*   "ok"             the code as it is                                    *)
(*   "nofsync"        write_file without os.fsync(fd)                      *)
(*   "nodirfsync"     write_file without the directory fsync               *)
(*   "nodatafsync"    DataFileWriter.close without the temp-file fsync     *)
(*   "nodatadirfsync" DataFileWriter.close without the directory fsync     *)
(*   "hintfirst"      pointer flipped before the metadata file is written  *)
(*   "inplace"        write_file opens the final name and writes in place  *)
(*   "datafinal"      parquet written under the data file's final name     *)
(*   "gclive"         the collector unlinks a reachable data file          *)
(*                                                                         *)
(* Classes (exported by POSTCONDITION Export) is the specification's  *)
(* enumeration of crash points: (operation, prior, phase, call).  The C03  *)
(* harness must hit every class with a real crash (harness/props/c03.py).  *)
(***************************************************************************)
EXTENDS FSDurable, SequencesExt, Json, IOUtils

CONSTANTS Variant, MaxPrior

VARIABLES opn,      \* operation type of this behaviour
          prior,    \* number of snapshots committed before it
          pc        \* next instruction

vars == <<vol, dur, ino, fdt, info, reach, mode, pubTorn, flips, ackBad, held, opn, prior, pc>>

V(x) == Variant = x

(* ---------------- abstract names ---------------- *)
S(k)      == ToString(k)
MetaP(k)  == "metadata/v" \o S(k) \o ".metadata.json"
ListP(k)  == "metadata/manifests/list" \o S(k)
ManP(k)   == "metadata/manifests/man" \o S(k)
DataP(k)  == "data/d" \o S(k)
MarkP(x)  == "metadata/inflight/mark-" \o x
TmpP(d, x) == d \o "/.tmp." \o x

F(p) == [path |-> p, size |-> 10]
\* everything reachable from the version that holds snapshots 1..k (all retained)
ReachK(k) == {F(MetaP(k))} \cup UNION {{F(ListP(j)), F(ManP(j)), F(DataP(j))} : j \in 1..k}

(* ---------------- instruction records (same field set as trace events) ---------------- *)
E0 == [op |-> "", path |-> "", dir |-> "", cls |-> "", fd |-> 0, n |-> 0, off |-> 0, creat |-> FALSE,
       trunc |-> FALSE, wr |-> FALSE, size |-> -1, src |-> "", dst |-> "", how |-> "", target |-> "",
       reach |-> <<>>, files |-> <<>>, hintChanged |-> FALSE, commit |-> FALSE, ph |-> ""]

IMkdir(p, d, ph)              == [E0 EXCEPT !.op = "mkdir", !.path = p, !.dir = d, !.ph = ph]
ICreate(p, d, c, fd, ph)      == [E0 EXCEPT !.op = "open", !.path = p, !.dir = d, !.cls = c, !.fd = fd,
                                            !.creat = TRUE, !.wr = TRUE, !.ph = ph]
IOpen(p, d, fd, wr, tr, ph)   == [E0 EXCEPT !.op = "open", !.path = p, !.dir = d, !.fd = fd, !.wr = wr,
                                            !.trunc = tr, !.ph = ph]
IWrite(fd, n, tgt, rch, ph)   == [E0 EXCEPT !.op = "write", !.fd = fd, !.n = n, !.target = tgt, !.reach = rch, !.ph = ph]
IFsync(fd, ph)                == [E0 EXCEPT !.op = "fsync", !.fd = fd, !.ph = ph]
IClose(fd, ph)                == [E0 EXCEPT !.op = "close", !.fd = fd, !.ph = ph]
IRename(s, t, d, c, ph)       == [E0 EXCEPT !.op = "rename", !.src = s, !.dst = t, !.dir = d, !.cls = c, !.ph = ph]
IUnlink(p, ph)                == [E0 EXCEPT !.op = "unlink", !.path = p, !.ph = ph]
IFlock(fd, how, ph)           == [E0 EXCEPT !.op = "flock", !.fd = fd, !.how = how, !.ph = ph]
IAck(commit)                  == [E0 EXCEPT !.op = "ack", !.commit = commit, !.ph = "return"]

SetSeq(s) == SetToSeq(s)

(* storage_backend.py:228-304 write_file(path, content): mkstemp in the same directory, write, *)
(* fsync, close, os.replace, open(dir), fsync(dir), close.  `x` makes the temp name unique.     *)
WF(p, d, c, ph, tgt, rch, x) ==
  IF V("inplace")
  THEN << ICreate(p, d, c, 4, ph), IWrite(4, 10, tgt, rch, ph), IFsync(4, ph), IClose(4, ph) >>
  ELSE << ICreate(TmpP(d, x), d, "temp", 4, ph), IWrite(4, 10, tgt, rch, ph) >>
       \o (IF V("nofsync") THEN << >> ELSE << IFsync(4, ph) >>)
       \o << IClose(4, ph), IRename(TmpP(d, x), p, d, c, ph) >>
       \o (IF V("nodirfsync") THEN << >>
           ELSE << IOpen(d, "", 4, FALSE, FALSE, ph), IFsync(4, ph), IClose(4, ph) >>)

(* data_operations.py:193-235 open (NamedTemporaryFile fd 3, pyarrow opens the same name      *)
(* O_TRUNC as fd 4), pyarrow writes, data_operations.py:278-328 close: writer.close, open(RO), *)
(* fsync, close, os.replace, open(dir), fsync, close; the NamedTemporaryFile object is         *)
(* dropped (closed) afterwards.                                                                *)
DF(p, x) ==
  IF V("datafinal")
  THEN << ICreate(p, "data", "data", 4, "data"), IWrite(4, 5, "", <<>>, "data"), IWrite(4, 5, "", <<>>, "data"),
          IClose(4, "data") >>
  ELSE LET t == "data/tmp" \o x IN
       << ICreate(t, "data", "temp", 3, "data"), IOpen(t, "data", 4, TRUE, TRUE, "data"),
          IWrite(4, 5, "", <<>>, "data"), IWrite(4, 5, "", <<>>, "data"), IClose(4, "data") >>
       \o (IF V("nodatafsync") THEN << >>
           ELSE << IOpen(t, "data", 4, FALSE, FALSE, "data"), IFsync(4, "data"), IClose(4, "data") >>)
       \o << IRename(t, p, "data", "data", "data") >>
       \o (IF V("nodatadirfsync") THEN << >>
           ELSE << IOpen("data", "", 4, FALSE, FALSE, "data"), IFsync(4, "data"), IClose(4, "data") >>)
       \o << IClose(3, "data") >>

(* transaction.py:295-309 _register_inflight: a marker is written (through write_file) before  *)
(* the file it protects                                                                        *)
Marked(x, seq) == WF(MarkP(x), "metadata/inflight", "marker", "marker", "", <<>>, "mk" \o x) \o seq

(* file_lock.py:103-122 / 153-187 *)
Lock   == << [ICreate(".locks/metadata.lock", ".locks", "lock", 3, "lock") EXCEPT !.creat = TRUE],
             IFlock(3, "ex", "lock") >>
Unlock == << IFlock(3, "un", "unlock"), IClose(3, "unlock") >>

(* metadata_manager.py:136-242 commit(): under the lock write the metadata file, then flip the *)
(* pointer (commit point); "hintfirst" swaps the two writes.                                   *)
Flip(k, rset) ==
  LET m == WF(MetaP(k), "metadata", "meta", "meta", "", <<>>, "m" \o S(k))
      h == WF(HINT, ROOT, "hint", "hint", MetaP(k), SetSeq(rset), "h" \o S(k))
  IN Lock \o (IF V("hintfirst") THEN h \o m ELSE m \o h) \o Unlock

Unmark(xs) == [i \in 1..Len(xs) |-> IUnlink(MarkP(xs[i]), "unmark")]

(* ---------------- the operations (transaction.py:346-448, 450-579; snapshot_manager.py:258-301; *)
(* garbage_collector.py:54-157) on a table with n prior snapshots ---------------- *)
Prog(o, n) ==
  LET k == n + 1 IN
  LET first == IF n = 0 THEN << IMkdir("metadata/inflight", "metadata", "mkdir") >> ELSE << >> IN
  CASE o = "create" ->
         << IMkdir(ROOT, "", "mkdir"), IMkdir("metadata", ROOT, "mkdir"), IMkdir("data", ROOT, "mkdir"),
            IMkdir("metadata/manifests", "metadata", "mkdir"), IMkdir(".locks", ROOT, "mkdir") >>
         \o Flip(0, {F(MetaP(0))}) \o << IAck(TRUE) >>
    [] o = "append" ->
         first \o Marked("d", DF(DataP(k), "a")) \o Marked("m", WF(ManP(k), "metadata/manifests", "manifest", "manifest", "", <<>>, "man"))
         \o Marked("l", WF(ListP(k), "metadata/manifests", "list", "list", "", <<>>, "lst"))
         \o Flip(k, ReachK(k)) \o Unmark(<<"d", "m", "l">>) \o << IAck(TRUE) >>
    [] o = "multi" ->
         first \o Marked("d", DF(DataP(k), "a")) \o Marked("e", DF("data/e" \o S(k), "b"))
         \o Marked("m", WF(ManP(k), "metadata/manifests", "manifest", "manifest", "", <<>>, "man"))
         \o Marked("l", WF(ListP(k), "metadata/manifests", "list", "list", "", <<>>, "lst"))
         \o Flip(k, ReachK(k) \cup {F("data/e" \o S(k))}) \o Unmark(<<"d", "e", "m", "l">>) \o << IAck(TRUE) >>
    [] o = "delete" ->   \* rewrites one manifest; no data file is written or removed
         Marked("m", WF("metadata/manifests/rewritten", "metadata/manifests", "manifest", "manifest", "", <<>>, "man"))
         \o Marked("l", WF(ListP(k), "metadata/manifests", "list", "list", "", <<>>, "lst"))
         \o Flip(k, (ReachK(n) \ {F(MetaP(n))}) \cup {F(MetaP(k)), F(ListP(k)), F("metadata/manifests/rewritten")})
         \o Unmark(<<"m", "l">>) \o << IAck(TRUE) >>
    [] o = "replace" ->  \* delete_files + append in one transaction: data file, rewritten manifest, new manifest, list, ONE flip
         Marked("d", DF(DataP(k), "a"))
         \o Marked("r", WF("metadata/manifests/rewritten", "metadata/manifests", "manifest", "manifest", "", <<>>, "man"))
         \o Marked("m", WF(ManP(k), "metadata/manifests", "manifest", "manifest", "", <<>>, "man"))
         \o Marked("l", WF(ListP(k), "metadata/manifests", "list", "list", "", <<>>, "lst"))
         \o Flip(k, (ReachK(n) \ {F(MetaP(n))}) \cup {F(MetaP(k)), F(ListP(k)), F("metadata/manifests/rewritten"), F(ManP(k)), F(DataP(k))})
         \o Unmark(<<"d", "r", "m", "l">>) \o << IAck(TRUE) >>
    [] o \in {"expire", "deletesnap"} ->   \* metadata-only: the new version keeps the newest snapshot
         Flip(k, {F(MetaP(k)), F(ListP(n))} \cup UNION {{F(ManP(j)), F(DataP(j))} : j \in 1..n})
         \o << IAck(TRUE) >>
    [] o = "gc" ->
         << IUnlink("data/orphan", "gc"), IUnlink("data/tmpdead", "gc"), IUnlink("metadata/manifests/orphan", "gc") >>
         \o (IF V("gclive") /\ n > 0 THEN << IUnlink(DataP(1), "gc") >> ELSE << >>)
         \o << IAck(FALSE) >>

Ops == {"create", "append", "multi", "delete", "replace", "expire", "deletesnap", "gc"}
Valid(o, n) == (o = "create" => n = 0) /\ (o \in {"delete", "replace", "expire", "deletesnap"} => n >= 1)

(* ---------------- what is on disk before the operation ---------------- *)
Ent(p, d, c, kind, tgt) == [path |-> p, dir |-> d, cls |-> c, kind |-> kind, size |-> IF kind = "dir" THEN 0 ELSE 10, target |-> tgt]

PreEntries(o, n) ==
  IF o = "create" THEN << >>
  ELSE << Ent(ROOT, "", "dir", "dir", ""), Ent("metadata", ROOT, "dir", "dir", ""), Ent("data", ROOT, "dir", "dir", ""),
          Ent("metadata/manifests", "metadata", "dir", "dir", ""), Ent(".locks", ROOT, "dir", "dir", ""),
          [Ent(".locks/metadata.lock", ".locks", "lock", "file", "") EXCEPT !.size = 0],
          Ent(HINT, ROOT, "hint", "file", MetaP(n)) >>
       \* metadata/inflight is created by the first marker write ever (write_file: os.makedirs)
       \o (IF n >= 1 THEN << Ent("metadata/inflight", "metadata", "dir", "dir", "") >> ELSE << >>)
       \o [j \in 1..(n + 1) |-> Ent(MetaP(j - 1), "metadata", "meta", "file", "")]
       \o [j \in 1..n |-> Ent(ListP(j), "metadata/manifests", "list", "file", "")]
       \o [j \in 1..n |-> Ent(ManP(j), "metadata/manifests", "manifest", "file", "")]
       \o [j \in 1..n |-> Ent(DataP(j), "data", "data", "file", "")]
       \o (IF o = "gc"
           THEN << Ent("data/orphan", "data", "data", "file", ""), Ent("data/tmpdead", "data", "temp", "file", ""),
                   Ent("metadata/manifests/orphan", "metadata/manifests", "manifest", "file", "") >>
           ELSE << >>)

PreInit(o, n) ==
  [entries |-> PreEntries(o, n),
   reach |-> IF o = "create" THEN << >> ELSE << [target |-> MetaP(n), files |-> SetSeq(ReachK(n))] >>]

Init ==
  /\ opn \in Ops
  /\ prior \in 0..MaxPrior
  /\ Valid(opn, prior)
  /\ pc = 1
  /\ InitFrom(PreInit(opn, prior))

Step ==
  /\ pc <= Len(Prog(opn, prior))
  /\ Apply(Prog(opn, prior)[pc])
  /\ pc' = pc + 1
  /\ UNCHANGED <<opn, prior>>

Next ==
  \/ Step
  \/ Crash /\ UNCHANGED <<opn, prior, pc>>
  \/ PowerLoss /\ UNCHANGED <<opn, prior, pc>>

Spec == Init /\ [][Next]_vars

\* one operation advances the pointer at most once: a crash state is PRE (0) or POST (1)
AtMostOneFlip == flips <= 1

\* the process never gets stuck: every instruction is enabled when reached (so the invariants
\* really were evaluated along the whole program, not on a prefix)
Finishes == (mode = "run" /\ pc <= Len(Prog(opn, prior))) => ENABLED Step

Done == pc = Len(Prog(opn, prior)) + 1

(* ---------------- export: the crash points the real harness has to hit ---------------- *)
Classes ==
  UNION {{[op |-> on[1], prior |-> on[2], ph |-> Prog(on[1], on[2])[i].ph, call |-> Prog(on[1], on[2])[i].op] :
             i \in 1..Len(Prog(on[1], on[2]))} :
           on \in {x \in Ops \X (0..MaxPrior) : Valid(x[1], x[2])}}

\* (TLC refuses a constant-level POSTCONDITION; the register read makes it state-independent but not constant)
ASSUME TLCSet(9, 0)
Export == TLCGet(9) = 0 /\ ndJsonSerialize(IOEnv.VERIF_OUT, SetSeq(Classes))

Alias == [opn |-> opn, prior |-> prior, pc |-> pc, why |-> Culprits]
=============================================================================
