--------------------------- MODULE Trace_S3Lock ---------------------------
(***************************************************************************)
(* Trace validation of the real S3LockProvider (harness/lock_harness.py)    *)
(* against S3Lock.tla.  TRACE_FILE = [traces: <<t1, ...>>], every trace     *)
(* [events: <<e1, ...>>]; one event per S3 request / clock read / sleep /   *)
(* API call and return, recorded under the deterministic scheduler.         *)
(*                                                                         *)
(* Strict = TRUE : every event must be the S3Lock action the transcription  *)
(*   takes at that control point, with the same outcome (conformance), and  *)
(*   every reference rule is evaluated after every event.                   *)
(* Strict = FALSE: reference-only replay.  The requests are applied to the  *)
(*   lock object by plain S3 semantics (conditional PUT / GET / HEAD /      *)
(*   DELETE; the recorded status must be the one these semantics give) and  *)
(*   the API returns are judged by the reference rules of S3Lock.tla alone. *)
(*   This pass decides the verdict for executions the transcription does    *)
(*   not explain (a changed implementation): broken rule = violation,       *)
(*   otherwise model drift (a note).                                        *)
(***************************************************************************)
EXTENDS S3Lock, Json, IOUtils, TLCExt, Sequences

CONSTANT Strict

VARIABLES tid, l

TraceData == JsonDeserialize(IOEnv.TRACE_FILE)
Traces == TraceData.traces
NT == Len(Traces)
Evs == Traces[tid].events
ev == Evs[l]
A == ev.a
tvars == <<vars, tid, l>>

E(r) == <<r.owner, r.ctr>>                 \* JSON etag / body id -> the model's ETag

TraceInit == tid \in 1..NT /\ l = 1 /\ Init

IsEv(k) == l <= Len(Evs) /\ ev.k = k /\ l' = l + 1 /\ UNCHANGED tid

TrTick == IsEv("Tick") /\ ev.now >= now /\ now' = ev.now
          /\ UNCHANGED <<obj, pc, flag, hb, etagC, seq, seen, start, rounds, viol, chk>>

(***************************************************************************)
(* Strict binding: the transcription's action at this control point.        *)
(***************************************************************************)
SAcqStart == IsEv("AcqStart") /\ StartAcquire(A)

\* (the `flag` field of an event is self.is_locked when the API call returned: compared at the returns)
PutWritten == ev.status = "ok" => (Etag(obj') = E(ev.body) /\ obj'.lastMod = ev.now)
SPutCreate   == IsEv("Put") /\ ev.via = "create" /\ ev.cond = "inm" /\ TryCreate(A)
                /\ (ev.status = "ok") = (pc'[A] = "held") /\ PutWritten
SPutTakeover == IsEv("Put") /\ ev.via = "takeover" /\ ev.cond = "im" /\ pc[A] = "put" /\ E(ev.im) = seen[A].etag /\ TakeoverPut(A)
                /\ (ev.status = "ok") = (pc'[A] = "held") /\ PutWritten
SPutRenew    == IsEv("Put") /\ ev.via = "renew" /\ ev.cond = "im" /\ E(ev.im) = etagC[A] /\ Renew(A)
                /\ (ev.status = "ok") = flag'[A] /\ PutWritten
SPut == SPutCreate \/ SPutTakeover \/ SPutRenew
SRenewRet == IsEv("RenewRet") /\ UNCHANGED vars /\ ev.flag = flag[A]

SHead == IsEv("Head") /\ HeadReq(A) /\ (ev.status = "ok") = (pc'[A] = "age")
         /\ (ev.status = "ok" => seen'[A] = [etag |-> E(ev.etag), mod |-> ev.mod])
SAge == IsEv("Age") /\ AgeCheck(A)
SDeadline == IsEv("Deadline") /\ DeadlineCheck(A)
SSleep == IsEv("Sleep") /\ (IF ev.via = "is_held" THEN IsHeldSleep(A) ELSE Sleep(A))

\* API returns: no step of the transcription; the outcome must be the one the model state implies
Same == UNCHANGED vars
SAcqRet == IsEv("AcqRet") /\ Same
           /\ ev.flag = flag[A]
           /\ CASE ev.res = "ok" -> (pc[A] = "held" /\ flag[A] /\ Owner(obj) = A)
                [] ev.res = "timeout" -> (pc[A] = "idle" /\ ~flag[A])
                [] OTHER -> FALSE
SIsHeldCall == IsEv("IsHeldCall") /\ IsHeldStart(A)
SIsHeldRet == IsEv("IsHeldRet") /\ Same /\ pc[A] = "held" /\ ev.res = (flag[A] /\ Owner(obj) = A) /\ ev.flag = flag[A]
SGet ==
  /\ IsEv("Get")
  /\ (ev.status = "ok") = (Owner(obj) # "none")
  /\ ev.status = "ok" => E(ev.body) = Etag(obj)
  /\ IF ev.via = "is_held" THEN IsHeldGet(A) ELSE ReleaseGet(A)
SRelCall == IsEv("RelCall") /\ ReleaseStart(A)
SDelete == IsEv("Delete") /\ ReleaseDelete(A) /\ (ev.cond = "im") = AtomicRelease
           /\ (ev.cond = "im" => E(ev.im) = seen[A].etag)
SRelRet == IsEv("RelRet") /\ Same /\ pc[A] = "idle" /\ ~flag[A] /\ ev.flag = flag[A]

StrictNext == TrTick \/ SAcqStart \/ SPut \/ SRenewRet \/ SHead \/ SAge \/ SDeadline \/ SSleep \/ SAcqRet
              \/ SIsHeldCall \/ SIsHeldRet \/ SGet \/ SRelCall \/ SDelete \/ SRelRet

(***************************************************************************)
(* Reference-only binding: S3 semantics of the requests + reference rules.  *)
(* Only obj, now, start and the ghosts move.                                 *)
(***************************************************************************)
Frozen == UNCHANGED <<now, pc, flag, hb, etagC, seq, seen, rounds>>
InAcquire == ev.via \in {"create", "takeover", "acquire"}

PutStatus ==
  CASE ev.cond = "inm" -> IF Owner(obj) = "none" THEN "ok" ELSE "412"
    [] ev.cond = "im"  -> IF Owner(obj) = "none" THEN "404" ELSE IF Etag(obj) = E(ev.im) THEN "ok" ELSE "412"
    [] OTHER -> "ok"

RAcqStart == IsEv("AcqStart") /\ start' = [start EXCEPT ![A] = now] /\ UNCHANGED obj /\ Frozen /\ Obs(A, "acquire_call", FALSE)
RPut ==
  /\ IsEv("Put")
  /\ ev.status = PutStatus
  /\ obj' = IF ev.status = "ok" THEN [owner |-> ev.body.owner, ctr |-> ev.body.ctr, lastMod |-> now] ELSE obj
  /\ UNCHANGED start /\ Frozen
  /\ Obs(A, IF InAcquire THEN "put_412" ELSE "renew", FALSE)
RHead == IsEv("Head") /\ (ev.status = "ok") = (Owner(obj) # "none")
         /\ (ev.status = "ok" => E(ev.etag) = Etag(obj) /\ ev.mod = obj.lastMod)
         /\ UNCHANGED <<obj, start>> /\ Frozen /\ Obs(A, IF InAcquire THEN "head" ELSE "other", FALSE)
RAge == IsEv("Age") /\ UNCHANGED <<obj, start>> /\ Frozen /\ Obs(A, "age", FALSE)
RDeadline == IsEv("Deadline") /\ UNCHANGED <<obj, start>> /\ Frozen
             /\ Obs(A, IF now - start[A] >= Timeout THEN "deadline_late" ELSE "deadline_ok", FALSE)
RSleep == IsEv("Sleep") /\ UNCHANGED <<obj, start>> /\ Frozen /\ Obs(A, IF InAcquire THEN "sleep" ELSE "h_sleep", FALSE)
RAcqRet == IsEv("AcqRet") /\ UNCHANGED <<obj, start>> /\ Frozen
           /\ Obs(A, CASE ev.res = "ok" -> "acquire_ok" [] ev.res = "timeout" -> "timeout" [] OTHER -> "acquire_other", ev.res = "ok")
RIsHeldCall == IsEv("IsHeldCall") /\ UNCHANGED <<obj, start>> /\ Frozen /\ Obs(A, "is_held_call", FALSE)
RIsHeldRet == IsEv("IsHeldRet") /\ UNCHANGED <<obj, start>> /\ Frozen /\ Obs(A, "is_held", ev.res)
RGet == IsEv("Get") /\ (ev.status = "ok") = (Owner(obj) # "none") /\ (ev.status = "ok" => E(ev.body) = Etag(obj))
        /\ UNCHANGED <<obj, start>> /\ Frozen /\ Obs(A, "get", FALSE)
RRelCall == IsEv("RelCall") /\ UNCHANGED <<obj, start>> /\ Frozen /\ Obs(A, "release_call", FALSE)
RDelete ==
  /\ IsEv("Delete")
  /\ obj' = IF ev.cond = "im" /\ ~(Owner(obj) # "none" /\ Etag(obj) = E(ev.im)) THEN obj ELSE NoObj
  /\ (ev.status = "ok") = (obj' = NoObj)
  /\ UNCHANGED start /\ Frozen /\ Obs(A, "delete", FALSE)
RRelRet == IsEv("RelRet") /\ UNCHANGED <<obj, start>> /\ Frozen /\ Obs(A, "release_done", FALSE)
RRenewRet == IsEv("RenewRet") /\ UNCHANGED <<obj, start>> /\ Frozen /\ Obs(A, "renew_done", FALSE)

RelaxedNext == TrTick \/ RRenewRet \/ RAcqStart \/ RPut \/ RHead \/ RAge \/ RDeadline \/ RSleep \/ RAcqRet
               \/ RIsHeldCall \/ RIsHeldRet \/ RGet \/ RRelCall \/ RDelete \/ RRelRet

TraceNext == IF Strict THEN StrictNext ELSE RelaxedNext
TraceSpec == TraceInit /\ [][TraceNext]_tvars

(***************************************************************************)
(* Per-trace verdict registers (-workers 1): 2 = furthest position reached, *)
(* 3 = first broken rule (position, name).  Most specific rule first.       *)
(***************************************************************************)
InvTable == << <<"TypeOK", TypeOK>>, <<"AtMostOneBeliever", AtMostOneBeliever>>,
               <<"SupersededObserves", SupersededObserves>>, <<"TimeoutHonoured", TimeoutHonoured>>,
               <<"ReleaseDeletesOnlyOwn", ReleaseDeletesOnlyOwn>>, <<"TakeoverOnlyAfterLapse", TakeoverOnlyAfterLapse>>,
               <<"AcquireMeansOwner", AcquireMeansOwner>>, <<"HolderStable", HolderStable>> >>
ViolatedNow == {i \in 1..Len(InvTable) : ~InvTable[i][2]}
FirstViolated == CHOOSE i \in ViolatedNow : \A j \in ViolatedNow : i <= j

ASSUME TLCSet(2, [t \in 1..NT |-> 0]) /\ TLCSet(3, [t \in 1..NT |-> <<0, "">>])

Progress ==
  /\ TLCSet(2, [TLCGet(2) EXCEPT ![tid] = IF l > @ THEN l ELSE @])
  /\ IF ViolatedNow # {} /\ TLCGet(3)[tid][1] = 0
     THEN TLCSet(3, [TLCGet(3) EXCEPT ![tid] = <<l, InvTable[FirstViolated][1]>>])
     ELSE TRUE
  /\ ViolatedNow = {}

Verdicts ==
  /\ PrintT(<<"REACHED", TLCGet(2)>>)
  /\ PrintT(<<"VIOLATED", TLCGet(3)>>)
=============================================================================
