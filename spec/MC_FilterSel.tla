---------------------------- MODULE MC_FilterSel ----------------------------
(***************************************************************************)
(* Exhaustive small-domain check of the C12 theorems of FilterSel and      *)
(* export of the complete case table (case + reference row set) for the    *)
(* binding against the real scan APIs.  One TLC state per case.            *)
(*                                                                         *)
(* kind "S"  : (table layout, filter, projection).  Columns a (any type,   *)
(*             values 0 < 2, NULL) and b (values 0 < 2, NULL and, for a    *)
(*             float column, NaN); literals -1..3.                         *)
(*     grp "single": one file: every multiset of <= MaxRows rows out of    *)
(*             the 12 row kinds, the empty file, and the 12-row file.      *)
(*     grp "multi" : the empty table and every sequence of 2..3 files out  *)
(*             of a palette of five (with the empty file), reduced filter  *)
(*             set.                                                        *)
(* kind "P"  : (filter-condition shape(s), table layout): every operator   *)
(*             spelling x every value shape, malformed shapes, on the      *)
(*             empty table, an empty file, and files with rows.            *)
(* kind "G"  : group states (one per layout and projection); every case   *)
(*             is the successor of its group so that TLC's workers share   *)
(*             the work.                                                   *)
(* kind "T"  : one state carrying the value-level theorem                  *)
(*             EngineMatchesReference over the whole value/expression      *)
(*             domain.                                                     *)
(* Run with StatsPushdown = FALSE, ValidateFirst = TRUE for the code as it *)
(* is; the other values are the pre-repair companions (see FilterSel).     *)
(***************************************************************************)
EXTENDS FilterSel, SequencesExt, FiniteSetsExt, Json, IOUtils

CONSTANTS MaxRows,     \* rows per file in the exhaustive single-file layouts
          FullProj     \* TRUE: six projections, each with every filter; FALSE: four projections, the
                       \*       non-trivial ones crossed with the small filter set ProjFilters only

VARIABLE c

(* ------------------------------ tables --------------------------------- *)
ValsA == {0, 2, NULL}
ValsB == {0, 2, NULL, NAN}
R(x, y) == [a |-> x, b |-> y]
\* the 12 row kinds in a fixed order
RowList == << R(0, 0), R(0, 2), R(0, NULL), R(0, NAN), R(2, 0), R(2, 2), R(2, NULL), R(2, NAN),
              R(NULL, 0), R(NULL, 2), R(NULL, NULL), R(NULL, NAN) >>
NR == Len(RowList)
\* files as multisets of row kinds = non-decreasing index sequences
IdxSeqs(n) == {s \in [1..n -> 1..NR] : \A i \in 1..(n - 1) : s[i] <= s[i + 1]}
FilesUpTo(m) == UNION {{[i \in 1..n |-> RowList[s[i]]] : s \in IdxSeqs(n)} : n \in 1..m}
EmptyFile == <<>>
AllRowsFile == RowList
SingleLayouts == {<<f>> : f \in FilesUpTo(MaxRows)} \cup {<<EmptyFile>>, <<AllRowsFile>>}

Palette == << EmptyFile,
              << R(0, 0) >>,
              << R(2, 0), R(NULL, NAN) >>,                 \* one distinct b value + NaN: statistics-sensitive
              << R(NULL, NULL) >>,
              << R(0, 2), R(2, NULL), R(2, 2) >> >>        \* three rows: uneven batches of 2
PalSeqs(n) == {[i \in 1..n |-> Palette[s[i]]] : s \in [1..n -> 1..Len(Palette)]}
MultiLayouts == {<<>>} \cup PalSeqs(2) \cup PalSeqs(3)

HasNaN(files) == \E f \in 1..Len(files) : \E r \in 1..Len(files[f]) : files[f][r].b = NAN

(* ------------------------------ filters -------------------------------- *)
E(cc, o, l) == [col |-> cc, op |-> o, lit |-> l]
CmpE(cc) == {E(cc, o, l) : o \in CmpOps, l \in {0, 1, 2}} \cup {E(cc, o, NULL) : o \in {"==", "!=", ">"}}
SetLits  == {{}, {NULL}, {0}, {0, NULL}, {0, 2}, {1}, {1, 2, NULL}}
SetE(cc) == {E(cc, o, s) : o \in SetOps, s \in SetLits}
NullE(cc) == {E(cc, o, 0) : o \in NullOps}
Btw(cc, lo, hi) == << E(cc, ">=", lo), E(cc, "<=", hi) >>
BetweenE(cc) == {Btw(cc, p[1], p[2]) : p \in {<<0, 2>>, <<1, 3>>, <<-1, 1>>, <<1, 1>>, <<2, 0>>, <<0, 0>>, <<NULL, 2>>, <<0, NULL>>}}
OneCol(cc) == {<<e>> : e \in CmpE(cc) \cup SetE(cc) \cup NullE(cc)} \cup BetweenE(cc)

ConjA == { <<E("a", "==", 0)>>, <<E("a", "!=", 0)>>, <<E("a", "<=", 1)>>, <<E("a", "in", {0, NULL})>>,
           <<E("a", "not_in", {0})>>, <<E("a", "is_null", 0)>>, Btw("a", 1, 3) }
ConjB == { <<E("b", "==", 0)>>, <<E("b", "!=", 0)>>, <<E("b", ">", 0)>>, <<E("b", "in", {2})>>,
           <<E("b", "not_in", {0, NULL})>>, <<E("b", "is_not_null", 0)>>, <<E("b", "not_in", {})>>, Btw("b", 0, 2) }
RevA == { <<E("a", "!=", 0)>>, <<E("a", "is_null", 0)>>, Btw("a", 1, 3) }
RevB == { <<E("b", "!=", 0)>>, <<E("b", "not_in", {0, NULL})>>, <<E("b", "in", {2})>> }
Conj == {x \o y : x \in ConjA, y \in ConjB} \cup {y \o x : x \in RevA, y \in RevB}
NoFilter == <<>>
Filters == OneCol("a") \cup OneCol("b") \cup Conj \cup {NoFilter}

\* reduced set for the multi-file layouts
MultiFilters == { NoFilter,
                  <<E("a", "==", 0)>>, <<E("a", ">", 0)>>, <<E("a", "==", 1)>>, <<E("a", "is_null", 0)>>,
                  <<E("a", "not_in", {0, NULL})>>, <<E("a", "in", {})>>, Btw("a", 0, 2),
                  <<E("b", "!=", 0)>>, <<E("b", "not_in", {0})>>, <<E("b", "not_in", {})>>, <<E("b", "<=", 0)>>,
                  <<E("b", "in", {2, NULL})>>, <<E("b", "is_not_null", 0)>>, <<E("b", "==", NULL)>>, Btw("b", 1, 3),
                  <<E("a", "==", 0), E("b", "!=", 0)>>, <<E("b", "not_in", {0}), E("a", "is_null", 0)>>,
                  <<E("a", "!=", 0), E("b", "==", 0)>>, <<E("a", "==", 1), E("b", "!=", 0)>> }

\* with a non-trivial projection (unless FullProj): filters on either column, both, none
ProjFilters == { NoFilter, <<E("a", "==", 0)>>, <<E("a", "is_null", 0)>>, <<E("b", "!=", 0)>>, <<E("b", "not_in", {0})>>,
                 <<E("b", "in", {2, NULL})>>, Btw("b", 1, 3), <<E("a", "==", 0), E("b", "!=", 0)>> }

Projs == IF FullProj THEN { ProjAll, <<"rid">>, <<"a", "rid">>, <<"b", "rid">>, <<"rid", "b", "a">>, <<"b">> }
         ELSE { ProjAll, <<"rid">>, <<"rid", "b", "a">>, <<"b">> }

(* --------------------- filter-condition shapes ------------------------- *)
Shape(k, op, isStr, vk, xs) == [k |-> k, op |-> op, opIsStr |-> isStr, vk |-> vk, xs |-> xs]
NoCond == Shape("absent", "", TRUE, "none", <<>>)
KnownLower == DOMAIN Mapping \cup {"between", "is_null", "isnull", "is_not_null", "notnull", "isnotnull"}
CaseVariants == DOMAIN LowerTab
UnknownOps == {"gte", "lte", "=>", "=<", "===", "startswith", "like", "not", "!", "", " >", "> ", "is null",
               "is not null", "not_null", "null", "nin", "><", "~", "contains", "equals", "is"}
Spellings == KnownLower \cup CaseVariants \cup UnknownOps
PairValues == { <<"scalar", <<0>> >>, <<"strscalar", <<0>> >>, <<"none", <<>> >>, <<"seq", <<>> >>, <<"seq", <<0>> >>, <<"seq", <<0, 2>> >>,
                <<"seq", <<2, NULL>> >>, <<"seq", <<0, 1, 2>> >> }
PairShapes == {Shape("pair", s, TRUE, v[1], v[2]) : s \in Spellings, v \in PairValues}
              \cup {Shape("pair", s, FALSE, v[1], v[2]) : s \in {"5", "None"}, v \in PairValues}
\* a value list with members of different types, for the set operators only
MixedShapes == {Shape("pair", s, TRUE, "mixed", <<0>>) : s \in {"in", "not_in", "IN", "not in"}}
BareShapes == { Shape("bare", "", TRUE, "scalar", <<0>>), Shape("bare", "", TRUE, "strscalar", <<0>>), Shape("bare", "", TRUE, "none", <<>>),
                Shape("bare", "", TRUE, "hetero", <<>>), Shape("bare", "", TRUE, "homog", <<>>) }
Shapes == PairShapes \cup MixedShapes \cup BareShapes

PFile1 == << R(0, 0) >>
PFile2 == << R(0, 2), R(2, NULL), R(2, 2) >>
PLayouts == { <<>>, <<EmptyFile>>, <<PFile1>>, <<PFile1, PFile2>>, <<EmptyFile, PFile1>> }
\* two-column filters: a's condition prunes every file of <<PFile1>> (a == 1) or none; b's condition is malformed
PCondA == { Shape("pair", "==", TRUE, "scalar", <<1>>), Shape("pair", "==", TRUE, "scalar", <<0>>) }
PCondB == { Shape("bare", "", TRUE, "none", <<>>), Shape("pair", "gte", TRUE, "scalar", <<0>>),
            Shape("pair", "in", TRUE, "scalar", <<0>>), Shape("pair", "in", TRUE, "mixed", <<0>>), Shape("bare", "", TRUE, "hetero", <<>>),
            Shape("bare", "", TRUE, "homog", <<>>), Shape("pair", "==", TRUE, "scalar", <<0>>) }

(* ------------------------------- cases --------------------------------- *)
\* TLC evaluates invariants of initial states in one thread; so the initial states are the GROUPS
\* (kind "G": one per table layout) and every case is a successor of its group: the workers
\* then share the groups.
Case(kind, grp, files, exprs, proj, cond, condB) ==
  [kind |-> kind, grp |-> grp, files |-> files, exprs |-> exprs, proj |-> proj, cond |-> cond, condB |-> condB]
Group(grp, files, proj) == Case("G", grp, files, <<>>, proj, NoCond, NoCond)
Groups == {Group("single", l, p) : l \in SingleLayouts, p \in Projs} \cup {Group("multi", l, p) : l \in MultiLayouts, p \in Projs}
     \cup {Group("one", l, p) : l \in PLayouts, p \in (IF FullProj THEN {ProjAll, <<"rid">>} ELSE {ProjAll})}
     \cup {Group("two", l, ProjAll) : l \in {<<PFile1>>, <<PFile1, PFile1>>}}
     \cup {Group("thm", <<>>, ProjAll)}
FiltersFor(grp, proj) == IF FullProj \/ proj = ProjAll THEN (IF grp = "single" THEN Filters ELSE MultiFilters) ELSE ProjFilters
CasesOf(g) ==
  CASE g.grp = "single" -> {Case("S", "single", g.files, e, g.proj, NoCond, NoCond) : e \in FiltersFor("single", g.proj)}
    [] g.grp = "multi"  -> {Case("S", "multi", g.files, e, g.proj, NoCond, NoCond) : e \in FiltersFor("multi", g.proj)}
    [] g.grp = "one"    -> {Case("P", "one", g.files, <<>>, g.proj, s, NoCond) : s \in Shapes}
    [] g.grp = "two"    -> {Case("P", "two", g.files, <<>>, g.proj, s, t) : s \in PCondA, t \in PCondB}
    [] g.grp = "thm"    -> {Case("T", "thm", <<>>, <<>>, g.proj, NoCond, NoCond)}
\* (operators with a parameter: TLC would evaluate a zero-arity constant definition eagerly at startup)
NumCases(grps) == LET gs == SetToSeq({x \in Groups : x.grp \in grps})
                  IN FoldSeq(LAMBDA g, acc : acc + Cardinality(CasesOf(g)), 0, gs)

Init == c \in Groups
Next == \/ c.kind = "G" /\ c' \in CasesOf(c)
        \/ c.kind # "G" /\ UNCHANGED c
Spec == Init /\ [][Next]_c

(* ------------------ what a P case means (reference / code) ------------- *)
CondsOf(x) == IF x.condB = NoCond THEN << <<"a", x.cond>> >> ELSE << <<"a", x.cond>>, <<"b", x.condB>> >>
RefMalformedP(x) == \E i \in 1..Len(CondsOf(x)) : RefCond(CondsOf(x)[i][2]) = Malformed
ExprsOfConds(x, meaning(_)) ==
  Flatten([i \in 1..Len(CondsOf(x)) |->
     LET m == meaning(CondsOf(x)[i][2]) IN
     IF m = Malformed THEN <<>> ELSE [j \in 1..Len(m.exprs) |-> ToExpr(CondsOf(x)[i][1], m.exprs[j])]])
RefExprsP(x) == ExprsOfConds(x, RefCond)
\* parse of ALL columns precedes build of all columns precedes evaluation
StageP(x) ==
  LET st == {StageOf(CondsOf(x)[i][2]) : i \in 1..Len(CondsOf(x))} IN
  IF "parse" \in st THEN "parse" ELSE IF "build" \in st THEN "build" ELSE IF "exec" \in st THEN "exec" ELSE "ok"
\* conditions the code did not understand never prune (TypeError -> "cannot prune") and are not evaluated
FltP(x) == [stage |-> StageP(x), exprs |-> ExprsOfConds(x, Understood)]

RefMalformedOf(x) == IF x.kind = "P" THEN RefMalformedP(x) ELSE FALSE
RefExprsOf(x)     == IF x.kind = "P" THEN RefExprsP(x) ELSE x.exprs
FltOf(x)          == IF x.kind = "P" THEN FltP(x) ELSE [stage |-> "ok", exprs |-> x.exprs]
StrAsSetOf(x)     == x.kind = "P" /\ \E i \in 1..Len(CondsOf(x)) : StrAsSet(CondsOf(x)[i][2])
\* Which columns are float/double columns matters to (a) the != arm of file pruning, (b) the signed-zero
\* `in` arm of the row-group statistics; NaN exists only in a float column b.  All relevant choices:
FloatChoices(x) ==
  LET es  == RefExprsOf(x)
      rel == {es[i].col : i \in {j \in 1..Len(es) : es[j].op \in {"in", "!=", "not_in"}}}
      nb  == IF HasNaN(x.files) THEN {"b"} ELSE {}
  IN {(S \cap rel) \cup nb : S \in SUBSET {"a", "b"}}

(* ----------------------------- invariants ------------------------------ *)
\* value-level theorem over the whole domain (kind "T")
AllExprs1 == CmpE("b") \cup SetE("b") \cup NullE("b") \cup {E("b", o, l) : o \in CmpOps, l \in {-1, 3}}
EngineMatchesReference ==
  c.kind = "T" => \A v \in ValsB, e \in AllExprs1 : EngineMatchesReferenceAt(v, e)

\* row-level: conjunctions, on every row of every case
EngineRowsMatchReference ==
  c.kind = "S" => \A f \in 1..Len(c.files) : \A r \in 1..Len(c.files[f]) : EngineRowMatchesReference(c.files[f][r], c.exprs)

SelAgreesWithFilterSelect == c.kind = "S" => SelIsSelect(c.files, c.exprs)

StatsArms ==
  c.kind = "S" => \A f \in 1..Len(c.files) : \A i \in 1..Len(c.exprs) : \A fc \in FloatChoices(c) :
     StatsArmsAt(c.files[f], c.exprs[i], fc)

ParserConforms ==
  c.kind = "P" => \A i \in 1..Len(CondsOf(c)) : ParserConformsAt(CondsOf(c)[i][2])

\* C12 itself: every API, both checksum settings, every projection.
ApiConforms ==
  c.kind \in {"S", "P"} =>
     \A fc \in FloatChoices(c) : ApiConformsAt(c.files, RefMalformedOf(c), RefExprsOf(c), FltOf(c), c.proj, fc)
\* ... and for the code as it was before the repairs (companion configurations): deviations are confined
\* to the characterised defects D1-D3.
ApiConformsModuloKnown ==
  c.kind \in {"S", "P"} =>
     \A fc \in FloatChoices(c) : ApiConformsModuloKnownAt(c.files, RefMalformedOf(c), RefExprsOf(c), FltOf(c), c.proj, fc, StrAsSetOf(c))

(* ------------------------------- export -------------------------------- *)
LitOut(e) == IF e.op \in SetOps THEN SetToSortSeq(e.lit, <) ELSE <<e.lit>>
ExprOut(e) == [col |-> e.col, op |-> e.op, lit |-> LitOut(e)]
ExprsOut(es) == [i \in 1..Len(es) |-> ExprOut(es[i])]
OutcomeOut(o) == IF o.raise THEN "raise" ELSE IF o.out = <<>> THEN "empty" ELSE "rows"
FlNaN(x) == IF HasNaN(x.files) THEN {"b"} ELSE {}
LostIf(files, exprs, fc) ==
  IF StatsPushdown /\ (HasNaN(files) => "b" \in fc) THEN LostToStats(files, exprs, fc) ELSE {}
OutS(grp, files, exprs) ==
  [kind |-> "S", grp |-> grp, files |-> files, exprs |-> ExprsOut(exprs), sel |-> Sel(files, exprs),
   \* rows the modelled code version loses on scan(verify_checksums=False), per set of float columns
   \* (empty unless StatsPushdown, i.e. for the code since 2813326)
   lost |-> [none |-> LostIf(files, exprs, {}), a |-> LostIf(files, exprs, {"a"}),
             b |-> LostIf(files, exprs, {"b"}), ab |-> LostIf(files, exprs, {"a", "b"})]]
OutP(x) == [kind |-> "P", grp |-> x.grp, files |-> x.files, cond |-> x.cond, condB |-> x.condB,
            refMalformed |-> RefMalformedP(x), refExprs |-> ExprsOut(RefExprsP(x)),
            stage |-> StageP(x), sel |-> Sel(x.files, RefExprsP(x)),
            strAsSet |-> StrAsSetOf(x), understoodSel |-> Sel(x.files, FltP(x).exprs),
            mScan |-> OutcomeOut(ScanTable(x.files, FltP(x), ProjAll, TRUE, FlNaN(x))),
            mBatches |-> OutcomeOut(ScanBatches(x.files, FltP(x), ProjAll, 2, FlNaN(x)))]
Meta == [kind |-> "meta", projs |-> SetToSeq(Projs), nS |-> NumCases({"single", "multi"}), nP |-> NumCases({"one", "two"}),
         nG |-> Cardinality(Groups), statsPushdown |-> StatsPushdown, validateFirst |-> ValidateFirst]
\* one record per (layout, filter) (the reference row set does not depend on the projection), built as a
\* sequence (no set of large records has to be normalised)
Grid(grp, layouts, filters) ==
  LET L == SetToSeq(layouts)  F == SetToSeq(filters)  n == Len(F)
  IN [i \in 1..(Len(L) * n) |-> OutS(grp, L[((i - 1) \div n) + 1], F[((i - 1) % n) + 1])]
PGrid ==
  LET G == SetToSeq({x \in Groups : x.grp \in {"one", "two"} /\ x.proj = ProjAll})
  IN Flatten([i \in 1..Len(G) |-> LET cs == SetToSeq(CasesOf(G[i])) IN [j \in 1..Len(cs) |-> OutP(cs[j])]])
Export ==
  ndJsonSerialize(IOEnv.VERIF_OUT,
     <<Meta>> \o Grid("single", SingleLayouts, Filters) \o Grid("multi", MultiLayouts, MultiFilters) \o PGrid)
=============================================================================
