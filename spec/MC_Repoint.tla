----------------------------- MODULE MC_Repoint -----------------------------
(***************************************************************************)
(* C15, parent repointing: exhaustive check of Metadata!Repoint (the       *)
(* transcription of snapshot_manager.py:21-47) against the reference       *)
(* "each survivor's new parent is its nearest kept TRUE ancestor, or       *)
(* nothing", over ALL parent functions of 1..MaxN snapshots - including    *)
(* cycles, self loops, dangling links (id n+1 names no snapshot) and roots *)
(* (parent 0) - and ALL kept subsets.                                      *)
(*                                                                         *)
(* One TLC state per parent function; the invariant quantifies over the    *)
(* 2^n kept subsets.  The complete table is exported for the differential  *)
(* against the real repoint_parents_to_surviving_ancestors.                *)
(***************************************************************************)
EXTENDS Metadata, TLC, Json, IOUtils, SequencesExt, FiniteSetsExt

CONSTANTS MaxN,       \* largest forest
          Variant     \* "code": the transcription; "grandparent": a deliberately wrong repointing
                      \* (anti-vacuity companion: RepointCorrect must FAIL)

VARIABLE c            \* [n, par]

Cases == UNION {{[n |-> n, par |-> p] : p \in [1..n -> 0..(n + 1)]} : n \in 1..MaxN}

Snaps(x) == [i \in 1..x.n |-> [id |-> i, parent |-> x.par[i], seq |-> i, ts |-> i, list |-> i]]
KeptSeq(x, K) == SelectSeq(Snaps(x), LAMBDA s : s.id \in K)

\* kept subsets are numbered by bit mask (bit i-1 set <=> snapshot i kept)
Pow2(k) == IF k = 0 THEN 1 ELSE IF k = 1 THEN 2 ELSE IF k = 2 THEN 4 ELSE IF k = 3 THEN 8
           ELSE IF k = 4 THEN 16 ELSE IF k = 5 THEN 32 ELSE 64
KeptOfMask(n, mask) == {i \in 1..n : (mask \div Pow2(i - 1)) % 2 = 1}

\* a wrong repointing: a survivor whose parent was removed jumps to the grand-parent unconditionally
RepointGrand(allSnaps, keptSnaps) ==
  LET keptIds == SnapIds(keptSnaps) IN
  [i \in 1..Len(keptSnaps) |->
     [keptSnaps[i] EXCEPT !.parent =
         IF @ = NoSnap \/ @ \in keptIds THEN @ ELSE ParentOf(allSnaps, @)]]

RepointUnderTest(a, k) == IF Variant = "code" THEN Repoint(a, k) ELSE RepointGrand(a, k)

(* ---------------- reference, independent of the transcription ---------------- *)
\* everything reachable from s by following parent links at least once
RECURSIVE Reach(_, _, _)
Reach(all, frontier, acc) ==
  LET next == ({ParentOf(all, p) : p \in frontier} \ {NoSnap}) \ acc
  IN IF next = {} THEN acc ELSE Reach(all, next, acc \cup next)
Ancestors(all, firstParent) ==
  IF firstParent = NoSnap THEN {} ELSE Reach(all, {firstParent}, {firstParent})

RepointCorrectFor(x, K) ==
  LET all == Snaps(x)
      kept == KeptSeq(x, K)
      out == RepointUnderTest(all, kept)
  IN /\ Len(out) = Len(kept)
     /\ \A i \in 1..Len(kept) :
          LET s == kept[i]
              p == out[i].parent
              anc == Ancestors(all, s.parent)
          IN \* nothing but the parent link changes
             /\ out[i] = [s EXCEPT !.parent = p]
             \* a retained TRUE ancestor, or nothing - and nothing only when no kept ancestor exists
             /\ (p # NoSnap => p \in K /\ p \in anc)
             /\ (p = NoSnap => K \cap anc = {})
             \* the NEAREST one
             /\ p = NearestKept(all, K, s.parent)

RepointCorrect == \A K \in SUBSET (1..c.n) : RepointCorrectFor(c, K)

Init == c \in Cases
Next == UNCHANGED c
Spec == Init /\ [][Next]_c

(* ---------------- export: one record per parent function ---------------- *)
Parents(sq) == [i \in 1..Len(sq) |-> sq[i].parent]
Out(x) ==
  [n |-> x.n, par |-> x.par,
   \* element mask+1 = new parents of the kept snapshots (ascending id) for kept subset `mask`
   ref   |-> [m \in 1..Pow2(x.n) |->
                LET K == KeptOfMask(x.n, m - 1) IN
                Parents([i \in 1..Len(KeptSeq(x, K)) |->
                          [KeptSeq(x, K)[i] EXCEPT !.parent = NearestKept(Snaps(x), K, @)]])],
   model |-> [m \in 1..Pow2(x.n) |->
                LET K == KeptOfMask(x.n, m - 1) IN Parents(Repoint(Snaps(x), KeptSeq(x, K)))]]

Export == TLCGet("distinct") >= 0 /\ ndJsonSerialize(IOEnv.VERIF_OUT, SetToSeq({Out(x) : x \in Cases}))
=============================================================================
