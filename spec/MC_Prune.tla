------------------------------ MODULE MC_Prune ------------------------------
(***************************************************************************)
(* Exhaustive small-domain check of the pruning theorem (C13) and export   *)
(* of the complete decision table for the differential against the real    *)
(* prune_files_by_bounds.                                                   *)
(*                                                                         *)
(* One state per case; the invariant PruneSound is evaluated on each.      *)
(* Cases1: one column, files of 1..MaxRows values (as multisets), every     *)
(*         operator with every literal / literal set.                      *)
(* Cases2: two columns (distinct field ids, one integer one float), files  *)
(*         of <= 2 rows, conjunctions over both columns incl. "between".   *)
(***************************************************************************)
EXTENDS Filter, SequencesExt, FiniteSetsExt, Json, IOUtils

CONSTANTS Guard,      \* TRUE: model the repaired != arm (no != pruning on float bounds)
          MaxRows

VARIABLE c

ValsOf(isFloat) == Points \cup {NULL} \cup (IF isFloat THEN {NAN} ELSE {})

\* files as multisets = non-decreasing sequences
SortedSeqs(S, n) == {s \in [1..n -> S] : \A i \in 1..(n-1) : s[i] <= s[i+1]}
Files1(isFloat) == UNION {SortedSeqs(ValsOf(isFloat), n) : n \in 1..MaxRows}

LitSets == {s \in SUBSET (Literals \cup {NULL}) : Cardinality(s) <= 2}

Exprs1 == {[col |-> "a", op |-> o, lit |-> l] : o \in CmpOps, l \in Literals}
     \cup {[col |-> "a", op |-> o, lit |-> s] : o \in SetOps, s \in LitSets}
     \cup {[col |-> "a", op |-> o, lit |-> 0] : o \in NullOps}
\* NaN as a literal / member of the value set (float columns only)
NanSets == {s \cup {NAN} : s \in {t \in SUBSET (Literals \cup {NULL}) : Cardinality(t) <= 1}}
Exprs1Nan == {[col |-> "a", op |-> o, lit |-> NAN] : o \in CmpOps}
        \cup {[col |-> "a", op |-> o, lit |-> s] : o \in SetOps, s \in NanSets}

Row1(v) == [a |-> v]
Cases1 == {[kind |-> 1, isFloat |-> fl, file |-> [i \in 1..Len(f) |-> Row1(f[i])], exprs |-> <<e>>] :
              fl \in BOOLEAN, f \in Files1(TRUE), e \in Exprs1}
     \cup {[kind |-> 1, isFloat |-> TRUE, file |-> [i \in 1..Len(f) |-> Row1(f[i])], exprs |-> <<e>>] :
              f \in Files1(TRUE), e \in Exprs1Nan}
\* (files containing NaN are only meaningful for the float column)
Cases1ok == {x \in Cases1 : x.isFloat \/ \A i \in 1..Len(x.file) : x.file[i].a # NAN}

\* ---- two columns: a (integer, field id 1) and b (float, field id 2) ----
ValsA == {0, 4, NULL}
ValsB == {2, 6, NULL, NAN}
Rows2 == {[a |-> x, b |-> y] : x \in ValsA, y \in ValsB}
Files2 == UNION {[1..n -> Rows2] : n \in 1..2}
ExprA == {[col |-> "a", op |-> o, lit |-> l] : o \in {"==", "<", ">="}, l \in {0, 3, 4}}
ExprB == {[col |-> "b", op |-> o, lit |-> l] : o \in {"!=", "<=", ">"}, l \in {2, 5, 6}}
Between == {<<[col |-> cc, op |-> ">=", lit |-> lo], [col |-> cc, op |-> "<=", lit |-> hi]>> :
              cc \in {"a", "b"}, lo \in {-1, 2, 4}, hi \in {0, 3, 6}}
Exprs2 == {<<ea, eb>> : ea \in ExprA, eb \in ExprB} \cup {<<eb, ea>> : ea \in ExprA, eb \in ExprB} \cup Between
Cases2 == {[kind |-> 2, isFloat |-> TRUE, file |-> f, exprs |-> e] : f \in Files2, e \in Exprs2}

Cases == Cases1ok \cup Cases2

FloatCols(x) == IF x.kind = 1 THEN (IF x.isFloat THEN {"a"} ELSE {}) ELSE {"b"}

Init == c \in Cases
Next == UNCHANGED c
Spec == Init /\ [][Next]_c

PruneSound == PruneSoundAt(c.file, c.exprs, FloatCols(c), Guard)

\* Bounds are looked up per column: an expression on one column is never judged by the
\* other column's bounds (BoundsKeyedByFieldId).  Checked as: dropping the rows' other column
\* does not change the decision for a single-column conjunction.
\* ---- export: one JSON record per case with the model's verdicts and the reference oracle ----
ExprOut(e) == [col |-> e.col, op |-> e.op,
               lit |-> IF e.op \in SetOps THEN SetToSortSeq(e.lit, <) ELSE <<e.lit>>]
Out(x) == [kind |-> x.kind, isFloat |-> x.isFloat, file |-> x.file,
           exprs |-> [i \in 1..Len(x.exprs) |-> ExprOut(x.exprs[i])],
           hasMatch |-> FileHasMatch(x.file, x.exprs),
           may |-> MayMatch(x.file, x.exprs, FloatCols(x), Guard),
           rows |-> {i \in 1..Len(x.file) : RowSat(x.file[i], x.exprs)}]

Export == ndJsonSerialize(IOEnv.VERIF_OUT, SetToSeq({Out(x) : x \in Cases}))
=============================================================================
