------------------------------- MODULE S3Lock -------------------------------
(***************************************************************************)
(* C19 (S3 part): the conditional-write commit lock of DataShard.          *)
(*                                                                         *)
(* Transcription of /repo/src/datashard/lock_provider.py                   *)
(*   S3LockProviderBase.acquire        l.101-120                           *)
(*   S3LockProviderBase.is_held        l.130-159                           *)
(*   S3LockProviderBase._heartbeat_loop l.182-193 (one Renew = one pass)   *)
(*   S3LockProviderBase.release        l.195-227                           *)
(*   S3LockProvider._try_acquire       l.244-262                           *)
(*   S3LockProvider._try_takeover_expired l.264-307                        *)
(*   S3LockProvider._renew_once        l.309-335                           *)
(* at the granularity "one S3 request / one clock read / one sleep = one   *)
(* action".  The lock object is [owner, ctr, lastMod]; its body is the     *)
(* pair <<owner, ctr>> and its ETAG IS A FUNCTION OF THE BODY (S3 / MinIO  *)
(* single-part ETag = MD5 of the content).                                 *)
(*                                                                         *)
(* Flags (the specification always models the code as it is; the flags     *)
(* name the two known defects and their repairs):                          *)
(*   EtagPerWrite  = FALSE  the body is the holder's constant lock_id, so  *)
(*                          a RENEWAL DOES NOT CHANGE THE ETAG   (as is)   *)
(*                 = TRUE   body "<lock_id>:<counter>": every write has a  *)
(*                          new ETag, ownership is decided by the prefix   *)
(*   AtomicRelease = FALSE  release = GET, compare, unconditional DELETE   *)
(*                          (two requests)                        (as is)  *)
(*                 = TRUE   the DELETE carries If-Match:<etag read>        *)
(*                                                                         *)
(* Reference semantics (independent of the transcription): the operators   *)
(* in section "Reference" look only at the ground truth (the lock object   *)
(* before and after a step, the clock) and at the interface event of the   *)
(* step (who, which API outcome).  A broken rule is remembered in `viol`.  *)
(***************************************************************************)
EXTENDS Integers, FiniteSets, TLC

CONSTANTS Clients,        \* set of strings
          Lease,          \* lease_seconds, in clock units
          Timeout,        \* acquire timeout, in clock units
          MaxNow,         \* the clock stops here (model checking bound)
          MaxRounds,      \* acquire calls per client (model checking bound)
          EtagPerWrite,
          AtomicRelease

VARIABLES obj,      \* the lock object: [owner, ctr, lastMod]; owner = "none": no object
          now,      \* the clock (time.time / datetime.now / S3 LastModified share it)
          pc,       \* client -> control point of the owner thread
          flag,     \* client -> self.is_locked
          hb,       \* client -> the heartbeat thread has been started and not stopped
          etagC,    \* client -> self._etag (ETag of our last write; NoEtag = None)
          seq,      \* client -> writes made so far (the counter of the repaired body)
          seen,     \* client -> [etag, mod] as returned by HEAD (takeover) / GET (release)
          start,    \* client -> start_time of the running acquire()
          rounds,   \* client -> acquire() calls made
          viol,     \* names of the reference rules broken so far (ghost)
          chk       \* client -> what its last deadline check (clock read in acquire) said since its last
                    \*           attempt step: "none" (no check yet), "ok" (before the deadline), "late" (ghost)

vars == <<obj, now, pc, flag, hb, etagC, seq, seen, start, rounds, viol, chk>>

NoObj   == [owner |-> "none", ctr |-> 0, lastMod |-> 0]
NoEtag  == <<"none", 0>>
Etag(o) == <<o.owner, o.ctr>>              \* a function of the body, nothing else
NoSeen  == [etag |-> NoEtag, mod |-> 0]

PCs == {"idle", "create", "head", "age", "put", "deadline", "sleep", "held",
        "h_get", "h_sleep", "h_get1", "r_get", "r_del"}

TypeOK ==
  /\ obj \in [owner : Clients \cup {"none"}, ctr : Nat, lastMod : Nat]
  /\ now \in Nat
  /\ pc \in [Clients -> PCs]
  /\ flag \in [Clients -> BOOLEAN]
  /\ hb \in [Clients -> BOOLEAN]
  /\ seq \in [Clients -> Nat]
  /\ start \in [Clients -> Nat]
  /\ rounds \in [Clients -> Nat]
  /\ viol \subseteq STRING
  /\ chk \in [Clients -> {"none", "ok", "late"}]

(***************************************************************************)
(* Reference: what C19 demands, stated on ground truth + interface events. *)
(***************************************************************************)
Owner(o) == o.owner
Live(o)  == o.owner # "none" /\ now - o.lastMod <= Lease      \* held and the lease has not lapsed

If(cond, name) == IF cond THEN {name} ELSE {}

\* interface events that belong to an acquisition attempt (requests, the age computation, the sleep)
AcquireSteps == {"acquire_call", "put_412", "head", "age", "acquire_ok", "sleep"}

\* c = the client taking the step, ev = its interface event, res = its boolean result
Broken(c, ev, res) ==
  \* the owner changes from a to b only by a takeover of a LAPSED lease
        If(Owner(obj) # "none" /\ Owner(obj') \notin {"none", Owner(obj)} /\ ~(now - obj.lastMod > Lease),
           "TakeoverOnlyAfterLapse")
  \* only its owner removes a lock object
  \cup  If(Owner(obj) # "none" /\ Owner(obj') = "none" /\ c # Owner(obj),
           "ReleaseDeletesOnlyOwn")
  \* a holder within its lease is not superseded and its object is not removed by anyone else
  \cup  If(Live(obj) /\ Owner(obj') # Owner(obj) /\ c # Owner(obj),
           "HolderStable")
  \* is_held() = TRUE only for the owner (a superseded holder observes the loss)
  \cup  If(ev = "is_held" /\ res /\ Owner(obj) # c,
           "SupersededObserves")
  \* acquire() returns True only to the (new) owner, never while another holder is live
  \cup  If(ev = "acquire_ok" /\ (Owner(obj') # c \/ (Live(obj) /\ Owner(obj) # c)),
           "AcquireMeansOwner")
  \* after every failed attempt the acquirer reads the clock BEFORE it sleeps, and once a read says that the
  \* deadline has passed the only thing it still does is raise TimeoutError (no sleep, no further request)
  \cup  If((ev = "sleep" /\ chk[c] # "ok") \/ (ev \in AcquireSteps \cup {"deadline_ok", "deadline_late"} /\ chk[c] = "late")
            \/ (ev = "deadline_ok" /\ now - start[c] >= Timeout),
           "TimeoutHonoured")

NextChk(c, ev) ==
  CASE ev = "deadline_ok" -> "ok"
    [] ev = "deadline_late" -> "late"
    [] ev \in AcquireSteps \cup {"timeout"} -> "none"
    [] OTHER -> chk[c]

Obs(c, ev, res) == /\ viol' = viol \cup Broken(c, ev, res)
                   /\ chk' = [chk EXCEPT ![c] = NextChk(c, ev)]

\* state form of "no two clients for which is_held() would answer TRUE"
WouldBeHeld(c) == flag[c] /\ Owner(obj) = c
AtMostOneBeliever == Cardinality({c \in Clients : WouldBeHeld(c)}) <= 1

TakeoverOnlyAfterLapse == "TakeoverOnlyAfterLapse" \notin viol
ReleaseDeletesOnlyOwn  == "ReleaseDeletesOnlyOwn" \notin viol
HolderStable           == "HolderStable" \notin viol
SupersededObserves     == "SupersededObserves" \notin viol
AcquireMeansOwner      == "AcquireMeansOwner" \notin viol
TimeoutHonoured        == "TimeoutHonoured" \notin viol
LockSafety == viol = {} /\ AtMostOneBeliever

(***************************************************************************)
(* Transcription.                                                          *)
(***************************************************************************)
Init ==
  /\ obj = NoObj
  /\ now = 0
  /\ pc = [c \in Clients |-> "idle"]
  /\ flag = [c \in Clients |-> FALSE]
  /\ hb = [c \in Clients |-> FALSE]
  /\ etagC = [c \in Clients |-> NoEtag]
  /\ seq = [c \in Clients |-> 0]
  /\ seen = [c \in Clients |-> NoSeen]
  /\ start = [c \in Clients |-> 0]
  /\ rounds = [c \in Clients |-> 0]
  /\ viol = {}
  /\ chk = [c \in Clients |-> "none"]

Goto(c, p) == pc' = [pc EXCEPT ![c] = p]

\* the object a PUT by c stores now: Body = lock_id (as is) or "<lock_id>:<counter>" (repaired)
Written(c) == [owner |-> c, ctr |-> IF EtagPerWrite THEN seq[c] + 1 ELSE 0, lastMod |-> now]
Write(c) ==
  /\ obj' = Written(c)
  /\ seq' = [seq EXCEPT ![c] = IF EtagPerWrite THEN @ + 1 ELSE @]
  /\ etagC' = [etagC EXCEPT ![c] = Etag(Written(c))]          \* self._etag = resp.get('ETag')
\* a refused PUT: the repaired body's counter was consumed by the attempt all the same
Refused(c) == seq' = [seq EXCEPT ![c] = IF EtagPerWrite THEN @ + 1 ELSE @]

\* acquire() l.102: start_time = time.time()
StartAcquire(c) ==
  /\ pc[c] = "idle"
  /\ rounds[c] < MaxRounds
  /\ Goto(c, "create")
  /\ start' = [start EXCEPT ![c] = now]
  /\ rounds' = [rounds EXCEPT ![c] = @ + 1]
  /\ UNCHANGED <<obj, now, flag, hb, etagC, seq, seen>>
  /\ Obs(c, "acquire_call", FALSE)

\* _try_acquire l.248-256: PUT If-None-Match:* ; success => acquire l.106-108 (flag, heartbeat, return True)
TryCreate(c) ==
  /\ pc[c] = "create"
  /\ IF Owner(obj) = "none"
     THEN /\ Write(c)
          /\ flag' = [flag EXCEPT ![c] = TRUE]
          /\ hb' = [hb EXCEPT ![c] = TRUE]
          /\ Goto(c, "held")
          /\ UNCHANGED <<now, seen, start, rounds>>
          /\ Obs(c, "acquire_ok", TRUE)
     ELSE /\ Goto(c, "head")                                   \* 412 -> _try_takeover_expired
          /\ Refused(c)
          /\ UNCHANGED <<obj, now, flag, hb, etagC, seen, start, rounds>>
          /\ Obs(c, "put_412", FALSE)

\* _try_takeover_expired l.276-283: HEAD (404 => False)
HeadReq(c) ==
  /\ pc[c] = "head"
  /\ IF Owner(obj) = "none"
     THEN Goto(c, "deadline") /\ UNCHANGED seen
     ELSE Goto(c, "age") /\ seen' = [seen EXCEPT ![c] = [etag |-> Etag(obj), mod |-> obj.lastMod]]
  /\ UNCHANGED <<obj, now, flag, hb, etagC, seq, start, rounds>>
  /\ Obs(c, "head", FALSE)

\* l.284-286: age = now() - LastModified; age <= lease => False
AgeCheck(c) ==
  /\ pc[c] = "age"
  /\ Goto(c, IF now - seen[c].mod <= Lease THEN "deadline" ELSE "put")
  /\ UNCHANGED <<obj, now, flag, hb, etagC, seq, seen, start, rounds>>
  /\ Obs(c, "age", FALSE)

\* l.291-307: PUT If-Match:<etag seen>; 412/404 => False
TakeoverPut(c) ==
  /\ pc[c] = "put"
  /\ IF Owner(obj) # "none" /\ Etag(obj) = seen[c].etag
     THEN /\ Write(c)
          /\ flag' = [flag EXCEPT ![c] = TRUE]
          /\ hb' = [hb EXCEPT ![c] = TRUE]
          /\ Goto(c, "held")
          /\ UNCHANGED <<now, seen, start, rounds>>
          /\ Obs(c, "acquire_ok", TRUE)
     ELSE /\ Goto(c, "deadline")
          /\ Refused(c)
          /\ UNCHANGED <<obj, now, flag, hb, etagC, seen, start, rounds>>
          /\ Obs(c, "put_412", FALSE)

\* acquire l.114-115: time.time() - start_time >= timeout => TimeoutError
DeadlineCheck(c) ==
  /\ pc[c] = "deadline"
  /\ UNCHANGED <<obj, now, flag, hb, etagC, seq, seen, start, rounds>>
  /\ IF now - start[c] >= Timeout
     THEN Goto(c, "idle") /\ Obs(c, "timeout", FALSE)
     ELSE Goto(c, "sleep") /\ Obs(c, "deadline_ok", FALSE)

\* acquire l.120: time.sleep(...) (the clock advances by Tick)
Sleep(c) ==
  /\ pc[c] = "sleep"
  /\ Goto(c, "create")
  /\ UNCHANGED <<obj, now, flag, hb, etagC, seq, seen, start, rounds>>
  /\ Obs(c, "sleep", FALSE)

\* is_held l.139-140
IsHeldStart(c) ==
  /\ pc[c] = "held"
  /\ UNCHANGED <<obj, now, flag, hb, etagC, seq, seen, start, rounds>>
  /\ IF flag[c] THEN Goto(c, "h_get") /\ Obs(c, "is_held_call", FALSE)
               ELSE UNCHANGED pc /\ Obs(c, "is_held", FALSE)

\* is_held l.143-156: GET, compare; NoSuchKey is retried once after a sleep, then False
IsHeldGet(c) ==
  /\ pc[c] \in {"h_get", "h_get1"}
  /\ UNCHANGED <<obj, now, hb, etagC, seq, seen, start, rounds>>
  /\ IF Owner(obj) = "none"
     THEN /\ UNCHANGED flag
          /\ IF pc[c] = "h_get" THEN Goto(c, "h_sleep") /\ Obs(c, "get_404", FALSE)
                                ELSE Goto(c, "held") /\ Obs(c, "is_held", FALSE)
     ELSE IF Owner(obj) # c
     THEN flag' = [flag EXCEPT ![c] = FALSE] /\ Goto(c, "held") /\ Obs(c, "is_held", FALSE)
     ELSE UNCHANGED flag /\ Goto(c, "held") /\ Obs(c, "is_held", TRUE)

IsHeldSleep(c) ==
  /\ pc[c] = "h_sleep"
  /\ Goto(c, "h_get1")
  /\ UNCHANGED <<obj, now, flag, hb, etagC, seq, seen, start, rounds>>
  /\ Obs(c, "h_sleep", FALSE)

\* release l.196-200: not locked => return; stop the heartbeat first
ReleaseStart(c) ==
  /\ pc[c] = "held"
  /\ UNCHANGED <<obj, now, flag, etagC, seq, seen, start, rounds>>
  /\ IF flag[c] THEN hb' = [hb EXCEPT ![c] = FALSE] /\ Goto(c, "r_get") /\ Obs(c, "release_call", FALSE)
               ELSE UNCHANGED hb /\ Goto(c, "idle") /\ Obs(c, "release_done", FALSE)

Cleared(c) == flag' = [flag EXCEPT ![c] = FALSE] /\ etagC' = [etagC EXCEPT ![c] = NoEtag]      \* l.224-227

\* release l.206-212: GET, compare
ReleaseGet(c) ==
  /\ pc[c] = "r_get"
  /\ UNCHANGED <<obj, now, hb, seq, start, rounds>>
  /\ IF Owner(obj) = c
     THEN /\ seen' = [seen EXCEPT ![c] = [etag |-> Etag(obj), mod |-> obj.lastMod]]
          /\ Goto(c, "r_del") /\ UNCHANGED <<flag, etagC>> /\ Obs(c, "release_get", TRUE)
     ELSE /\ Cleared(c) /\ Goto(c, "idle") /\ UNCHANGED seen /\ Obs(c, "release_done", FALSE)

\* release l.210: DELETE (as is: unconditional; repaired: If-Match:<etag read>)
ReleaseDelete(c) ==
  /\ pc[c] = "r_del"
  /\ obj' = IF AtomicRelease /\ ~(Owner(obj) # "none" /\ Etag(obj) = seen[c].etag) THEN obj ELSE NoObj
  /\ Cleared(c)
  /\ Goto(c, "idle")
  /\ UNCHANGED <<now, hb, seq, seen, start, rounds>>
  /\ Obs(c, "release_done", TRUE)

\* one pass of the heartbeat thread (l.187-191 + _renew_once): a separate actor per client
Renew(c) ==
  /\ hb[c] /\ flag[c]
  /\ etagC[c] # NoEtag
  /\ UNCHANGED <<now, pc, hb, seen, start, rounds>>
  /\ IF Owner(obj) # "none" /\ Etag(obj) = etagC[c]
     THEN Write(c) /\ UNCHANGED flag /\ Obs(c, "renew", TRUE)
     ELSE flag' = [flag EXCEPT ![c] = FALSE] /\ Refused(c) /\ UNCHANGED <<obj, etagC>> /\ Obs(c, "renew", FALSE)   \* "Lost S3 lock"

Tick ==
  /\ now < MaxNow
  /\ now' = now + 1
  /\ UNCHANGED <<obj, pc, flag, hb, etagC, seq, seen, start, rounds, viol, chk>>

ClientStep(c) ==
  \/ StartAcquire(c) \/ TryCreate(c) \/ HeadReq(c) \/ AgeCheck(c) \/ TakeoverPut(c) \/ DeadlineCheck(c) \/ Sleep(c)
  \/ IsHeldStart(c) \/ IsHeldGet(c) \/ IsHeldSleep(c) \/ ReleaseStart(c) \/ ReleaseGet(c) \/ ReleaseDelete(c)
  \/ Renew(c)

Next == Tick \/ \E c \in Clients : ClientStep(c)

Spec == Init /\ [][Next]_vars
=============================================================================
