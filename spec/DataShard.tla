------------------------------ MODULE DataShard ------------------------------
(***************************************************************************)
(* L1: the DataShard table protocol at storage-operation granularity.      *)
(*                                                                         *)
(* One action per storage operation on mutable or listable state, per      *)
(* lock request, per stored clock read (DESIGN.md App. A).  The same       *)
(* actions are re-used by Trace_L1.tla, where the fresh identifiers and    *)
(* observed values come from events recorded while the real library runs   *)
(* under the deterministic scheduler; here (model checking) identifiers    *)
(* are derived from (actor, operation index, attempt).                     *)
(*                                                                         *)
(* Source ranges: transaction.py:346-448 (commit), :450-579               *)
(* (_commit_file_ops), :581-601 (expire mutator), :603-665 (finish /       *)
(* rollback); metadata_manager.py:136-243 (commit), :285-320 (commit       *)
(* point), :548-633 (pointer resolution); snapshot_manager.py:21-47,       *)
(* :104-152, :258-317; garbage_collector.py:54-270.                        *)
(***************************************************************************)
EXTENDS Integers, Sequences, FiniteSets, TLC

CONSTANTS
  Actors,        \* set of actor ids
  Role,          \* [Actors -> {"committer","reader","creator","collector"}]
  Idx,           \* [Actors -> 1..9] distinct (identifier generation when model checking)
  Handle,        \* [Actors -> handle id]; actors with one handle share its thread lock
  Prog,          \* [Actors -> Seq(operation record)]
  Backend,       \* "local" | "s3cas" | "s3plain"
  LockKind,      \* "excl" (flock / healthy lock) | "none" (a lock that grants everyone) | "lease" (the S3 lock:
                 \* it can be taken over once its lease lapsed, while the old holder is paused and still believes it holds it)
  Lease,         \* lease length (logical ms) for LockKind = "lease"
  ClockMode,     \* "strict" (every read is later than every earlier read) | "coarse" | "frozen"
  MaxClock,      \* bound on the logical clock when model checking
  MaxAttempts,   \* OCC attempts per commit when model checking (the code: 50)
  InitSnaps,     \* number of snapshots the initial table has (each holding one data file)
  InitTable,     \* "healthy" | "absent" (nothing on storage) | "hintlost" (pointer file missing) |
                 \* "hintgarbage" (pointer file holds bytes that do not parse)
  FixMetaInTry,  \* TRUE: model the repaired commit(): the metadata write itself is covered by the clean-failure handler
  FixOrphanMeta, \* TRUE: model the repaired commit(): a metadata file written by a commit that failed cleanly is removed
  FixStamp,      \* TRUE: model the repaired OCC stamp (last_updated_ms strictly increases per commit)
  FixEtag,       \* TRUE: model the repaired CAS read (pointer must still name the validated version)
  FixGCOrder,    \* TRUE: model the repaired collector (markers loaded before the metadata read)
  FixGCFail,     \* TRUE: repaired failure handling: an unlistable marker directory aborts, an unreadable
                 \* marker protects its name in both directories, both directories are listed (and every
                 \* listed path classified) before the first delete
  FixInterrupt,  \* TRUE: model the repaired commit(): an interrupted commit keeps its files (outcome unknown)
  FaultKinds,    \* subset of {"before", "after", "async"} injected when model checking
  DamageKinds,   \* subset of {"missing","garbage","dangling","stale"}: pointer damage injected (when nothing is in flight) when model checking
  CrashOK,       \* TRUE: a committer may die at any step (uses the fault budget)
  FaultBudget,   \* number of injected storage faults when model checking
  Grace,         \* collector grace period used when an operation does not name one (logical ms)
  OldFiles,      \* TRUE: data files written by transactions are already older than any grace period
  PreFiles,      \* data files the user built beforehand: present, old, unreferenced; appended by Table.append_data(files)
                 \* (pre-built files, long-running transactions): only markers can protect them
  MarkerTimeout  \* age after which an in-flight marker counts as abandoned (the code: 24 h)

NoName == [v |-> -1, u |-> 0]
OldTime == -100000000
NoCutoff == -1
UUID0 == 1

MaxI(a, b) == IF a >= b THEN a ELSE b
SeqToSet(s) == {s[i] : i \in 1..Len(s)}
LastOf(s) == s[Len(s)]

(***************************************************************************)
(* Pure metadata operators (transcriptions).                               *)
(***************************************************************************)
RECURSIVE Walk(_, _, _, _)
\* snapshot_manager.py:35-47: nearest surviving ancestor, cycle guard, dangling -> none (0)
Walk(p, parentOf, keptIds, seen) ==
  IF p = 0 \/ p \in keptIds THEN p
  ELSE IF p \in seen THEN 0
  ELSE IF p \notin DOMAIN parentOf THEN 0
  ELSE Walk(parentOf[p], parentOf, keptIds, seen \cup {p})

Repoint(all, kept) ==
  LET parentOf == [i \in {all[j].id : j \in 1..Len(all)} |->
                     (CHOOSE s \in SeqToSet(all) : s.id = i).parent]
      keptIds == {kept[j].id : j \in 1..Len(kept)}
  IN [j \in 1..Len(kept) |-> [kept[j] EXCEPT !.parent = Walk(kept[j].parent, parentOf, keptIds, {})]]

\* transaction.py:585-599
Expire(m, cutoff) ==
  LET kept == SelectSeq(m.snaps, LAMBDA s : s.ts >= cutoff \/ s.id = m.cur)
      keptIds == {kept[j].id : j \in 1..Len(kept)}
  IN [m EXCEPT !.snaps = Repoint(m.snaps, kept),
               !.slog = SelectSeq(m.slog, LAMBDA i : i \in keptIds)]

\* snapshot_manager.py:104-152 (retention is covered by History.tla)
NewSnapshot(base, sid, seq, ts, list, cutoff) ==
  LET s == [id |-> sid, parent |-> base.cur, seq |-> seq, ts |-> ts, list |-> list]
      m1 == [base EXCEPT !.snaps = Append(@, s), !.cur = sid,
                         !.lastSeq = MaxI(base.lastSeq, seq), !.slog = Append(@, sid)]
  IN IF cutoff = NoCutoff THEN m1 ELSE Expire(m1, cutoff)

\* snapshot_manager.py:303-317
MostRecent(m) ==
  LET ids == {m.snaps[j].id : j \in 1..Len(m.snaps)}
      inLog == {i \in 1..Len(m.slog) : m.slog[i] \in ids}
  IN IF ids = {} THEN 0
     ELSE IF inLog # {} THEN m.slog[CHOOSE i \in inLog : \A k \in inLog : k <= i]
     ELSE (CHOOSE s \in SeqToSet(m.snaps) : \A t \in SeqToSet(m.snaps) : t.ts <= s.ts).id

\* snapshot_manager.py:266-299
DeleteSnap(base, sid) ==
  LET kept == SelectSeq(base.snaps, LAMBDA s : s.id # sid)
      m1 == [base EXCEPT !.snaps = Repoint(base.snaps, kept),
                         !.slog = SelectSeq(base.slog, LAMBDA i : i # sid)]
  IN IF base.cur = sid THEN [m1 EXCEPT !.cur = MostRecent(m1)] ELSE m1

\* metadata_manager.py:248-283 (trim bound is covered by History.tla)
AppendMlog(new, prevName) ==
  IF prevName = NoName THEN new
  ELSE IF Len(new.mlog) > 0 /\ LastOf(new.mlog) = prevName THEN new
  ELSE [new EXCEPT !.mlog = Append(@, prevName)]

SnapOf(m, sid) == CHOOSE s \in SeqToSet(m.snaps) : s.id = sid
HasSnap(m, sid) == \E s \in SeqToSet(m.snaps) : s.id = sid

(***************************************************************************)
(* State.                                                                  *)
(***************************************************************************)
VARIABLES
  hint,       \* [cls, name]: cls \in {"name","missing","garbage"}; the only mutable object
  metas,      \* name -> body            (write-once, never deleted by the library)
  metaTime,   \* name -> logical write time (recovery tie-break)
  lists,      \* list id -> sequence of manifest ids        (content, write-once)
  mans,       \* manifest id -> set of [file, status, snap, seq]
  present,    \* set of list / manifest / data file ids that exist now
  ftime,      \* file id -> logical write time
  markers,    \* set of file ids that currently have an in-flight marker
  mtimeM,     \* file id -> write time of its marker
  clock,
  lockHolder, \* actor holding the distributed lock, or "none"
  rlock,      \* handle -> actor holding that handle's thread lock, or "none"
  pc, opi, att, loc,
  faults,     \* remaining fault budget
  lease,      \* lease bookkeeping of the distributed lock: [t |-> time of the last acquisition / renewal,
              \*   lost |-> actors whose lock was taken over before they passed the fence of their attempt]
  \* ---- ghost / history (not part of the implementation state) ----
  commitLog,  \* sequence of [a, i, name, op]  in pointer order
  serial,     \* reference table state: what the acknowledged history means
  tsOf,       \* snapshot id -> [ts, files] (ghost: timestamp and file set at its commit)
  sidOfOp,    \* <<actor, opIndex>> -> snapshot id committed by that operation
  outcomes,   \* actor -> sequence of "ok" | "cme" | "error" | "ambiguous" | "false"
  reads,      \* reader observations: sequence of [a, from, to, files]
  deleted,    \* set of [f, by, i, at]: every file deletion that happened
  initBody,   \* the metadata version that was current initially (ghost, never changes)
  joined,     \* identities (table uuids) the callers of create/open ended up on (ghost)
  scanning    \* actors whose pointer resolution in progress found the pointer unusable and will scan the directory

storageVars == <<hint, metas, metaTime, lists, mans, present, ftime, markers, mtimeM>>
actorVars   == <<pc, opi, att, loc>>
ghostVars   == <<commitLog, serial, tsOf, sidOfOp, outcomes, reads, deleted, initBody, joined>>
vars == <<storageVars, clock, lockHolder, rlock, actorVars, faults, lease, ghostVars, scanning>>

Committers == {a \in Actors : Role[a] = "committer"}
Readers    == {a \in Actors : Role[a] = "reader"}
Collectors == {a \in Actors : Role[a] = "collector"}

CurOp(a) == Prog[a][opi[a]]

(***************************************************************************)
(* Pointer resolution (metadata_manager.py:569-633).                       *)
(***************************************************************************)
HintedName == IF hint.cls = "name" /\ hint.name \in DOMAIN metas THEN hint.name ELSE NoName

\* recovery by scanning: highest version, newest write time among equals (equal times: listing order)
IsBest(n) == \A k \in DOMAIN metas : k.v < n.v \/ (k.v = n.v /\ metaTime[k] <= metaTime[n])
BestSet == {n \in DOMAIN metas : IsBest(n)}

\* the relation "a resolution started now may return `name`"
CanResolve(name) ==
  IF HintedName # NoName THEN name = HintedName
  ELSE IF BestSet = {} THEN name = NoName ELSE name \in BestSet

\* _current_version_info is NOT atomic: it reads the pointer and, when that is unusable, lists the directory LATER.
\* SeeHintUnusable is the first step; the resolving action that follows then takes what the scan finds at that time,
\* whatever the pointer has become meanwhile - including the metadata file of a commit that has not flipped it yet.
CanResolveScan(name) == IF BestSet = {} THEN name = NoName ELSE name \in BestSet
Resolves(a, name) == IF a \in scanning THEN CanResolveScan(name) ELSE CanResolve(name)

\* refresh() takes the handle's thread lock: it waits while another actor of the same handle commits
HandleFree(a) == rlock[Handle[a]] \in {"none", a}

\* a deterministic representative, for state predicates
ResolveName == IF HintedName # NoName THEN HintedName
               ELSE IF BestSet = {} THEN NoName ELSE CHOOSE n \in BestSet : TRUE

NoBody == [uuid |-> 0, cur |-> 0, lastUpd |-> 0, lastSeq |-> 0, snaps |-> <<>>, slog |-> <<>>, mlog |-> <<>>]
ResolvedBody == IF ResolveName = NoName THEN NoBody ELSE metas[ResolveName]

\* files of a snapshot as seen through list -> manifests (requires presence; see FilesOfSnap)
FilesOfList(l) == UNION {{e.file : e \in mans[lists[l][j]]} : j \in 1..Len(lists[l])}

(***************************************************************************)
(* Initial table: InitSnaps committed appends of data files 901, 902, ...   *)
(***************************************************************************)
EmptyLoc == [files |-> <<>>, marks |-> {}, base |-> <<>>, baseName |-> NoName, sid |-> 0, seq |-> 0,
             todo |-> <<>>, finalMans |-> <<>>, newFiles |-> {}, list |-> 0, draft |-> <<>>, ts |-> 0,
             valName |-> NoName, prevName |-> NoName, nextVer |-> 0, etagName |-> NoName, target |-> 0,
             err |-> "none", after |-> "none", pend |-> 0, chk |-> 0, from |-> 0, body |-> <<>>, got |-> {}, rfiles |-> {},
             reach |-> {}, prot |-> {}, cand |-> {}, cutoff |-> 0, mseen |-> {}, esc |-> FALSE, etagRead |-> FALSE]

InitBody(k) ==
  [uuid |-> UUID0, cur |-> IF k = 0 THEN 0 ELSE 900 + k, lastUpd |-> k, lastSeq |-> k,
   snaps |-> [j \in 1..k |-> [id |-> 900 + j, parent |-> IF j = 1 THEN 0 ELSE 900 + j - 1, seq |-> j, ts |-> j, list |-> 920 + j]],
   slog |-> [j \in 1..k |-> 900 + j],
   mlog |-> [j \in 1..k |-> [v |-> j - 1, u |-> 900 + j - 1]]]
InitName(k) == [v |-> k, u |-> 900 + k]

InitNames == IF InitTable = "absent" THEN {} ELSE {InitName(k) : k \in 0..InitSnaps}

Init ==
  /\ hint = (IF InitTable = "healthy" THEN [cls |-> "name", name |-> InitName(InitSnaps)]
             ELSE IF InitTable = "hintgarbage" THEN [cls |-> "garbage", name |-> NoName]
             ELSE [cls |-> "missing", name |-> NoName])
  /\ metas = [n \in InitNames |-> InitBody(n.v)]
  /\ metaTime = [n \in InitNames |-> n.v]
  /\ LET K == IF InitTable = "absent" THEN 0 ELSE InitSnaps IN
     /\ lists = [l \in {920 + j : j \in 1..K} |-> [i \in 1..(l - 920) |-> 940 + i]]
     /\ mans = [m \in {940 + j : j \in 1..K} |-> {[file |-> 960 + (m - 940), status |-> "ADDED", snap |-> 900 + (m - 940), seq |-> m - 940]}]
     /\ present = {920 + j : j \in 1..K} \cup {940 + j : j \in 1..K} \cup {960 + j : j \in 1..K} \cup PreFiles
     /\ ftime = [f \in ({920 + j : j \in 1..K} \cup {940 + j : j \in 1..K} \cup {960 + j : j \in 1..K} \cup PreFiles) |-> OldTime]
  /\ markers = {}
  /\ mtimeM = <<>>
  /\ clock = InitSnaps
  /\ lockHolder = "none"
  /\ rlock = [h \in {Handle[a] : a \in Actors} |-> "none"]
  /\ pc = [a \in Actors |-> "idle"]
  /\ opi = [a \in Actors |-> 1]
  /\ att = [a \in Actors |-> 0]
  /\ loc = [a \in Actors |-> EmptyLoc]
  /\ faults = FaultBudget
  /\ lease = [t |-> 0, lost |-> {}]
  /\ commitLog = <<>>
  /\ serial = (IF InitTable = "absent" THEN [files |-> {}, snaps |-> <<>>, cur |-> 0]
               ELSE [files |-> {960 + j : j \in 1..InitSnaps}, snaps |-> [j \in 1..InitSnaps |-> 900 + j],
                     cur |-> IF InitSnaps = 0 THEN 0 ELSE 900 + InitSnaps])
  /\ tsOf = (IF InitTable = "absent" THEN <<>>
             ELSE [s \in {900 + j : j \in 1..InitSnaps} |-> [ts |-> s - 900, files |-> {960 + i : i \in 1..(s - 900)}]])
  /\ sidOfOp = <<>>
  /\ outcomes = [a \in Actors |-> <<>>]
  /\ reads = <<>>
  /\ deleted = {}
  /\ initBody = (IF InitTable = "absent" THEN NoBody ELSE InitBody(InitSnaps))
  /\ joined = {}
  /\ scanning = {}

(***************************************************************************)
(* Clock.  Now(a) is the value a clock read returns; ClockAfterRead the     *)
(* clock after it.  "strict": an ideal clock, every read returns a later    *)
(* value.  "coarse": reads return the current value; Tick is a separate     *)
(* step.  "frozen": never advances.                                        *)
(***************************************************************************)
NowVal == IF ClockMode = "strict" THEN clock + 1 ELSE clock
\* a stored clock read may return t (other, unstored reads may have advanced an ideal clock further)
ClockOK(t) == IF ClockMode = "strict" THEN t > clock ELSE t = clock

Tick ==
  /\ ClockMode = "coarse"
  /\ clock < MaxClock
  /\ clock' = clock + 1
  /\ UNCHANGED <<storageVars, lockHolder, rlock, actorVars, faults, lease, ghostVars, scanning>>

(***************************************************************************)
(* The pointer file is damaged from outside (C10): lost, overwritten with   *)
(* bytes that do not parse, replaced by a well-formed name of an older      *)
(* committed version (stale) or of a file that does not exist (dangling;    *)
(* the legacy bare-number form of a version also lands here because current *)
(* metadata files carry a random suffix).                                   *)
(***************************************************************************)
DamageHint(cls, name) ==
  /\ cls \in {"missing", "garbage", "name"}
  /\ cls # "name" => name = NoName
  /\ hint' = [cls |-> cls, name |-> name]
  /\ UNCHANGED <<metas, metaTime, lists, mans, present, ftime, markers, mtimeM, clock, lockHolder, rlock, actorVars, faults, lease, ghostVars, scanning>>

DamageHintB(cls, name) ==
  /\ hint' = [cls |-> cls, name |-> name]
  /\ UNCHANGED <<metas, metaTime, lists, mans, present, ftime, markers, mtimeM, clock, lockHolder, rlock, actorVars, lease, ghostVars, scanning>>

(***************************************************************************)
(* Committer.                                                              *)
(* loc[a] fields: files (data files this transaction wrote so far),         *)
(* marks (markers it owns), base, baseName, sid, seq, keep (manifests kept  *)
(* from the base), rew (manifests to rewrite, with their surviving          *)
(* entries), newMans, list, draft, valName, prevName, nextVer, etagName.    *)
(***************************************************************************)
OpKind(a) == CurOp(a).t            \* "append" | "delete" | "expire" | "delsnap" | "multi"
Style(a) == IF "style" \in DOMAIN CurOp(a) THEN CurOp(a).style ELSE "ctx"
AppendFiles(a) == IF OpKind(a) \in {"append", "multi"} THEN CurOp(a).add ELSE <<>>   \* sequence of data file ids
DeleteFiles(a) == IF OpKind(a) \in {"delete", "multi"} THEN CurOp(a).del ELSE {}
Cutoff(a) == IF OpKind(a) \in {"expire", "multi"} THEN CurOp(a).cutoff ELSE NoCutoff
IsFileOp(a) == Len(AppendFiles(a)) > 0 \/ DeleteFiles(a) # {}

\* ---- transaction body: one marker + one data file per appended file ----
Begin(a) ==
  /\ pc[a] = "idle"
  /\ opi[a] <= Len(Prog[a])
  /\ Role[a] = "committer"
  \* delete_snapshot(id): the caller names the snapshot when it makes the call - a snapshot of another actor's operation
  \* can only be named once that operation's pointer flip happened (otherwise the id names nothing: sid 0)
  /\ loc' = [loc EXCEPT ![a] = IF OpKind(a) = "delsnap"
                                THEN [EmptyLoc EXCEPT !.sid = (IF CurOp(a).who \in DOMAIN sidOfOp THEN sidOfOp[CurOp(a).who]
                                                               ELSE IF CurOp(a).who[1] = "init" THEN 900 + CurOp(a).who[2] ELSE 0)]
                                ELSE EmptyLoc]
  /\ att' = [att EXCEPT ![a] = 0]
  /\ pc' = [pc EXCEPT ![a] = IF OpKind(a) = "delsnap" THEN "ds_resolve" ELSE IF OpKind(a) = "create" THEN "k_open" ELSE "tx_check"]
  /\ UNCHANGED <<storageVars, clock, lockHolder, rlock, opi, faults, lease, ghostVars, scanning>>

NextAppend(a) == AppendFiles(a)[Len(loc[a].files) + 1]

\* the file-level API: Transaction.append_files / Table.append_data(files) queue files that exist already
IsPre(a) == OpKind(a) = "append" /\ "pre" \in DOMAIN CurOp(a)

\* transaction.py:88-110: existence probe (+ footer read), then the file is queued.  NO in-flight marker is
\* written for it (named deviation: _register_inflight is only called by append_data(records)); a missing
\* file raises FileNotFoundError out of the with-block.
QueuePrebuilt(a, f) ==
  /\ pc[a] = "tx_check"
  /\ IsPre(a)
  /\ Len(loc[a].files) < Len(AppendFiles(a))
  /\ f = NextAppend(a)
  /\ IF f \in present
     THEN /\ loc' = [loc EXCEPT ![a].files = Append(@, f)]
          /\ UNCHANGED pc
     ELSE /\ loc' = [loc EXCEPT ![a].err = "error"]
          /\ pc' = [pc EXCEPT ![a] = IF Style(a) = "ctx" THEN "rollback" ELSE "raise_keep"]
  /\ UNCHANGED <<storageVars, clock, lockHolder, rlock, opi, att, faults, lease, ghostVars, scanning>>

WriteMarkerD(a, f) ==
  /\ pc[a] = "tx_check"
  /\ ~IsPre(a)
  /\ Len(loc[a].files) < Len(AppendFiles(a))
  /\ f = NextAppend(a)
  /\ markers' = markers \cup {f}
  /\ mtimeM' = (f :> clock) @@ mtimeM
  /\ loc' = [loc EXCEPT ![a].marks = @ \cup {f}]
  /\ pc' = [pc EXCEPT ![a] = "tx_data"]
  /\ UNCHANGED <<hint, metas, metaTime, lists, mans, present, ftime, clock, lockHolder, rlock, opi, att, faults, lease, ghostVars, scanning>>

WriteData(a, f, t) ==
  /\ pc[a] = "tx_data"
  /\ f = NextAppend(a)
  /\ f \notin present
  /\ present' = present \cup {f}
  /\ ftime' = (f :> t) @@ ftime
  /\ loc' = [loc EXCEPT ![a].files = Append(@, f)]
  /\ pc' = [pc EXCEPT ![a] = "tx_check"]
  /\ UNCHANGED <<hint, metas, metaTime, lists, mans, markers, mtimeM, clock, lockHolder, rlock, opi, att, faults, lease, ghostVars, scanning>>

\* Transaction.commit() is entered: from here on commit()'s own exception handlers apply
CommitStart(a) ==
  /\ pc[a] = "tx_check"
  /\ Len(loc[a].files) = Len(AppendFiles(a))
  /\ pc' = [pc EXCEPT ![a] = "c_base"]
  /\ UNCHANGED <<storageVars, clock, lockHolder, rlock, opi, att, loc, faults, lease, ghostVars, scanning>>

\* no appended files => nothing to validate (no storage call happens): straight to the list
AfterBase(a) == IF Len(AppendFiles(a)) = 0 THEN "c_wlist_mark" ELSE "c_checkdata"

\* ---- commit attempt: read the base (transaction.py:379) ----
ReadBase(a, name) ==
  /\ pc[a] = "c_base"
  /\ HandleFree(a)
  /\ Resolves(a, name)
  /\ scanning' = scanning \ {a}
  /\ name # NoName
  /\ LET b == metas[name]
         dangling == IsFileOp(a) /\ b.cur # 0 /\ ~HasSnap(b, b.cur)    \* transaction.py:482-493: abort
     IN
     /\ loc' = [loc EXCEPT ![a].base = b, ![a].baseName = name, ![a].etagRead = FALSE,
                           ![a].finalMans = <<>>, ![a].newFiles = {}, ![a].list = 0, ![a].chk = 0, ![a].pend = 0,
                           ![a].todo = IF b.cur = 0 \/ ~HasSnap(b, b.cur) THEN <<>> ELSE lists[SnapOf(b, b.cur).list],
                           ![a].seq = b.lastSeq + 1,
                           ![a].err = IF dangling THEN "error" ELSE "none"]
     /\ pc' = [pc EXCEPT ![a] =
           IF ~IsFileOp(a) THEN "c_tlock"                   \* metadata-only transaction
           ELSE IF dangling THEN "rollback"
           ELSE IF b.cur # 0 THEN "c_readlist" ELSE AfterBase(a)]
  /\ att' = [att EXCEPT ![a] = @ + 1]
  /\ UNCHANGED <<storageVars, clock, lockHolder, rlock, opi, faults, lease, ghostVars>>

\* exists + read of the base manifest list (transaction.py:495-505): missing => abort
ReadBaseList(a) ==
  /\ pc[a] = "c_readlist"
  /\ LET l == SnapOf(loc[a].base, loc[a].base.cur).list IN
     IF l \in present
     THEN /\ pc' = [pc EXCEPT ![a] = IF DeleteFiles(a) # {} /\ Len(loc[a].todo) > 0 THEN "c_readman" ELSE AfterBase(a)]
          /\ loc' = [loc EXCEPT ![a].finalMans = IF DeleteFiles(a) # {} THEN <<>> ELSE loc[a].todo]
     ELSE /\ pc' = [pc EXCEPT ![a] = "rollback"]
          /\ loc' = [loc EXCEPT ![a].err = "error"]
  /\ UNCHANGED <<storageVars, clock, lockHolder, rlock, opi, att, faults, lease, ghostVars, scanning>>

\* deletes: read each base manifest; keep / rewrite / drop (transaction.py:507-545)
\* after a base manifest has been handled: next one, or on to the data check
AfterMan(a, n) == IF n = 1 THEN AfterBase(a) ELSE "c_readman"

ReadManifest(a) ==
  /\ pc[a] = "c_readman"
  /\ Len(loc[a].todo) > 0
  /\ LET m == Head(loc[a].todo)
         surv == {e \in mans[m] : e.file \notin DeleteFiles(a)}
     IN IF m \notin present
        THEN /\ pc' = [pc EXCEPT ![a] = "rollback"]
             /\ loc' = [loc EXCEPT ![a].err = "error"]
        ELSE IF surv = mans[m]                      \* untouched: keep the manifest
        THEN /\ loc' = [loc EXCEPT ![a].todo = Tail(@), ![a].finalMans = Append(@, m)]
             /\ pc' = [pc EXCEPT ![a] = AfterMan(a, Len(loc[a].todo))]
        ELSE IF surv = {}                           \* every file deleted: drop the manifest
        THEN /\ loc' = [loc EXCEPT ![a].todo = Tail(@)]
             /\ pc' = [pc EXCEPT ![a] = AfterMan(a, Len(loc[a].todo))]
        ELSE /\ pc' = [pc EXCEPT ![a] = "c_rew_mark"]   \* partial: rewrite
             /\ UNCHANGED loc
  /\ UNCHANGED <<storageVars, clock, lockHolder, rlock, opi, att, faults, lease, ghostVars, scanning>>

\* marker for a file of the commit in progress (manifest, rewritten manifest or list)
WriteMarkerM(a, f) ==
  /\ pc[a] \in {"c_rew_mark", "c_wman_mark", "c_wlist_mark"}
  /\ f \notin present
  /\ markers' = markers \cup {f}
  /\ mtimeM' = (f :> clock) @@ mtimeM
  /\ loc' = [loc EXCEPT ![a].marks = @ \cup {f}, ![a].pend = f]
  /\ pc' = [pc EXCEPT ![a] = CASE pc[a] = "c_rew_mark" -> "c_rew" [] pc[a] = "c_wman_mark" -> "c_wman" [] OTHER -> "c_wlist"]
  /\ UNCHANGED <<hint, metas, metaTime, lists, mans, present, ftime, clock, lockHolder, rlock, opi, att, faults, lease, ghostVars, scanning>>

\* the rewritten manifest: survivors as EXISTING with their original snapshot id / sequence number
RewriteManifest(a, newMan, t) ==
  /\ pc[a] = "c_rew"
  /\ newMan = loc[a].pend
  /\ newMan \notin DOMAIN mans
  /\ LET m == Head(loc[a].todo)
         surv == {e \in mans[m] : e.file \notin DeleteFiles(a)}
     IN /\ mans' = (newMan :> {[e EXCEPT !.status = "EXISTING"] : e \in surv}) @@ mans
        /\ present' = present \cup {newMan}
        /\ ftime' = (newMan :> t) @@ ftime
        /\ loc' = [loc EXCEPT ![a].todo = Tail(@), ![a].finalMans = Append(@, newMan), ![a].newFiles = @ \cup {newMan}]
        /\ pc' = [pc EXCEPT ![a] = AfterMan(a, Len(loc[a].todo))]
  /\ UNCHANGED <<hint, metas, metaTime, lists, markers, mtimeM, clock, lockHolder, rlock, opi, att, faults, lease, ghostVars, scanning>>

\* validate_data_files: every appended file must exist (transaction.py:551)
CheckData(a) ==
  /\ pc[a] = "c_checkdata"
  /\ loc[a].chk < Len(AppendFiles(a))
  /\ IF AppendFiles(a)[loc[a].chk + 1] \in present
     THEN /\ loc' = [loc EXCEPT ![a].chk = @ + 1]
          /\ pc' = [pc EXCEPT ![a] = IF loc[a].chk + 1 >= Len(AppendFiles(a)) THEN "c_wman_mark" ELSE "c_checkdata"]
     ELSE /\ pc' = [pc EXCEPT ![a] = "rollback"]
          /\ loc' = [loc EXCEPT ![a].err = "error"]
  /\ UNCHANGED <<storageVars, clock, lockHolder, rlock, opi, att, faults, lease, ghostVars, scanning>>

\* marker + manifest for the appended files (ADDED, this attempt's snapshot id and sequence number)
WriteManifest(a, newMan, sid, t) ==
  /\ pc[a] = "c_wman"
  /\ newMan = loc[a].pend
  /\ newMan \notin DOMAIN mans
  /\ loc[a].sid \in {0, sid}
  /\ mans' = (newMan :> {[file |-> AppendFiles(a)[i], status |-> "ADDED", snap |-> sid, seq |-> loc[a].seq] : i \in 1..Len(AppendFiles(a))}) @@ mans
  /\ present' = present \cup {newMan}
  /\ ftime' = (newMan :> t) @@ ftime
  /\ loc' = [loc EXCEPT ![a].finalMans = Append(@, newMan), ![a].newFiles = @ \cup {newMan}, ![a].sid = sid]
  /\ pc' = [pc EXCEPT ![a] = "c_wlist_mark"]
  /\ UNCHANGED <<hint, metas, metaTime, lists, markers, mtimeM, clock, lockHolder, rlock, opi, att, faults, lease, ghostVars, scanning>>

WriteList(a, newList, sid, t) ==
  /\ pc[a] = "c_wlist"
  /\ newList = loc[a].pend
  /\ newList \notin DOMAIN lists
  /\ loc[a].sid \in {0, sid}
  /\ lists' = (newList :> loc[a].finalMans) @@ lists
  /\ present' = present \cup {newList}
  /\ ftime' = (newList :> t) @@ ftime
  /\ loc' = [loc EXCEPT ![a].list = newList, ![a].newFiles = @ \cup {newList}, ![a].sid = sid]
  /\ pc' = [pc EXCEPT ![a] = "c_stamp"]
  /\ UNCHANGED <<hint, metas, metaTime, mans, markers, mtimeM, clock, lockHolder, rlock, opi, att, faults, lease, ghostVars, scanning>>

\* create_snapshot: timestamp read + the new metadata value (snapshot_manager.py:111-148)
StampSnapshot(a, ts) ==
  /\ pc[a] = "c_stamp"
  /\ ClockOK(ts)
  /\ clock' = ts
  /\ loc' = [loc EXCEPT ![a].ts = ts,
                        ![a].draft = NewSnapshot(loc[a].base, loc[a].sid, loc[a].seq, ts, loc[a].list, Cutoff(a))]
  /\ pc' = [pc EXCEPT ![a] = "c_tlock"]
  /\ UNCHANGED <<storageVars, lockHolder, rlock, opi, att, faults, lease, ghostVars, scanning>>

\* ---- MetadataManager.commit ----
TLock(a) ==
  /\ pc[a] = "c_tlock"
  /\ rlock[Handle[a]] = "none"
  /\ rlock' = [rlock EXCEPT ![Handle[a]] = a]
  /\ loc' = [loc EXCEPT ![a].draft =
        IF IsFileOp(a) \/ OpKind(a) = "delsnap" THEN loc[a].draft
        ELSE IF Cutoff(a) = NoCutoff THEN loc[a].base ELSE Expire(loc[a].base, Cutoff(a))]
  /\ pc' = [pc EXCEPT ![a] = "c_dlock"]
  /\ UNCHANGED <<storageVars, clock, lockHolder, opi, att, faults, lease, ghostVars, scanning>>

PreFencePcs == {"c_validate", "c_stampupd", "c_readver", "c_wmeta", "c_fence"}

DLock(a) ==
  /\ pc[a] = "c_dlock"
  /\ \/ LockKind = "none" /\ UNCHANGED <<lockHolder, lease>>
     \/ LockKind = "excl" /\ lockHolder = "none" /\ lockHolder' = a /\ UNCHANGED lease
     \/ /\ LockKind = "lease"
        /\ lockHolder = "none" \/ clock - lease.t > Lease          \* free, or the holder's lease lapsed: takeover
        /\ lockHolder' = a
        /\ lease' = [t |-> clock,
                     lost |-> (lease.lost \ {a}) \cup (IF lockHolder \notin {"none", a} /\ pc[lockHolder] \in PreFencePcs
                                                       THEN {lockHolder} ELSE {})]
  /\ pc' = [pc EXCEPT ![a] = "c_validate"]
  /\ UNCHANGED <<storageVars, clock, rlock, opi, att, loc, faults, ghostVars, scanning>>

\* the holder's heartbeat thread renews the lease (lock_provider.py:309-335)
Heartbeat(a) ==
  /\ LockKind = "lease"
  /\ lockHolder = a
  /\ lease.t # clock                       \* (a renewal within the same tick changes nothing)
  /\ lease' = [lease EXCEPT !.t = clock]
  /\ UNCHANGED <<storageVars, clock, lockHolder, rlock, actorVars, faults, ghostVars, scanning>>

\* the OCC check (metadata_manager.py:161-180): uuid, current snapshot id, last_updated_ms
Validate(a, name) ==
  /\ pc[a] = "c_validate"
  /\ HandleFree(a)
  /\ Resolves(a, name)
  /\ scanning' = scanning \ {a}
  /\ LET cur == IF name = NoName THEN <<>> ELSE metas[name]
         b == loc[a].base
         ok == name = NoName \/ (cur.uuid = b.uuid /\ cur.cur = b.cur /\ cur.lastUpd = b.lastUpd)
     IN /\ loc' = [loc EXCEPT ![a].valName = name, ![a].after = IF ok THEN "none" ELSE "cme"]
        /\ pc' = [pc EXCEPT ![a] = IF ok THEN "c_stampupd" ELSE "c_unlock"]
  /\ UNCHANGED <<storageVars, clock, lockHolder, rlock, opi, att, faults, lease, ghostVars>>

\* new_metadata.last_updated_ms = now()   (metadata_manager.py:183)
StampUpdate(a, t) ==
  /\ pc[a] = "c_stampupd"
  /\ ClockOK(t)
  /\ clock' = t
  /\ loc' = [loc EXCEPT ![a].draft.lastUpd = IF FixStamp THEN MaxI(t, loc[a].base.lastUpd + 1) ELSE t]
  /\ pc' = [pc EXCEPT ![a] = "c_readver"]
  /\ UNCHANGED <<storageVars, lockHolder, rlock, opi, att, faults, lease, ghostVars, scanning>>

\* first half of a pointer resolution that finds the pointer unusable (missing, unparseable, naming a missing file)
ResolvePcs == {"c_base", "c_validate", "c_readver", "ds_resolve", "k_open", "k_check"}
AtResolvePoint(a) == \/ pc[a] \in ResolvePcs
                     \/ (Role[a] = "reader" /\ pc[a] = "idle" /\ opi[a] <= Len(Prog[a]))
                     \/ (Role[a] = "collector" /\ pc[a] = (IF FixGCOrder THEN "g_begin" ELSE "idle") /\ opi[a] <= Len(Prog[a]))
SeeHintUnusable(a) ==
  /\ a \notin scanning
  /\ HintedName = NoName
  /\ Backend = "s3cas" /\ pc[a] = "c_readver" => loc[a].etagRead      \* (CAS: the ETag read comes first)
  /\ scanning' = scanning \cup {a}
  /\ UNCHANGED <<storageVars, clock, lockHolder, rlock, actorVars, faults, lease, ghostVars>>

\* CAS backends, metadata_manager.py:203: the pointer is read together with its ETag.  When it does not name an existing
\* version, the ETag read is all this step yields (the conditional write will be keyed to it: "absent" for a missing
\* pointer) and the version is looked up separately, later - by which time the pointer may have changed.
ReadEtag(a) ==
  /\ pc[a] = "c_readver"
  /\ Backend = "s3cas"
  /\ ~loc[a].etagRead
  /\ HintedName = NoName
  /\ loc' = [loc EXCEPT ![a].etagRead = TRUE, ![a].etagName = (IF hint.cls = "name" THEN hint.name ELSE NoName)]
  /\ UNCHANGED <<storageVars, clock, lockHolder, rlock, pc, opi, att, faults, lease, ghostVars, scanning>>

\* second read of the pointer: version number (+ ETag on CAS backends) (metadata_manager.py:187-204)
ReadVersion(a, name) ==
  /\ pc[a] = "c_readver"
  \* CAS backends read the pointer (with its ETag) themselves; a pointer naming a file that does not exist is not a
  \* version: neither its name nor its NUMBER is used, the version comes from the scan like everywhere else
  /\ Backend = "s3cas" /\ ~loc[a].etagRead => HintedName # NoName      \* (otherwise ReadEtag comes first)
  /\ IF Backend = "s3cas" /\ ~loc[a].etagRead THEN name = HintedName ELSE Resolves(a, name)
  /\ scanning' = scanning \ {a}
  /\ LET stale == FixEtag /\ Backend = "s3cas" /\ ~loc[a].etagRead /\ name # loc[a].valName IN
     /\ loc' = [loc EXCEPT ![a].prevName = name, ![a].nextVer = (IF name = NoName THEN 1 ELSE name.v + 1),
                           ![a].etagName = (IF loc[a].etagRead THEN loc[a].etagName ELSE IF hint.cls = "name" THEN hint.name ELSE NoName),
                           ![a].draft = AppendMlog(loc[a].draft, name),
                           ![a].after = IF stale THEN "cme" ELSE "none"]
     /\ pc' = [pc EXCEPT ![a] = IF stale THEN "c_unlock" ELSE "c_wmeta"]
  /\ UNCHANGED <<storageVars, clock, lockHolder, rlock, opi, att, faults, lease, ghostVars>>

WriteMeta(a, name) ==
  /\ pc[a] = "c_wmeta"
  /\ name.v = loc[a].nextVer
  /\ name \notin DOMAIN metas
  /\ metas' = (name :> loc[a].draft) @@ metas
  /\ metaTime' = (name :> clock) @@ metaTime
  /\ loc' = [loc EXCEPT ![a].target = name.u, ![a].nextVer = name.v]
  /\ pc' = [pc EXCEPT ![a] = "c_fence"]
  /\ UNCHANGED <<hint, lists, mans, present, ftime, markers, mtimeM, clock, lockHolder, rlock, opi, att, faults, lease, ghostVars, scanning>>

MyMetaName(a) == [v |-> loc[a].nextVer, u |-> loc[a].target]

\* a commit that wrote its metadata file and then failed CLEANLY (the pointer certainly did not move):
\* repaired code removes the file, so that recovery by scanning can never surface it
AfterCleanFail == IF FixOrphanMeta THEN "c_discard" ELSE "c_unlock"

\* object storage: the PUT of the metadata file landed, the client saw an error (second half of an after-effect
\* fault at the metadata write:  WriteMeta(a, n) \cdot AfterMetaWriteFail(a)).  As the code was, _write_metadata_file
\* ran outside the try block whose handler removes the file, so it stayed behind.
AfterMetaWriteFail(a) ==
  /\ Role[a] = "committer"
  /\ pc[a] = "c_fence"
  /\ Backend # "local"
  /\ faults > 0
  /\ faults' = faults - 1
  /\ pc' = [pc EXCEPT ![a] = IF FixMetaInTry THEN AfterCleanFail ELSE "c_unlock"]
  /\ loc' = [loc EXCEPT ![a].err = "error",
                        ![a].after = IF OpKind(a) # "delsnap" THEN "rollback" ELSE "raise_keep"]
  /\ UNCHANGED <<storageVars, clock, lockHolder, rlock, opi, att, lease, ghostVars, scanning>>

DiscardMeta(a) ==
  /\ pc[a] = "c_discard"
  /\ LET me == MyMetaName(a) IN
     /\ metas' = [n \in DOMAIN metas \ {me} |-> metas[n]]
     /\ metaTime' = [n \in DOMAIN metaTime \ {me} |-> metaTime[n]]
  /\ pc' = [pc EXCEPT ![a] = "c_unlock"]
  /\ UNCHANGED <<hint, lists, mans, present, ftime, markers, mtimeM, clock, lockHolder, rlock, opi, att, loc, faults, lease, ghostVars, scanning>>

\* (the removal is best effort: a failure to remove it is swallowed)
DiscardMetaFails(a) ==
  /\ pc[a] = "c_discard"
  /\ pc' = [pc EXCEPT ![a] = "c_unlock"]
  /\ UNCHANGED <<storageVars, clock, lockHolder, rlock, opi, att, loc, faults, lease, ghostVars, scanning>>

\* fencing: is_held() (metadata_manager.py:224)
Fence(a) ==
  /\ pc[a] = "c_fence"
  /\ LET held == LockKind = "none" \/ lockHolder = a IN
     /\ pc' = [pc EXCEPT ![a] = IF held THEN "c_flip" ELSE AfterCleanFail]
     /\ loc' = [loc EXCEPT ![a].after = IF held THEN "none" ELSE "cme"]
  /\ UNCHANGED <<storageVars, clock, lockHolder, rlock, opi, att, faults, lease, ghostVars, scanning>>

\* ---- reference semantics of an acknowledged operation, applied to the reference state ----
SerialApply(s, a, sid) ==
  LET k == OpKind(a) IN
  IF k \in {"append", "delete", "multi"} /\ IsFileOp(a) THEN
      LET s1 == [files |-> (s.files \cup SeqToSet(AppendFiles(a))) \ DeleteFiles(a),
                 snaps |-> Append(s.snaps, sid), cur |-> sid]
      IN IF Cutoff(a) = NoCutoff THEN s1
         ELSE [s1 EXCEPT !.snaps = SelectSeq(s1.snaps, LAMBDA i : (IF i = sid THEN TRUE ELSE tsOf[i].ts >= Cutoff(a)) \/ i = s1.cur)]
  ELSE IF k \in {"expire", "multi"} THEN
      [s EXCEPT !.snaps = SelectSeq(s.snaps, LAMBDA i : tsOf[i].ts >= Cutoff(a) \/ i = s.cur)]
  ELSE \* delsnap
      LET rest == SelectSeq(s.snaps, LAMBDA i : i # loc[a].sid) IN
      [s EXCEPT !.snaps = rest,
                !.cur = IF s.cur = loc[a].sid THEN (IF Len(rest) = 0 THEN 0 ELSE LastOf(rest)) ELSE s.cur,
                !.files = IF s.cur = loc[a].sid
                          THEN (IF Len(rest) = 0 THEN {} ELSE tsOf[LastOf(rest)].files)
                          ELSE s.files]

CasOK(a) == Backend # "s3cas" \/ (hint.cls = "name" /\ hint.name = loc[a].etagName)
                               \/ (hint.cls # "name" /\ loc[a].etagName = NoName)

\* the commit point (metadata_manager.py:285-320)
FlipHint(a) ==
  /\ pc[a] = "c_flip"
  /\ LET me == MyMetaName(a)
         casOK == Backend # "s3cas" \/ (hint.cls = "name" /\ hint.name = loc[a].etagName)
                                  \/ (hint.cls # "name" /\ loc[a].etagName = NoName)
     IN IF casOK
        THEN /\ hint' = [cls |-> "name", name |-> me]
             /\ commitLog' = Append(commitLog, [a |-> a, i |-> opi[a], name |-> me, op |-> OpKind(a), replaced |-> HintedName, validated |-> loc[a].valName, lost |-> a \in lease.lost])
             /\ serial' = SerialApply(serial, a, loc[a].sid)
             /\ tsOf' = IF IsFileOp(a)
                        THEN (loc[a].sid :> [ts |-> loc[a].ts, files |-> (serial.files \cup SeqToSet(AppendFiles(a))) \ DeleteFiles(a)]) @@ tsOf
                        ELSE tsOf
             /\ sidOfOp' = IF IsFileOp(a) THEN (<<a, opi[a]>> :> loc[a].sid) @@ sidOfOp ELSE sidOfOp
             /\ pc' = [pc EXCEPT ![a] = "c_unlock"]
             /\ loc' = [loc EXCEPT ![a].after = IF OpKind(a) = "delsnap" THEN "c_cleanup" ELSE "c_finish"]
        ELSE /\ pc' = [pc EXCEPT ![a] = AfterCleanFail]
             /\ loc' = [loc EXCEPT ![a].after = "cme"]
             /\ UNCHANGED <<hint, commitLog, serial, tsOf, sidOfOp>>
  /\ UNCHANGED <<metas, metaTime, lists, mans, present, ftime, markers, mtimeM, clock, lockHolder, rlock, opi, att, faults, lease, outcomes, reads, deleted, initBody, joined, scanning>>

\* release of the distributed lock, then of the handle's thread lock; where control goes afterwards
\* was decided by whoever entered the unlock path (loc.after)
\* (S3 lock, named deviation: release is GET - compare - unconditional DELETE, lock_provider.py:204-210; a releaser
\* stalled between its GET and its DELETE wipes the lock object of whoever took the lock over meanwhile)
DUnlock(a) ==
  /\ pc[a] = "c_unlock"
  /\ \/ lockHolder' = (IF lockHolder = a THEN "none" ELSE lockHolder)
     \/ LockKind = "lease" /\ lockHolder \notin {a, "none"} /\ lockHolder' = "none"
  /\ pc' = [pc EXCEPT ![a] = "c_tunlock"]
  /\ UNCHANGED <<storageVars, clock, rlock, opi, att, loc, faults, lease, ghostVars, scanning>>

AfterCme(a) == IF OpKind(a) = "delsnap" THEN "raise_keep"
               ELSE IF att[a] >= MaxAttempts THEN "rollback" ELSE "c_backoff"

TUnlock(a) ==
  /\ pc[a] = "c_tunlock"
  /\ rlock' = [rlock EXCEPT ![Handle[a]] = "none"]
  /\ pc' = [pc EXCEPT ![a] = IF loc[a].after = "cme" THEN AfterCme(a) ELSE loc[a].after]
  /\ loc' = [loc EXCEPT ![a].err = IF loc[a].after = "cme" THEN "cme" ELSE loc[a].err]
  /\ UNCHANGED <<storageVars, clock, lockHolder, opi, att, faults, lease, ghostVars, scanning>>

\* the distributed lock could not be acquired within its timeout (TimeoutError out of lock_provider.acquire): commit()
\* leaves through the thread lock's release only - the distributed lock was never taken - and the transaction rolls back
LockTimeout(a) ==
  /\ pc[a] = "c_dlock"
  /\ LockKind # "none"
  /\ rlock' = [rlock EXCEPT ![Handle[a]] = "none"]
  /\ pc' = [pc EXCEPT ![a] = IF OpKind(a) # "delsnap" THEN "rollback" ELSE "raise_keep"]
  /\ loc' = [loc EXCEPT ![a].err = "error"]
  /\ UNCHANGED <<storageVars, clock, lockHolder, opi, att, faults, lease, ghostVars, scanning>>

\* time.sleep(backoff), then a new attempt from ReadBase with fresh ids
Backoff(a) ==
  /\ pc[a] = "c_backoff"
  /\ pc' = [pc EXCEPT ![a] = "c_base"]
  /\ loc' = [loc EXCEPT ![a].sid = 0]
  /\ UNCHANGED <<storageVars, clock, lockHolder, rlock, opi, att, faults, lease, ghostVars, scanning>>

\* _finish_committed() is entered: the transaction is marked committed (transaction.py:607-608)
Finish(a) ==
  /\ pc[a] = "c_finish"
  /\ pc' = [pc EXCEPT ![a] = "c_cleanup"]
  /\ UNCHANGED <<storageVars, clock, lockHolder, rlock, opi, att, loc, faults, lease, ghostVars, scanning>>

\* _finish_committed: best-effort marker removal, then return True
DeleteMarker(a, f) ==
  /\ pc[a] = "c_cleanup"
  /\ f \in loc[a].marks
  /\ markers' = markers \ {f}
  /\ loc' = [loc EXCEPT ![a].marks = @ \ {f}]
  /\ UNCHANGED <<hint, metas, metaTime, lists, mans, present, ftime, mtimeM, clock, lockHolder, rlock, pc, opi, att, faults, lease, ghostVars, scanning>>

ReturnOk(a) ==
  /\ pc[a] = "c_cleanup"
  /\ loc[a].marks = {}
  /\ outcomes' = [outcomes EXCEPT ![a] = Append(@, "ok")]
  /\ pc' = [pc EXCEPT ![a] = "idle"]
  /\ opi' = [opi EXCEPT ![a] = @ + 1]
  /\ UNCHANGED <<storageVars, clock, lockHolder, rlock, att, loc, faults, lease, commitLog, serial, tsOf, sidOfOp, reads, deleted, initBody, joined, scanning>>

\* _rollback(): delete the DATA files this transaction wrote, then its markers (transaction.py:648-663)
RollbackDeleteData(a, f) ==
  /\ pc[a] = "rollback"
  /\ f \in SeqToSet(loc[a].files)
  /\ present' = present \ {f}
  /\ deleted' = deleted \cup {[f |-> f, by |-> a, i |-> opi[a], at |-> Len(commitLog)]}
  /\ loc' = [loc EXCEPT ![a].files = SelectSeq(@, LAMBDA x : x # f)]
  /\ UNCHANGED <<hint, metas, metaTime, lists, mans, ftime, markers, mtimeM, clock, lockHolder, rlock, pc, opi, att, faults, lease, commitLog, serial, tsOf, sidOfOp, outcomes, reads, initBody, joined, scanning>>

RollbackDeleteMarker(a, f) ==
  /\ pc[a] = "rollback"
  /\ loc[a].files = <<>>
  /\ f \in loc[a].marks
  /\ markers' = markers \ {f}
  /\ loc' = [loc EXCEPT ![a].marks = @ \ {f}]
  /\ UNCHANGED <<hint, metas, metaTime, lists, mans, present, ftime, mtimeM, clock, lockHolder, rlock, pc, opi, att, faults, lease, ghostVars, scanning>>

\* Trace validation only: rollback is best effort - leaving written files or markers behind is
\* untidy but safe (they are unreachable orphans), so a return from an unfinished rollback is accepted.
ReturnErrLeaving(a) ==
  /\ pc[a] = "rollback"
  /\ outcomes' = [outcomes EXCEPT ![a] = Append(@, loc[a].err)]
  /\ pc' = [pc EXCEPT ![a] = "idle"]
  /\ opi' = [opi EXCEPT ![a] = @ + 1]
  /\ UNCHANGED <<storageVars, clock, lockHolder, rlock, att, loc, faults, lease, commitLog, serial, tsOf, sidOfOp, reads, deleted, initBody, joined, scanning>>

ReturnErr(a) ==
  /\ \/ pc[a] = "rollback" /\ loc[a].files = <<>> /\ loc[a].marks = {}
     \/ pc[a] = "raise_keep"
  /\ outcomes' = [outcomes EXCEPT ![a] = Append(@, loc[a].err)]
  /\ pc' = [pc EXCEPT ![a] = "idle"]
  /\ opi' = [opi EXCEPT ![a] = @ + 1]
  /\ UNCHANGED <<storageVars, clock, lockHolder, rlock, att, loc, faults, lease, commitLog, serial, tsOf, sidOfOp, reads, deleted, initBody, joined, scanning>>

(***************************************************************************)
(* Faults (C04).  Fault(a, kind) makes the storage call (or, for "async",    *)
(* the step boundary) the actor is about to take fail:                      *)
(*   "before": the call raises an Exception without effect;                 *)
(*   "after" : object storage only, at the pointer write: the effect is     *)
(*             applied, then the client sees an exception (ambiguous);      *)
(*   "async" : a BaseException (KeyboardInterrupt/SystemExit) is delivered  *)
(*             at the boundary - commit() has no handler for it, the        *)
(*             context manager's __exit__ calls rollback() for ANY          *)
(*             exception type (transaction.py:671-680).                     *)
(* Where control goes: transaction.py:422-448 (commit's handlers), :620-665 *)
(* (rollback), metadata_manager.py:238-242 (finally: release), :285-320.    *)
(***************************************************************************)

BodyPcs    == {"tx_check", "tx_data"}
PreLockPcs == {"c_tlock", "c_base", "c_readlist", "c_readman", "c_rew_mark", "c_rew", "c_checkdata", "c_wman_mark", "c_wman", "c_wlist_mark", "c_wlist", "c_stamp", "ds_resolve"}
LockedPcs  == {"c_validate", "c_stampupd", "c_readver", "c_wmeta", "c_fence"}

\* does an exception of this kind escaping commit() / the with-body end in _rollback() deleting files?
RollsBack(a, kind, inCommit) ==
  IF kind = "before" THEN (inCommit \/ Style(a) = "ctx")          \* commit(): except Exception -> _rollback(); body: __exit__
  ELSE (Style(a) = "ctx" /\ ~(FixInterrupt /\ inCommit))           \* BaseException: only __exit__ -> rollback()

ErrOf(kind) == IF kind = "async" THEN "interrupted" ELSE "error"

Fault(a, kind) ==
  /\ Role[a] = "committer"
  /\ pc[a] # "idle"
  /\ faults > 0
  /\ faults' = faults - 1
  /\ kind \in {"before", "after", "async"}
  /\ kind = "after" => (pc[a] = "c_flip" /\ Backend # "local")
  /\ OpKind(a) # "delsnap" \/ pc[a] \notin BodyPcs
  /\ OpKind(a) # "create"
  /\ LET p == pc[a] IN
     \/ /\ p \in BodyPcs
        /\ pc' = [pc EXCEPT ![a] = IF RollsBack(a, kind, FALSE) THEN "rollback" ELSE "raise_keep"]
        /\ loc' = [loc EXCEPT ![a].err = ErrOf(kind)]
        /\ UNCHANGED <<hint, commitLog, serial, tsOf, sidOfOp>>
     \/ /\ p \in PreLockPcs
        /\ pc' = [pc EXCEPT ![a] = IF OpKind(a) # "delsnap" /\ RollsBack(a, kind, TRUE) THEN "rollback" ELSE "raise_keep"]
        /\ loc' = [loc EXCEPT ![a].err = ErrOf(kind)]
        /\ UNCHANGED <<hint, commitLog, serial, tsOf, sidOfOp>>
     \/ /\ p \in LockedPcs
        /\ pc' = [pc EXCEPT ![a] = IF (p = "c_fence" \/ (p = "c_wmeta" /\ FixMetaInTry)) /\ kind = "before" THEN AfterCleanFail ELSE "c_unlock"]
        /\ loc' = [loc EXCEPT ![a].err = ErrOf(kind),
                              ![a].after = IF OpKind(a) # "delsnap" /\ RollsBack(a, kind, TRUE) THEN "rollback" ELSE "raise_keep"]
        /\ UNCHANGED <<hint, commitLog, serial, tsOf, sidOfOp>>
     \/ /\ p = "c_flip" /\ kind \in {"before", "async"}
        \* local: a failed pointer write is guaranteed invisible (clean failure); object storage: ambiguous, keep files
        /\ pc' = [pc EXCEPT ![a] = IF kind = "before" /\ Backend = "local" THEN AfterCleanFail ELSE "c_unlock"]
        /\ LET amb == kind = "before" /\ Backend # "local" IN
           loc' = [loc EXCEPT ![a].err = IF amb THEN "ambiguous" ELSE ErrOf(kind),
                              ![a].after = IF amb THEN "raise_keep"
                                           ELSE IF OpKind(a) # "delsnap" /\ RollsBack(a, kind, TRUE) THEN "rollback" ELSE "raise_keep"]
        /\ UNCHANGED <<hint, commitLog, serial, tsOf, sidOfOp>>
     \/ /\ p = "c_flip" /\ kind = "after"
        /\ CasOK(a)            \* (a conditional write whose precondition fails does not land: that is a plain conflict)
        \* the PUT landed, the client saw an error: AmbiguousCommitError, nothing is deleted
        /\ hint' = [cls |-> "name", name |-> MyMetaName(a)]
        /\ commitLog' = Append(commitLog, [a |-> a, i |-> opi[a], name |-> MyMetaName(a), op |-> OpKind(a), replaced |-> HintedName, validated |-> loc[a].valName, lost |-> a \in lease.lost])
        /\ serial' = SerialApply(serial, a, loc[a].sid)
        /\ tsOf' = IF IsFileOp(a)
                   THEN (loc[a].sid :> [ts |-> loc[a].ts, files |-> (serial.files \cup SeqToSet(AppendFiles(a))) \ DeleteFiles(a)]) @@ tsOf
                   ELSE tsOf
        /\ sidOfOp' = IF IsFileOp(a) THEN (<<a, opi[a]>> :> loc[a].sid) @@ sidOfOp ELSE sidOfOp
        /\ pc' = [pc EXCEPT ![a] = "c_unlock"]
        /\ loc' = [loc EXCEPT ![a].err = "ambiguous", ![a].after = "raise_keep"]
     \/ /\ p \in {"c_cleanup", "rollback"} /\ kind = "async"
        \* inside _finish_committed (already marked committed) or inside _rollback (already marked
        \* rolled back): the best-effort loops do not catch BaseException; the rest is skipped
        /\ pc' = [pc EXCEPT ![a] = "raise_keep"]
        /\ loc' = [loc EXCEPT ![a].err = "interrupted"]
        /\ UNCHANGED <<hint, commitLog, serial, tsOf, sidOfOp>>
     \/ /\ p = "c_finish" /\ kind = "async"
        \* interrupted after the pointer moved and the locks were released, before _finish_committed():
        \* the transaction is still "active", so the context manager's rollback() deletes the files
        \* of a COMMITTED snapshot
        /\ pc' = [pc EXCEPT ![a] = IF RollsBack(a, kind, TRUE) THEN "rollback" ELSE "raise_keep"]
        /\ loc' = [loc EXCEPT ![a].err = "interrupted"]
        /\ UNCHANGED <<hint, commitLog, serial, tsOf, sidOfOp>>
  /\ UNCHANGED <<metas, metaTime, lists, mans, present, ftime, markers, mtimeM, clock, lockHolder, rlock, opi, att, lease, outcomes, reads, deleted, initBody, joined, scanning>>

\* second half of Fault(a, "after") at the pointer write, for executions that log the landed request and the error
\* the client saw as two events:  FlipHint(a) \cdot AmbiguousAfterFlip(a)  =  Fault(a, "after") at c_flip
AmbiguousAfterFlip(a) ==
  /\ Role[a] = "committer"
  /\ pc[a] = "c_unlock"
  /\ loc[a].after \in {"c_finish", "c_cleanup"}
  /\ Backend # "local"
  /\ faults > 0
  /\ faults' = faults - 1
  /\ loc' = [loc EXCEPT ![a].err = "ambiguous", ![a].after = "raise_keep"]
  /\ UNCHANGED <<storageVars, clock, lockHolder, rlock, pc, opi, att, lease, ghostVars, scanning>>

\* CAS backends: the existence probe of the hinted file (part of the version lookup, before the metadata write and
\* outside its handler) fails: straight to the unlock path.  In the model this differs from Fault at c_wmeta only
\* by skipping a removal attempt that would find nothing.
FaultInVersionProbe(a) ==
  /\ Role[a] = "committer"
  /\ pc[a] = "c_wmeta"
  /\ faults > 0
  /\ faults' = faults - 1
  /\ pc' = [pc EXCEPT ![a] = "c_unlock"]
  /\ loc' = [loc EXCEPT ![a].err = "error", ![a].after = IF OpKind(a) # "delsnap" THEN "rollback" ELSE "raise_keep"]
  /\ UNCHANGED <<storageVars, clock, lockHolder, rlock, opi, att, lease, ghostVars, scanning>>

\* the committing process dies (kill -9): nothing of its further program happens; a flock is released by the kernel
Crash(a) ==
  /\ Role[a] = "committer"
  /\ pc[a] \notin {"idle", "dead"}
  /\ faults > 0
  /\ faults' = faults - 1
  /\ pc' = [pc EXCEPT ![a] = "dead"]
  /\ lockHolder' = IF lockHolder = a /\ Backend = "local" THEN "none" ELSE lockHolder
  /\ rlock' = [rlock EXCEPT ![Handle[a]] = IF @ = a THEN "none" ELSE @]
  /\ UNCHANGED <<storageVars, clock, opi, att, loc, lease, ghostVars, scanning>>

\* best-effort steps whose failure is swallowed: a marker that could not be removed stays
SkipMarker(a, f) ==
  /\ pc[a] \in {"c_cleanup", "rollback"}
  /\ pc[a] = "rollback" => loc[a].files = <<>>
  /\ f \in loc[a].marks
  /\ faults > 0
  /\ faults' = faults - 1
  /\ loc' = [loc EXCEPT ![a].marks = @ \ {f}]
  /\ UNCHANGED <<storageVars, clock, lockHolder, rlock, pc, opi, att, lease, ghostVars, scanning>>

\* rollback could not delete a data file (swallowed): it stays as an orphan
SkipRollbackData(a, f) ==
  /\ pc[a] = "rollback"
  /\ f \in SeqToSet(loc[a].files)
  /\ faults > 0
  /\ faults' = faults - 1
  /\ loc' = [loc EXCEPT ![a].files = SelectSeq(@, LAMBDA x : x # f)]
  /\ UNCHANGED <<storageVars, clock, lockHolder, rlock, pc, opi, att, lease, ghostVars, scanning>>

(***************************************************************************)
(* Table creation / opening (transaction.py:733-783 Table.__init__,         *)
(* metadata_manager.py:67-118 initialize_table) as the operation "create":   *)
(* refresh; if nothing is resolvable: thread lock, distributed lock,         *)
(* resolve again under the lock (anything resolvable => TableExistsError =>  *)
(* adopt), stamp, write v0, write the pointer (CAS backends: create-if-      *)
(* absent; a conflict => TableExistsError => adopt), unlock.                *)
(***************************************************************************)
KOpen(a, name) ==
  /\ pc[a] = "k_open"
  /\ HandleFree(a)
  /\ Resolves(a, name)
  /\ scanning' = scanning \ {a}
  /\ pc' = [pc EXCEPT ![a] = IF name = NoName THEN "k_tlock" ELSE "k_done"]
  /\ UNCHANGED <<storageVars, clock, lockHolder, rlock, opi, att, loc, faults, lease, ghostVars>>

KTLock(a) ==
  /\ pc[a] = "k_tlock"
  /\ rlock[Handle[a]] = "none"
  /\ rlock' = [rlock EXCEPT ![Handle[a]] = a]
  /\ pc' = [pc EXCEPT ![a] = "k_dlock"]
  /\ UNCHANGED <<storageVars, clock, lockHolder, opi, att, loc, faults, lease, ghostVars, scanning>>

KDLock(a) ==
  /\ pc[a] = "k_dlock"
  /\ \/ LockKind = "none" /\ UNCHANGED <<lockHolder, lease>>
     \/ LockKind # "none" /\ lockHolder = "none" /\ lockHolder' = a /\ lease' = [lease EXCEPT !.t = clock]
  /\ pc' = [pc EXCEPT ![a] = "k_check"]
  /\ UNCHANGED <<storageVars, clock, rlock, opi, att, loc, faults, ghostVars, scanning>>

\* _current_version_info() under the lock: any recoverable version means the table exists
KCheck(a, name) ==
  /\ pc[a] = "k_check"
  /\ Resolves(a, name)
  /\ scanning' = scanning \ {a}
  /\ pc' = [pc EXCEPT ![a] = IF name = NoName THEN "k_stamp" ELSE "k_unlock"]
  /\ UNCHANGED <<storageVars, clock, lockHolder, rlock, opi, att, loc, faults, lease, ghostVars>>

KStamp(a, t) ==
  /\ pc[a] = "k_stamp"
  /\ ClockOK(t)
  /\ clock' = t
  /\ loc' = [loc EXCEPT ![a].ts = t]
  /\ pc' = [pc EXCEPT ![a] = "k_wmeta"]
  /\ UNCHANGED <<storageVars, lockHolder, rlock, opi, att, faults, lease, ghostVars, scanning>>

KWriteMeta(a, name, uuid) ==
  /\ pc[a] = "k_wmeta"
  /\ name.v = 0
  /\ name \notin DOMAIN metas
  /\ uuid \notin {metas[n].uuid : n \in DOMAIN metas}
  /\ metas' = (name :> [NoBody EXCEPT !.uuid = uuid, !.lastUpd = loc[a].ts]) @@ metas
  /\ metaTime' = (name :> clock) @@ metaTime
  /\ loc' = [loc EXCEPT ![a].target = name.u, ![a].nextVer = 0]
  /\ pc' = [pc EXCEPT ![a] = "k_whint"]
  /\ UNCHANGED <<hint, lists, mans, present, ftime, markers, mtimeM, clock, lockHolder, rlock, opi, att, faults, lease, ghostVars, scanning>>

\* the pointer write of an initialisation: create-if-absent on CAS backends, plain overwrite otherwise
KWriteHint(a) ==
  /\ pc[a] = "k_whint"
  /\ IF Backend # "s3cas" \/ hint.cls = "missing"
     THEN /\ hint' = [cls |-> "name", name |-> MyMetaName(a)]
          /\ commitLog' = Append(commitLog, [a |-> a, i |-> opi[a], name |-> MyMetaName(a), op |-> "create",
                                              replaced |-> HintedName, validated |-> NoName, lost |-> FALSE])
     ELSE UNCHANGED <<hint, commitLog>>          \* lost the creation race: TableExistsError, adopt
  /\ pc' = [pc EXCEPT ![a] = "k_unlock"]
  /\ UNCHANGED <<metas, metaTime, lists, mans, present, ftime, markers, mtimeM, clock, lockHolder, rlock, opi, att, loc, faults, lease,
                 serial, tsOf, sidOfOp, outcomes, reads, deleted, initBody, joined, scanning>>

KDUnlock(a) ==
  /\ pc[a] = "k_unlock"
  /\ lockHolder' = IF lockHolder = a THEN "none" ELSE lockHolder
  /\ pc' = [pc EXCEPT ![a] = "k_tunlock"]
  /\ UNCHANGED <<storageVars, clock, rlock, opi, att, loc, faults, lease, ghostVars, scanning>>

KTUnlock(a) ==
  /\ pc[a] = "k_tunlock"
  /\ rlock' = [rlock EXCEPT ![Handle[a]] = "none"]
  /\ pc' = [pc EXCEPT ![a] = IF loc[a].err = "none" THEN "k_done" ELSE "k_failed"]
  /\ UNCHANGED <<storageVars, clock, lockHolder, opi, att, loc, faults, lease, ghostVars, scanning>>

\* the constructor returns: the caller is on whatever table is resolvable now
KReturn(a) ==
  /\ pc[a] = "k_done"
  /\ outcomes' = [outcomes EXCEPT ![a] = Append(@, "ok")]
  /\ joined' = joined \cup {ResolvedBody.uuid}
  /\ pc' = [pc EXCEPT ![a] = "idle"]
  /\ opi' = [opi EXCEPT ![a] = @ + 1]
  /\ UNCHANGED <<storageVars, clock, lockHolder, rlock, att, loc, faults, lease, commitLog, serial, tsOf, sidOfOp, reads, deleted, initBody, scanning>>

\* a storage call of create/open fails: the constructor raises (after releasing the locks it holds)
KFault(a) ==
  /\ Role[a] = "committer"
  /\ pc[a] \in {"k_open", "k_check", "k_stamp", "k_wmeta", "k_whint"}
  /\ faults > 0
  /\ faults' = faults - 1
  /\ loc' = [loc EXCEPT ![a].err = "error"]
  /\ pc' = [pc EXCEPT ![a] = IF pc[a] = "k_open" THEN "k_failed" ELSE "k_unlock"]
  /\ UNCHANGED <<storageVars, clock, lockHolder, rlock, opi, att, lease, ghostVars, scanning>>

KReturnErr(a) ==
  /\ pc[a] = "k_failed"
  /\ outcomes' = [outcomes EXCEPT ![a] = Append(@, "error")]
  /\ pc' = [pc EXCEPT ![a] = "idle"]
  /\ opi' = [opi EXCEPT ![a] = @ + 1]
  /\ UNCHANGED <<storageVars, clock, lockHolder, rlock, att, loc, faults, lease, commitLog, serial, tsOf, sidOfOp, reads, deleted, initBody, joined, scanning>>

CreateNext(a) ==
  \/ KFault(a) \/ KReturnErr(a)
  \/ \E n \in DOMAIN metas \cup {NoName} : KOpen(a, n) \/ KCheck(a, n)
  \/ KTLock(a) \/ KDLock(a) \/ KStamp(a, NowVal)
  \/ KWriteMeta(a, [v |-> 0, u |-> Idx[a] * 1000 + opi[a] * 100], 10 + Idx[a])
  \/ KWriteHint(a) \/ KDUnlock(a) \/ KTUnlock(a) \/ KReturn(a)

\* ---- delete_snapshot (snapshot_manager.py:258-301): refresh, build, commit, no retry ----
DsResolve(a, name) ==
  /\ pc[a] = "ds_resolve"
  /\ HandleFree(a)
  /\ Resolves(a, name)
  /\ scanning' = scanning \ {a}
  /\ name # NoName
  /\ LET b == metas[name]
         sid == loc[a].sid
     IN IF sid # 0 /\ HasSnap(b, sid)
        THEN /\ loc' = [loc EXCEPT ![a].base = b, ![a].baseName = name, ![a].sid = sid, ![a].draft = DeleteSnap(b, sid)]
             /\ pc' = [pc EXCEPT ![a] = "c_tlock"]
             /\ att' = [att EXCEPT ![a] = 1]
             /\ UNCHANGED <<outcomes, opi>>
        ELSE /\ outcomes' = [outcomes EXCEPT ![a] = Append(@, "false")]
             /\ pc' = [pc EXCEPT ![a] = "idle"]
             /\ opi' = [opi EXCEPT ![a] = @ + 1]
             /\ UNCHANGED <<loc, att>>
  /\ UNCHANGED <<storageVars, clock, lockHolder, rlock, faults, lease, commitLog, serial, tsOf, sidOfOp, reads, deleted, initBody, joined>>

(***************************************************************************)
(* Reader (Table._get_all_data_files + data reads).                        *)
(***************************************************************************)
\* row_count() stops after the manifests (it sums their record counts): data |-> FALSE
WantsData(a) == IF "data" \in DOMAIN CurOp(a) THEN CurOp(a).data ELSE TRUE

RBegin(a, name) ==
  /\ Role[a] = "reader"
  /\ pc[a] = "idle"
  /\ opi[a] <= Len(Prog[a])
  /\ HandleFree(a)
  /\ Resolves(a, name)
  /\ scanning' = scanning \ {a}
  /\ name # NoName
  /\ LET b == metas[name] IN
     /\ loc' = [loc EXCEPT ![a] = [EmptyLoc EXCEPT !.from = Len(commitLog), !.body = b]]
     /\ pc' = [pc EXCEPT ![a] = IF b.cur = 0 THEN "r_return" ELSE "r_list"]
  /\ UNCHANGED <<storageVars, clock, lockHolder, rlock, opi, att, faults, lease, ghostVars>>

RReadList(a) ==
  /\ pc[a] = "r_list"
  /\ LET l == SnapOf(loc[a].body, loc[a].body.cur).list IN
     IF l \in present
     THEN /\ loc' = [loc EXCEPT ![a].todo = lists[l]]
          /\ pc' = [pc EXCEPT ![a] = IF Len(lists[l]) = 0 THEN "r_data" ELSE "r_man"]
     ELSE /\ loc' = [loc EXCEPT ![a].err = "raise"]
          /\ pc' = [pc EXCEPT ![a] = "r_return"]
  /\ UNCHANGED <<storageVars, clock, lockHolder, rlock, opi, att, faults, lease, ghostVars, scanning>>

RReadManifest(a) ==
  /\ pc[a] = "r_man"
  /\ LET m == Head(loc[a].todo) IN
     IF m \in present
     THEN /\ loc' = [loc EXCEPT ![a].todo = Tail(@), ![a].rfiles = @ \cup {e.file : e \in mans[m]}]
          /\ pc' = [pc EXCEPT ![a] = IF Len(loc[a].todo) = 1 THEN "r_data" ELSE "r_man"]
     ELSE /\ loc' = [loc EXCEPT ![a].err = "raise"]
          /\ pc' = [pc EXCEPT ![a] = "r_return"]
  /\ UNCHANGED <<storageVars, clock, lockHolder, rlock, opi, att, faults, lease, ghostVars, scanning>>

RReadData(a, f) ==
  /\ pc[a] = "r_data"
  /\ f \in loc[a].rfiles \ loc[a].got
  /\ WantsData(a)
  /\ IF f \in present
     THEN /\ loc' = [loc EXCEPT ![a].got = @ \cup {f}]
          /\ UNCHANGED pc
     ELSE /\ loc' = [loc EXCEPT ![a].err = "raise"]
          /\ pc' = [pc EXCEPT ![a] = "r_return"]
  /\ UNCHANGED <<storageVars, clock, lockHolder, rlock, opi, att, faults, lease, ghostVars, scanning>>

\* a storage call of a read fails (transient error): the read raises, whatever it had got so far is not an answer.
\* In particular a failing read of the POINTER raises - it is not "pointer missing", which would send the reader to
\* recovery-by-scanning and could surface an uncommitted metadata file of a commit in progress.
RFault(a) ==
  /\ Role[a] = "reader"
  /\ faults > 0
  /\ faults' = faults - 1
  /\ IF pc[a] = "idle"
     THEN /\ opi[a] <= Len(Prog[a])
          /\ loc' = [loc EXCEPT ![a] = [EmptyLoc EXCEPT !.from = Len(commitLog), !.err = "raise", !.body = NoBody]]
     ELSE loc' = [loc EXCEPT ![a].err = "raise"]
  /\ pc' = [pc EXCEPT ![a] = "r_return"]
  /\ UNCHANGED <<storageVars, clock, lockHolder, rlock, opi, att, lease, ghostVars, scanning>>

RReturn(a) ==
  /\ \/ pc[a] = "r_return"
     \/ pc[a] = "r_data" /\ (loc[a].got = loc[a].rfiles \/ ~WantsData(a))
  /\ reads' = Append(reads, [a |-> a, from |-> loc[a].from, to |-> Len(commitLog),
                             files |-> IF WantsData(a) \/ loc[a].err # "none" THEN loc[a].got ELSE loc[a].rfiles,
                             err |-> loc[a].err, cur |-> loc[a].body.cur])
  /\ pc' = [pc EXCEPT ![a] = "idle"]
  /\ opi' = [opi EXCEPT ![a] = @ + 1]
  /\ UNCHANGED <<storageVars, clock, lockHolder, rlock, att, loc, faults, lease, commitLog, serial, tsOf, sidOfOp, outcomes, deleted, initBody, joined, scanning>>

(***************************************************************************)
(* Collector (garbage_collector.py:54-270).                                *)
(* As the code is: metadata is read first (GBegin), every reachable list    *)
(* and manifest is read (missing => abort, nothing deleted), THEN the       *)
(* in-flight markers are loaded (GLoadMarkers), then data/ and              *)
(* metadata/manifests/ are listed and every file that is neither reachable  *)
(* (from the metadata read at the start) nor protected (markers as loaded)  *)
(* and is older than the grace period is deleted.  FixGCOrder models the    *)
(* repaired order: markers are loaded BEFORE the metadata is read.          *)
(***************************************************************************)
GraceOf(a) == IF "grace" \in DOMAIN CurOp(a) THEN CurOp(a).grace ELSE Grace
IsDataFile(f) == f \notin DOMAIN lists /\ f \notin DOMAIN mans

ReachOf(b) ==
  LET ls == {b.snaps[j].list : j \in 1..Len(b.snaps)}
      ms == UNION {SeqToSet(lists[l]) : l \in ls \cap DOMAIN lists}
      ds == UNION {{e.file : e \in mans[m]} : m \in ms \cap DOMAIN mans}
  IN [lists |-> ls, mans |-> ms, data |-> ds]

FreshMarker(f, now) == mtimeM[f] + MarkerTimeout > now
\* the phase that follows the metadata read / the marker load when markers come first
AfterBegin == IF FixGCFail THEN "g_listd" ELSE "g_cutd"

\* Phases (program counters).  As the code is (FixGCOrder = FALSE):
\*   idle -GBegin-> g_stampm -GStampM-> g_markers -GLoadMarkers-> g_cutd
\* repaired order (FixGCOrder = TRUE):
\*   idle -GStampM-> g_markers -GLoadMarkers-> g_begin -GBegin-> g_cutd
\* then  g_cutd -GStamp-> g_listd -GList-> g_sweepd -GDelete*- GStamp-> g_listm -GList-> g_sweepm -GDelete*- GReturn

\* refresh() in collect(): the metadata whose snapshots define reachability
GBegin(a, name) ==
  /\ Role[a] = "collector"
  /\ pc[a] = (IF FixGCOrder THEN "g_begin" ELSE "idle")
  /\ opi[a] <= Len(Prog[a])
  /\ HandleFree(a)
  /\ Resolves(a, name)
  /\ scanning' = scanning \ {a}
  /\ name # NoName
  /\ LET b == metas[name]
         r == ReachOf(b)
     IN /\ loc' = [loc EXCEPT ![a] = [(IF FixGCOrder THEN loc[a] ELSE EmptyLoc) EXCEPT
                                        !.body = b, !.reach = r.lists \cup r.mans \cup r.data, !.from = Len(commitLog)]]
        \* a reachable list or manifest that is missing makes the run abort before any delete
        \* (a file that exists but has no parseable content is not in DOMAIN lists / DOMAIN mans)
        /\ pc' = [pc EXCEPT ![a] = IF (r.lists \cup r.mans) \subseteq present /\ r.lists \subseteq DOMAIN lists /\ r.mans \subseteq DOMAIN mans
                                   THEN (IF FixGCOrder THEN AfterBegin ELSE "g_stampm") ELSE "g_abort"]
  /\ UNCHANGED <<storageVars, clock, lockHolder, rlock, opi, att, faults, lease, ghostVars>>

\* cutoff for marker abandonment: time.time() before the marker listing
GStampM(a, now) ==
  /\ Role[a] = "collector"
  /\ pc[a] = (IF FixGCOrder THEN "idle" ELSE "g_stampm")
  /\ FixGCOrder => opi[a] <= Len(Prog[a])
  /\ ClockOK(now)
  /\ clock' = now
  /\ loc' = [loc EXCEPT ![a] = [(IF FixGCOrder THEN EmptyLoc ELSE loc[a]) EXCEPT !.cutoff = now]]
  /\ pc' = [pc EXCEPT ![a] = "g_markers"]
  /\ UNCHANGED <<storageVars, lockHolder, rlock, opi, att, faults, lease, ghostVars, scanning>>

\* list metadata/inflight (+ stat and read of every marker): fresh markers protect their target,
\* abandoned ones are removed (GSweepMarker) and their files fall back to ordinary orphan handling
GLoadMarkers(a) ==
  /\ Role[a] = "collector"
  /\ pc[a] = "g_markers"
  /\ loc' = [loc EXCEPT ![a].prot = {f \in markers : FreshMarker(f, loc[a].cutoff)},
                        ![a].mseen = {f \in markers : ~FreshMarker(f, loc[a].cutoff)}]
  /\ pc' = [pc EXCEPT ![a] = IF FixGCOrder THEN "g_begin" ELSE AfterBegin]
  /\ UNCHANGED <<storageVars, clock, lockHolder, rlock, opi, att, faults, lease, ghostVars, scanning>>

GSweepMarker(a, f) ==
  /\ Role[a] = "collector"
  /\ pc[a] \in {"g_begin", "g_cutd", "g_listd"}
  /\ f \in loc[a].mseen
  /\ markers' = markers \ {f}
  /\ loc' = [loc EXCEPT ![a].mseen = @ \ {f}]
  /\ UNCHANGED <<hint, metas, metaTime, lists, mans, present, ftime, mtimeM, clock, lockHolder, rlock, pc, opi, att, faults, lease, ghostVars, scanning>>

Eligible(a, f) == f \notin loc[a].reach /\ f \notin loc[a].prot /\ f \in present /\ ftime[f] <= loc[a].cutoff
\* the listed files the current sweep is about
CandNow(a) == IF FixGCFail THEN {f \in loc[a].cand : IsDataFile(f) <=> pc[a] = "g_sweepd"} ELSE loc[a].cand
SweepComplete(a) == \A f \in CandNow(a) : ~Eligible(a, f)

\* cutoff = now - grace.  As the code was: read before each directory is listed, the data/ sweep
\* runs before metadata/manifests is listed.  Repaired (FixGCFail): read once, both directories are
\* listed before the first delete.
GStamp(a, now) ==
  /\ Role[a] = "collector"
  /\ pc[a] \in (IF FixGCFail THEN {"g_stampd", "g_sweepd"} ELSE {"g_cutd", "g_sweepd"})
  /\ pc[a] = "g_cutd" => loc[a].mseen = {}
  /\ pc[a] = "g_sweepd" => SweepComplete(a)
  /\ ClockOK(now)
  /\ clock' = now
  /\ loc' = [loc EXCEPT ![a].cutoff = now - GraceOf(a), ![a].cand = IF FixGCFail THEN @ ELSE {}]
  /\ pc' = [pc EXCEPT ![a] = IF FixGCFail THEN (IF pc[a] = "g_stampd" THEN "g_sweepd" ELSE "g_sweepm")
                                          ELSE (IF pc[a] = "g_cutd" THEN "g_listd" ELSE "g_listm")]
  /\ UNCHANGED <<storageVars, lockHolder, rlock, opi, att, faults, lease, ghostVars, scanning>>

\* listing of data/ (g_listd) or metadata/manifests/ (g_listm)
GList(a) ==
  /\ Role[a] = "collector"
  /\ pc[a] \in {"g_listd", "g_listm"}
  /\ pc[a] = "g_listd" /\ FixGCFail => loc[a].mseen = {}
  /\ loc' = [loc EXCEPT ![a].cand = (IF FixGCFail /\ pc[a] = "g_listm" THEN loc[a].cand ELSE {}) \cup
                                    (IF pc[a] = "g_listd" THEN {f \in present : IsDataFile(f)}
                                                          ELSE {f \in present : ~IsDataFile(f)})]
  /\ pc' = [pc EXCEPT ![a] = IF pc[a] = "g_listd" THEN (IF FixGCFail THEN "g_listm" ELSE "g_sweepd")
                                                  ELSE (IF FixGCFail THEN "g_stampd" ELSE "g_sweepm")]
  /\ UNCHANGED <<storageVars, clock, lockHolder, rlock, opi, att, faults, lease, ghostVars, scanning>>

(* ---- collector failure handling (C07) ---- *)
\* a reachable manifest list / manifest cannot be read (missing, unparseable, transient error):
\* the run aborts; this happens while reachability is computed, before any delete
GFaultReach(a) ==
  /\ Role[a] = "collector"
  /\ pc[a] = (IF FixGCOrder THEN AfterBegin ELSE "g_stampm")
  /\ pc' = [pc EXCEPT ![a] = "g_abort"]
  /\ UNCHANGED <<storageVars, clock, lockHolder, rlock, opi, att, loc, faults, lease, ghostVars, scanning>>

\* the marker directory cannot be listed.  As the code was: treated as "no markers".
GFaultMarkList(a) ==
  /\ Role[a] = "collector"
  /\ pc[a] = "g_markers"
  /\ IF FixGCFail
     THEN pc' = [pc EXCEPT ![a] = "g_abort"] /\ UNCHANGED loc
     ELSE /\ loc' = [loc EXCEPT ![a].prot = {}, ![a].mseen = {}]
          /\ pc' = [pc EXCEPT ![a] = IF FixGCOrder THEN "g_begin" ELSE AfterBegin]
  /\ UNCHANGED <<storageVars, clock, lockHolder, rlock, opi, att, faults, lease, ghostVars, scanning>>

\* a marker's payload cannot be read.  As the code was: its target is assumed to be data/<name>, so a
\* marker protecting a manifest or a list stops protecting it.  Repaired: the name stays protected.
GMarkUnreadable(a, f) ==
  /\ Role[a] = "collector"
  /\ pc[a] \in {"g_begin", "g_cutd", "g_listd"}
  /\ f \in loc[a].prot \cup loc[a].mseen
  /\ loc' = [loc EXCEPT ![a].prot = IF ~FixGCFail /\ ~IsDataFile(f) THEN @ \ {f} ELSE @]
  /\ UNCHANGED <<storageVars, clock, lockHolder, rlock, pc, opi, att, faults, lease, ghostVars, scanning>>

\* an abandoned marker could not be removed: it keeps protecting its file
GMarkUndeletable(a, f) ==
  /\ Role[a] = "collector"
  /\ pc[a] \in {"g_begin", "g_cutd", "g_listd"}
  /\ f \in loc[a].mseen
  /\ loc' = [loc EXCEPT ![a].mseen = @ \ {f}, ![a].prot = @ \cup {f}]
  /\ UNCHANGED <<storageVars, clock, lockHolder, rlock, pc, opi, att, faults, lease, ghostVars, scanning>>

\* a directory cannot be listed, or the listing contains a path outside the table: abort
GFaultList(a) ==
  /\ Role[a] = "collector"
  /\ pc[a] \in {"g_listd", "g_listm"}
  /\ pc' = [pc EXCEPT ![a] = "g_abort"]
  /\ UNCHANGED <<storageVars, clock, lockHolder, rlock, opi, att, loc, faults, lease, ghostVars, scanning>>

\* refresh() itself fails: collect() raises before anything else happened
GFaultEarly(a) ==
  /\ Role[a] = "collector"
  /\ pc[a] \in {"idle", "g_begin", "g_stampm", "g_listd", "g_cutd"}
  /\ opi[a] <= Len(Prog[a])
  /\ pc' = [pc EXCEPT ![a] = "g_abort"]
  /\ UNCHANGED <<storageVars, clock, lockHolder, rlock, opi, att, loc, faults, lease, ghostVars, scanning>>

\* the listing contains a path outside the table root.  As the code was: the guard sits inside the
\* delete loop (entries before the escaping one are processed first).  Repaired: every listed path
\* is classified before the first delete.
GListEscaping(a) ==
  /\ Role[a] = "collector"
  /\ pc[a] \in {"g_listd", "g_listm"}
  /\ IF FixGCFail
     THEN pc' = [pc EXCEPT ![a] = "g_abort"] /\ UNCHANGED loc
     ELSE /\ loc' = [loc EXCEPT ![a].esc = TRUE,
                                ![a].cand = IF pc[a] = "g_listd" THEN {f \in present : IsDataFile(f)} ELSE {f \in present : ~IsDataFile(f)}]
          /\ pc' = [pc EXCEPT ![a] = IF pc[a] = "g_listd" THEN "g_sweepd" ELSE "g_sweepm"]
  /\ UNCHANGED <<storageVars, clock, lockHolder, rlock, opi, att, faults, lease, ghostVars, scanning>>

\* a candidate cannot be stat'ed or deleted: it is skipped (nothing live is at risk)
GSkip(a, f) ==
  /\ Role[a] = "collector"
  /\ pc[a] \in {"g_sweepd", "g_sweepm"}
  /\ f \in CandNow(a)
  /\ loc' = [loc EXCEPT ![a].cand = @ \ {f}]
  /\ UNCHANGED <<storageVars, clock, lockHolder, rlock, pc, opi, att, faults, lease, ghostVars, scanning>>

\* one listed file is deleted: only if unreachable, unprotected and older than the cutoff
GDelete(a, f) ==
  /\ Role[a] = "collector"
  /\ pc[a] \in {"g_sweepd", "g_sweepm"}
  /\ f \in CandNow(a)
  /\ Eligible(a, f)
  /\ present' = present \ {f}
  /\ deleted' = deleted \cup {[f |-> f, by |-> a, i |-> opi[a], at |-> loc[a].from]}
  /\ loc' = [loc EXCEPT ![a].cand = @ \ {f}]
  /\ UNCHANGED <<hint, metas, metaTime, lists, mans, ftime, markers, mtimeM, clock, lockHolder, rlock, pc, opi, att, faults, lease, commitLog, serial, tsOf, sidOfOp, outcomes, reads, initBody, joined, scanning>>

\* another collector removed the candidate after this one had stat'ed it: deleting a file that is gone succeeds silently
GDeleteGone(a, f) ==
  /\ Role[a] = "collector"
  /\ pc[a] \in {"g_sweepd", "g_sweepm"}
  /\ f \in CandNow(a)
  /\ f \notin present
  /\ f \notin loc[a].reach /\ f \notin loc[a].prot
  /\ loc' = [loc EXCEPT ![a].cand = @ \ {f}]
  /\ UNCHANGED <<storageVars, clock, lockHolder, rlock, pc, opi, att, faults, lease, ghostVars, scanning>>

GReturn(a) ==
  /\ Role[a] = "collector"
  /\ \/ pc[a] = "g_sweepm" /\ SweepComplete(a) /\ ~loc[a].esc
     \/ pc[a] = "g_abort"
     \/ pc[a] \in {"g_sweepd", "g_sweepm"} /\ loc[a].esc       \* the escaping entry was reached: abort
  /\ outcomes' = [outcomes EXCEPT ![a] = Append(@, IF pc[a] = "g_abort" \/ loc[a].esc THEN "aborted" ELSE "ok")]
  /\ pc' = [pc EXCEPT ![a] = "idle"]
  /\ opi' = [opi EXCEPT ![a] = @ + 1]
  /\ UNCHANGED <<storageVars, clock, lockHolder, rlock, att, loc, faults, lease, commitLog, serial, tsOf, sidOfOp, reads, deleted, initBody, joined, scanning>>

GFaultReachB(a) ==
  /\ Role[a] = "collector"
  /\ pc[a] = (IF FixGCOrder THEN AfterBegin ELSE "g_stampm")
  /\ pc' = [pc EXCEPT ![a] = "g_abort"]
  /\ UNCHANGED <<storageVars, clock, lockHolder, rlock, opi, att, loc, lease, ghostVars, scanning>>

GFaultMarkListB(a) ==
  /\ Role[a] = "collector"
  /\ pc[a] = "g_markers"
  /\ IF FixGCFail
     THEN pc' = [pc EXCEPT ![a] = "g_abort"] /\ UNCHANGED loc
     ELSE /\ loc' = [loc EXCEPT ![a].prot = {}, ![a].mseen = {}]
          /\ pc' = [pc EXCEPT ![a] = IF FixGCOrder THEN "g_begin" ELSE "g_cutd"]
  /\ UNCHANGED <<storageVars, clock, lockHolder, rlock, opi, att, lease, ghostVars, scanning>>

GFaultListB(a) ==
  /\ Role[a] = "collector"
  /\ pc[a] \in {"g_listd", "g_listm"}
  /\ pc' = [pc EXCEPT ![a] = "g_abort"]
  /\ UNCHANGED <<storageVars, clock, lockHolder, rlock, opi, att, loc, lease, ghostVars, scanning>>

GMarkUnreadableB(a, f) ==
  /\ Role[a] = "collector"
  /\ pc[a] \in {"g_begin", "g_cutd"}
  /\ f \in loc[a].prot \cup loc[a].mseen
  /\ loc' = [loc EXCEPT ![a].prot = IF ~FixGCFail /\ ~IsDataFile(f) THEN @ \ {f} ELSE @]
  /\ UNCHANGED <<storageVars, clock, lockHolder, rlock, pc, opi, att, lease, ghostVars, scanning>>

GMarkUndeletableB(a, f) ==
  /\ Role[a] = "collector"
  /\ pc[a] \in {"g_begin", "g_cutd"}
  /\ f \in loc[a].mseen
  /\ loc' = [loc EXCEPT ![a].mseen = @ \ {f}, ![a].prot = @ \cup {f}]
  /\ UNCHANGED <<storageVars, clock, lockHolder, rlock, pc, opi, att, lease, ghostVars, scanning>>

GSkipB(a, f) ==
  /\ Role[a] = "collector"
  /\ pc[a] \in {"g_sweepd", "g_sweepm"}
  /\ f \in CandNow(a)
  /\ loc' = [loc EXCEPT ![a].cand = @ \ {f}]
  /\ UNCHANGED <<storageVars, clock, lockHolder, rlock, pc, opi, att, lease, ghostVars, scanning>>

CollectorNext(a) ==
  \/ \E n \in DOMAIN metas : GBegin(a, n)
  \/ GStampM(a, NowVal) \/ GLoadMarkers(a)
  \/ \E f \in loc[a].mseen : GSweepMarker(a, f)
  \/ GStamp(a, NowVal) \/ GList(a)
  \/ \E f \in loc[a].cand : GDelete(a, f) \/ GDeleteGone(a, f)
  \/ GReturn(a)
  \/ /\ faults > 0
     /\ faults' = faults - 1
     /\ \/ GFaultReachB(a) \/ GFaultMarkListB(a) \/ GFaultListB(a)
        \/ \E f \in loc[a].prot \cup loc[a].mseen : GMarkUnreadableB(a, f) \/ GMarkUndeletableB(a, f)
        \/ \E f \in loc[a].cand : GSkipB(a, f)

(***************************************************************************)
(* Next-state relation for model checking: identifiers derived from         *)
(* (actor, operation index, attempt).                                       *)
(***************************************************************************)
\* a data file can only be older than the grace period if it was written before the collection run
\* began (the run is shorter than the grace period)
NoCollectionStarted == \A g \in Collectors : pc[g] = "idle" /\ opi[g] = 1

IdBase(a) == Idx[a] * 1000 + opi[a] * 100 + att[a] * 10
MSid(a)   == IdBase(a) + 1
MNewFile(a) == IdBase(a) + 2 + Cardinality(loc[a].marks \ SeqToSet(AppendFiles(a)))   \* k-th manifest/list of this attempt
MName(a)  == [v |-> loc[a].nextVer, u |-> IdBase(a)]

CommitterNext(a) ==
  \/ Begin(a)
  \/ \E f \in 1..99 : WriteMarkerD(a, f) \/ WriteData(a, f, IF OldFiles /\ NoCollectionStarted THEN OldTime ELSE clock)
  \/ \E f \in PreFiles : QueuePrebuilt(a, f)
  \/ CommitStart(a)
  \/ \E n \in DOMAIN metas : ReadBase(a, n)
  \/ ReadBaseList(a)
  \/ ReadManifest(a)
  \/ WriteMarkerM(a, MNewFile(a))
  \/ RewriteManifest(a, loc[a].pend, clock)
  \/ CheckData(a)
  \/ WriteManifest(a, loc[a].pend, MSid(a), clock)
  \/ WriteList(a, loc[a].pend, MSid(a), clock)
  \/ StampSnapshot(a, NowVal)
  \/ TLock(a) \/ DLock(a)
  \/ \E n \in DOMAIN metas \cup {NoName} : Validate(a, n)
  \/ StampUpdate(a, NowVal)
  \/ \E n \in DOMAIN metas \cup {NoName, hint.name} : ReadVersion(a, n)
  \/ ReadEtag(a)
  \/ WriteMeta(a, MName(a))
  \/ Fence(a) \/ FlipHint(a) \/ DUnlock(a) \/ TUnlock(a) \/ Backoff(a)
  \/ ("after" \in FaultKinds /\ AfterMetaWriteFail(a))
  \/ ("locktimeout" \in FaultKinds /\ lockHolder \notin {"none", a} /\ LockTimeout(a))
  \/ \E f \in loc[a].marks : DeleteMarker(a, f) \/ RollbackDeleteMarker(a, f)
  \/ \E f \in SeqToSet(loc[a].files) : RollbackDeleteData(a, f)
  \/ ReturnOk(a) \/ ReturnErr(a) \/ Finish(a) \/ Heartbeat(a) \/ DiscardMeta(a)
  \/ CreateNext(a)
  \/ \E k \in FaultKinds : Fault(a, k)
  \/ \E f \in loc[a].marks : SkipMarker(a, f)
  \/ \E f \in SeqToSet(loc[a].files) : SkipRollbackData(a, f)
  \/ \E n \in DOMAIN metas : DsResolve(a, n)

ReaderNext(a) ==
  \/ \E n \in DOMAIN metas : RBegin(a, n)
  \/ RReadList(a) \/ RReadManifest(a)
  \/ \E f \in loc[a].rfiles : RReadData(a, f)
  \/ RReturn(a)
  \/ ("before" \in FaultKinds /\ RFault(a))

OlderCommitted == {commitLog[k].name : k \in 1..(Len(commitLog) - 1)} \cup (IF Len(commitLog) > 0 /\ InitTable # "absent" THEN {InitName(InitSnaps)} ELSE {})
DamageNext ==
  /\ faults > 0
  /\ faults' = faults - 1
  /\ \A a \in Actors : pc[a] \in {"idle", "dead"}
  /\ \E k \in DamageKinds :
       \/ k \in {"missing", "garbage"} /\ hint.cls # k /\ DamageHintB(k, NoName)
       \/ k = "dangling" /\ DamageHintB("name", [v |-> 99, u |-> 99])
       \/ k = "danglinglow" /\ DamageHintB("name", [v |-> 0, u |-> 99])      \* e.g. the legacy form "0": names a missing file, LOWER than the latest
       \/ k = "stale" /\ \E n \in OlderCommitted : DamageHintB("name", n)

Next ==
  \/ DamageNext
  \/ \E a \in Actors : AtResolvePoint(a) /\ SeeHintUnusable(a)
  \/ CrashOK /\ \E a \in Committers : Crash(a)
  \/ \E a \in Committers : CommitterNext(a)
  \/ \E a \in Readers : ReaderNext(a)
  \/ \E a \in Collectors : CollectorNext(a)
  \/ Tick

Spec == Init /\ [][Next]_vars

AllDone == \A a \in Actors : pc[a] = "idle" /\ opi[a] > Len(Prog[a])

(***************************************************************************)
(* Properties.                                                             *)
(***************************************************************************)
CurBody == ResolvedBody

\* What the table on storage *is*: retained snapshot ids in list order, current id, files of current.
Observed ==
  LET b == CurBody IN
  [files |-> IF b.cur = 0 \/ ~HasSnap(b, b.cur) THEN {} ELSE FilesOfList(SnapOf(b, b.cur).list),
   snaps |-> [j \in 1..Len(b.snaps) |-> b.snaps[j].id],
   cur   |-> b.cur]

\* C01: the table equals the acknowledged history applied in pointer order (evaluated whenever no
\* commit is between its pointer flip and ... in every state: the pointer flip is atomic).
\* While the pointer is lost or damaged, resolution falls back to scanning the metadata files, and a
\* version becomes visible when its FILE is written, i.e. between WriteMeta and FlipHint of a commit in
\* flight; in that window (only) the comparison is suspended.  A version left behind by a commit that
\* FAILED is not exempt: it must not be what the table resolves to (C10).
CommitInFlight == \E a \in Actors : pc[a] \in {"c_fence", "c_flip", "k_whint", "c_discard"}
Serializable == (HintedName # NoName \/ ~CommitInFlight) => Observed = serial

\* C01: the retained chain is linear with strictly increasing sequence numbers <= lastSeq
LinearChain ==
  LET b == CurBody IN
  /\ \A i, j \in 1..Len(b.snaps) : i < j => b.snaps[i].seq < b.snaps[j].seq
  /\ \A i \in 1..Len(b.snaps) : b.snaps[i].seq <= b.lastSeq
  /\ \A i \in 1..Len(b.snaps) : b.snaps[i].parent = 0 \/ \E j \in 1..Len(b.snaps) : j < i /\ b.snaps[j].id = b.snaps[i].parent
  /\ b.cur = 0 \/ HasSnap(b, b.cur)

\* C01/C04: every acknowledged operation is in the commit log exactly once; every raised one never.
CountIn(a, i) == Cardinality({k \in 1..Len(commitLog) : commitLog[k].a = a /\ commitLog[k].i = i})
AckedOnce ==
  \A a \in Committers : \A i \in 1..Len(outcomes[a]) :
     /\ outcomes[a][i] = "ok" => (IF Prog[a][i].t = "create" THEN CountIn(a, i) <= 1 ELSE CountIn(a, i) = 1)
     /\ outcomes[a][i] \in {"cme", "error", "false"} => CountIn(a, i) = 0
     /\ outcomes[a][i] \in {"ambiguous", "interrupted"} => CountIn(a, i) <= 1
NoDoubleCommit == \A a \in Committers : \A i \in 1..Len(Prog[a]) : CountIn(a, i) <= 1

\* C03-C07, C09: everything reachable from the committed metadata exists.
Reachable(b) ==
  LET ls == {b.snaps[j].list : j \in 1..Len(b.snaps)}
      ms == UNION {SeqToSet(lists[l]) : l \in ls \cap DOMAIN lists}
      ds == UNION {{e.file : e \in mans[m]} : m \in ms \cap DOMAIN mans}
  IN ls \cup ms \cup ds
ReachablePresent == Reachable(CurBody) \subseteq present

\* C08 (action property): a successful flip replaces exactly the version the committer validated
FlipReplacesValidated ==
  \A k \in 1..Len(commitLog) : \/ commitLog[k].replaced = commitLog[k].validated
                                \/ commitLog[k].validated = NoName
                                \/ commitLog[k].replaced = NoName          \* there was no (parseable) pointer to replace

\* C18: exactly one initialisation takes effect: every metadata version that was ever current carries one
\* table identity, and it is the initial table's identity when a table existed at the start
\* every caller of create/open ends up on one and the same table, a pre-existing table keeps its identity,
\* and once everybody is done the resolvable table is that one
SingleInit ==
  \* with a lock that excludes, nobody is ever - not even transiently - on another table than the others;
  \* with a lock that grants everyone (CAS decides the pointer) a caller may transiently resolve a
  \* creator's not-yet-published v0 by scanning, but everybody converges on one table
  /\ LockKind # "none" => Cardinality(joined \cup (IF InitTable = "absent" THEN {} ELSE {UUID0})) <= 1
  /\ 0 \notin joined
  /\ (joined # {} /\ \A a \in Actors : pc[a] = "idle") =>
        /\ ResolvedBody.uuid \in joined
        /\ InitTable # "absent" => ResolvedBody.uuid = UUID0
\* an existing table is never re-initialised: its committed snapshots stay reachable from whatever is current
NeverReinitialised ==
  InitTable # "absent" => \A k \in 1..Len(commitLog) : commitLog[k].op # "create"

\* C10: whatever the pointer file contains, a table opened while nothing is in flight resolves to the
\* latest COMMITTED metadata version
LatestCommittedName ==
  IF Len(commitLog) = 0 THEN (IF InitTable = "absent" THEN NoName ELSE InitName(InitSnaps))
  ELSE commitLog[Len(commitLog)].name
ResolveLatestCommitted == ~CommitInFlight => \A n \in DOMAIN metas \cup {NoName} : CanResolve(n) => n = LatestCommittedName

\* C08: a committer whose lock was taken over before it passed the fence never commits that attempt
LostLockNeverAcks == \A k \in 1..Len(commitLog) : ~commitLog[k].lost

\* C02: a read returns the file set of one snapshot that was current between its start and end
CommittedCurFiles(k) ==   \* files of the current snapshot after k commits (k = 0: initial table)
  LET b == IF k = 0 THEN initBody ELSE metas[commitLog[k].name] IN
  IF b.cur = 0 THEN {} ELSE FilesOfList(SnapOf(b, b.cur).list)
ReadIsSnapshot ==
  \A i \in 1..Len(reads) : reads[i].err = "none" =>
     \E k \in reads[i].from..reads[i].to : reads[i].files = CommittedCurFiles(k)
ReadsNeverFail == \A i \in 1..Len(reads) : reads[i].err = "none"

\* C02: reads through one handle never move backwards in commit order
ReadsMonotone ==
  \A i, j \in 1..Len(reads) : (i < j /\ Handle[reads[i].a] = Handle[reads[j].a] /\ reads[i].err = "none" /\ reads[j].err = "none") =>
     \E k1 \in reads[i].from..reads[i].to, k2 \in reads[j].from..reads[j].to :
        k1 <= k2 /\ reads[i].files = CommittedCurFiles(k1) /\ reads[j].files = CommittedCurFiles(k2)

\* uncommitted files of a finished transaction never stay reachable / committed files are never deleted
NoLiveDelete == \A d \in deleted : d.f \notin Reachable(CurBody)

\* C05/C06: what a collector deleted is not referenced by any metadata version that was ever committed
\* (before, during or after the run) - evaluated in every state against the whole commit log
\* the metadata version that was current after k commits (k = 0: the initial table)
BodyAfter(k) == IF k = 0 THEN initBody ELSE metas[commitLog[k].name]
OnlyOrphansDeleted ==
  \A d \in deleted : d.by \in Collectors =>
     \A k \in d.at..Len(commitLog) : LET r == ReachOf(BodyAfter(k)) IN d.f \notin (r.lists \cup r.mans \cup r.data)
\* every file written (and marker-registered) by a transaction that has not finished still exists
InflightPresent ==
  \A a \in Committers : pc[a] \notin {"idle", "rollback", "raise_keep"} =>
     (SeqToSet(loc[a].files) \cup loc[a].newFiles) \subseteq present

\* C07: a collection that raised deleted nothing
AbortDeletesNothing ==
  \A d \in deleted : d.by \in Collectors =>
     (d.i <= Len(outcomes[d.by]) => outcomes[d.by][d.i] # "aborted")
     /\ (d.i = opi[d.by] => (pc[d.by] # "g_abort" /\ ~loc[d.by].esc))

\* C04: an ambiguous outcome deletes nothing the transaction wrote
NoDeleteOnAmbiguous ==
  \A d \in deleted : d.by \in Committers =>
     (d.i <= Len(outcomes[d.by]) => outcomes[d.by][d.i] # "ambiguous")

TypeOK ==
  /\ hint.cls \in {"name", "missing", "garbage"}
  /\ lockHolder \in Actors \cup {"none"}
=============================================================================
