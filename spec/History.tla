------------------------------ MODULE History ------------------------------
(***************************************************************************)
(* Sequential histories of one DataShard table (properties C15, C09 and    *)
(* the sequential garbage-collection part of C05).                         *)
(*                                                                         *)
(* A history is a sequence of operations; every operation is TOTAL (an     *)
(* operation that does not apply - e.g. delete_snapshot of an id that does *)
(* not exist - is a no-op exactly as in the library), so the set of        *)
(* histories is Alphabet^n and `Step` is a pure function state x op ->     *)
(* state.  All metadata construction is done by the transcriptions of      *)
(* Metadata.tla; this module adds the storage around them (manifest and    *)
(* list files, data files, in-flight markers, file ages, a logical clock   *)
(* the history controls) and the GHOST needed to state the properties:     *)
(* the full commit history and, for every snapshot, a frozen copy of the   *)
(* manifests it was committed with.                                        *)
(*                                                                         *)
(* Time is in milliseconds from an arbitrary base.  Consecutive commits    *)
(* without a "tick" in between carry EQUAL timestamps.  The clock never    *)
(* decreases unless the alphabet contains a negative tick (used only for   *)
(* the C15 retention run; C09 assumes a non-decreasing clock).             *)
(***************************************************************************)
EXTENDS Metadata, TLC

CONSTANTS Flaw    \* "none" = the code as it is.  Anything else is a deliberately broken MODEL
                  \* variant used as anti-vacuity companion (the named invariant must FAIL):
                  \*   "inplace"        partial delete rewrites the manifest under the OLD id
                  \*   "gc_current"     collector walks only the current snapshot
                  \*   "no_repoint"     expiry does not repoint parents
                  \*   "bytime_first"   timestamp lookup returns the FIRST snapshot with ts >= t
                  \*   "recent_oldest"  deleting the current snapshot repoints to the OLDEST survivor
                  \*   "gc_no_grace"    collector ignores the grace period's sign (deletes young orphans, keeps old)

GraceDefault    == 3600000       \* transaction.py:873 / garbage_collector.py:56
GraceLarge      == 36000000
InflightTimeout == 86400000      \* garbage_collector.py:31
TickBig         == 7200000       \* 2 h: older than the default grace, younger than the large one
T0              == 100           \* initial clock (> 0 so that a history with a few negative ticks keeps every
                                 \* cutoff distinct from the NoCutoff sentinel -1)

(* ------------------------------ state ------------------------------ *)
\* st = [meta, metaName, nMeta, nSnap, nFile, manifests, lists, disk, markers, open, clock,
\*       ghost, frozen, len, lastOp, res, prev, tx, gc]
\*   manifests : sequence, manifest id -> entries          (write-once store, ids 1,2,..)
\*   lists     : sequence, list id -> sequence of manifest ids
\*   disk      : set of [k \in {"d","m","l"}, id, mt]      files present + modification time
\*   markers   : set of [k, id, mt]                        in-flight markers present
\*   open      : sequence of open transactions [files |-> sequence of data files]
\*   frozen    : ghost, sequence parallel to ghost.commits: [id, list, mans: sequence of [id, entries]]
\*   prev, tx, gc, res, lastOp : what the last step did (for the step invariants)

NoTx == [kind |-> "none"]
NoGc == [ran |-> FALSE, aborted |-> FALSE, deleted |-> {}, grace |-> 0]

InitState ==
  [meta |-> InitMeta(1, T0, 1), metaName |-> 1, nMeta |-> 1, nSnap |-> 0, nFile |-> 0,
   manifests |-> <<>>, lists |-> <<>>, disk |-> {}, markers |-> {}, open |-> <<>>, clock |-> T0,
   ghost |-> EmptyGhost, frozen |-> <<>>, len |-> 0,
   lastOp |-> [op |-> "init"], res |-> "ok", prev |-> InitMeta(1, T0, 1), tx |-> NoTx, gc |-> NoGc]

OnDisk(st, k, id) == \E x \in st.disk : x.k = k /\ x.id = id
Key(x) == <<x.k, x.id>>

\* manifests (with entries) of a manifest list
Expand(st, listId) ==
  [i \in 1..Len(st.lists[listId]) |->
     [id |-> st.lists[listId][i], entries |-> st.manifests[st.lists[listId][i]]]]

\* transaction.py:491-525: manifests of the base's current snapshot (none for an empty table)
BaseManifests(st) ==
  IF st.meta.cur = NoSnap \/ ~HasSnap(st.meta.snaps, st.meta.cur) THEN <<>>
  ELSE Expand(st, SnapById(st.meta.snaps, st.meta.cur).list)

\* the data files of the current snapshot, in manifest / entry order
RECURSIVE Flatten(_)
Flatten(ms) == IF ms = <<>> THEN <<>> ELSE [i \in 1..Len(ms[1].entries) |-> ms[1].entries[i].file] \o Flatten(Tail(ms))
LiveFiles(st) == Flatten(BaseManifests(st))

FreshManifestIds(st) == [i \in 1..16 |-> Len(st.manifests) + i]

(* ---- metadata_manager.py:136-251 commit(base, new) in a sequential history ---- *)
\* Validate(base, current) is "ok" by construction (base = current).
Publish(st, draft) ==
  LET new == AppendMetadataLog(StampCommitMono(draft, st.meta, st.clock), st.meta, st.metaName)   \* :188-191, :216-219
  IN [st EXCEPT !.prev = st.meta, !.meta = new,
                !.metaName = st.nMeta + 1, !.nMeta = st.nMeta + 1,                   \* :225-227, :240
                !.ghost = GhostSupersede(st.ghost, st.metaName)]

(* ---- model flaws (anti-vacuity only) ---- *)
ExpireNoRepoint(m, cutoff) ==
  LET kept == SelectSeq(m.snaps, LAMBDA s : s.ts >= cutoff \/ s.id = m.cur)
  IN [m EXCEPT !.snaps = kept, !.slog = SelectSeq(m.slog, LAMBDA e : e \in SnapIds(kept))]
ExpireUsed(m, cutoff) == IF Flaw = "no_repoint" THEN ExpireNoRepoint(m, cutoff) ELSE ExpireOnly(m, cutoff)

ByTimestampUsed(m, t) ==
  IF Flaw = "bytime_first"
  THEN LET hits == {i \in 1..Len(m.snaps) : m.snaps[i].ts >= t}
       IN IF hits = {} THEN NoSnap ELSE m.snaps[SetMinInt(hits)].id
  ELSE ByTimestamp(m, t)

DeleteSnapshotUsed(m, sid) ==
  LET d == DeleteSnapshot(m, sid) IN
  IF Flaw = "recent_oldest" /\ m.cur = sid /\ d.snaps # <<>> THEN [d EXCEPT !.cur = d.snaps[1].id] ELSE d

(* ---- Transaction.commit (transaction.py:355-468) for one transaction ---- *)
\* appends : sequence of data files already written by append_data (on disk, with markers)
\* deletes : set of data files named by delete_files;  cutoff : folded expire cutoff or NoCutoff
TxCommit(st, appends, deletes, cutoff) ==
  IF ~IsFileOp(appends, deletes)
  THEN \* :417-423 metadata-only transaction
       [Publish(st, IF cutoff # NoCutoff THEN ExpireUsed(st.meta, cutoff) ELSE st.meta)
          EXCEPT !.tx = [kind |-> "meta", cutoff |-> cutoff]]
  ELSE
  LET sid  == st.nSnap + 1                                   \* :481
      seq  == NextSeq(st.meta)                               \* :485
      bm   == BaseManifests(st)                              \* :491-525
      fo   == FileOps(bm, appends, deletes, sid, seq, FreshManifestIds(st))   \* :527-579
      \* flaw "inplace": a partially deleted manifest is rewritten under its OLD id
      partial == SelectSeq(bm, LAMBDA b : LET n == Cardinality({i \in 1..Len(b.entries) : b.entries[i].file \in deletes})
                                          IN n > 0 /\ n < Len(b.entries))
      nRew == Len(partial)
      store0 == st.manifests \o [i \in 1..Len(fo.written) |-> fo.written[i].entries]
      store == IF Flaw = "inplace"
               THEN [id \in 1..Len(store0) |->
                       IF \E j \in 1..nRew : partial[j].id = id
                       THEN fo.written[CHOOSE j \in 1..nRew : partial[j].id = id].entries ELSE store0[id]]
               ELSE store0
      newList == IF Flaw = "inplace"
                 THEN [i \in 1..Len(fo.list) |->
                         IF \E j \in 1..nRew : fo.written[j].id = fo.list[i]
                         THEN partial[CHOOSE j \in 1..nRew : fo.written[j].id = fo.list[i]].id ELSE fo.list[i]]
                 ELSE fo.list
      listId == Len(st.lists) + 1                            \* :582-584
      draft  == NewSnapshot(st.meta, sid, seq, st.clock, listId, cutoff)      \* :587-599
      snapRec == [id |-> sid, parent |-> st.meta.cur, seq |-> seq, ts |-> st.clock, list |-> listId]
      st1 == [st EXCEPT !.manifests = store, !.lists = Append(st.lists, newList), !.nSnap = sid,
                        !.disk = st.disk \cup {[k |-> "m", id |-> fo.written[i].id, mt |-> st.clock] : i \in 1..Len(fo.written)}
                                         \cup {[k |-> "l", id |-> listId, mt |-> st.clock]}]
      st2 == Publish(st1, draft)
      mans == Expand(st2, listId)
  IN [st2 EXCEPT !.ghost  = GhostCommit(st2.ghost, snapRec),
                 !.frozen = Append(st.frozen, [id |-> sid, list |-> listId, mans |-> mans]),
                 !.tx = [kind |-> "snapshot", base |-> bm, new |-> mans, appends |-> appends,
                         deletes |-> deletes, sid |-> sid, seq |-> seq, cutoff |-> cutoff]]

\* append_data (transaction.py:228-302) n times: marker first, then the data file
NewFiles(st, n) == [i \in 1..n |-> st.nFile + i]
WriteData(st, n) ==
  [st EXCEPT !.nFile = st.nFile + n,
             !.disk = st.disk \cup {[k |-> "d", id |-> st.nFile + i, mt |-> st.clock] : i \in 1..n}]

(* ---- selectors (relative to the state, so that every op is total) ---- *)
SelFiles(st, sel) ==
  LET live == LiveFiles(st) IN
  CASE sel = "none"   -> {}
    [] sel = "first"  -> IF live = <<>> THEN {} ELSE {live[1]}
    [] sel = "last"   -> IF live = <<>> THEN {} ELSE {live[Len(live)]}
    [] sel = "absent" -> {0}                   \* a path that never existed in the table
SelCutoff(st, cut) ==
  CASE cut = "none" -> NoCutoff
    [] cut = "all"  -> st.clock + 1            \* everything but the current snapshot
    [] cut = "old"  -> st.clock                \* everything stamped before the current millisecond
SelSnap(st, which) ==
  LET s == st.meta.snaps IN
  CASE which = "oldest"  -> IF Len(s) >= 1 THEN s[1].id ELSE NoSnap
    [] which = "second"  -> IF Len(s) >= 2 THEN s[2].id ELSE NoSnap
    [] which = "current" -> st.meta.cur

(* ---- garbage_collector.py:54-177 collect(grace)  (tree at commit 526391b) ---- *)
\* Order of the code: (0) in-flight markers are loaded - and abandoned ones swept - BEFORE the
\* metadata is read (:85, :179-228); (1-2) reachability from ALL retained snapshots, any missing /
\* unreadable list or manifest aborts (:88-144); (4) BOTH directories are listed and classified
\* before the first delete (:156-157, :254-282); then data/ is swept, then metadata/manifests/,
\* each with its own cutoff read at the start of the sweep (:160-174, :284-313).
\* Path comparison keys (_normalize_listed_path / _reference_keys / _existing_reference, :321-358)
\* are the identity on the abstract file ids used here (the spelling question is C05's PathRes part).
Collect(st, g) ==
  LET fresh    == {mk \in st.markers : mk.mt >= st.clock - InflightTimeout}          \* :188, :204, :214-226
      prot     == {Key(mk) : mk \in fresh}                                           \* :212-215, :230-252
      snaps    == IF Flaw = "gc_current"
                  THEN SelectSeq(st.meta.snaps, LAMBDA s : s.id = st.meta.cur) ELSE st.meta.snaps
      rLists   == {snaps[i].list : i \in 1..Len(snaps)}                              \* :104-108
      rMans    == UNION {SeqRange(st.lists[l]) : l \in rLists}                       \* :112-128
      rData    == UNION {{e.file : e \in SeqRange(st.manifests[m])} : m \in rMans}   \* :131-144
      aborted  == \/ \E l \in rLists : ~OnDisk(st, "l", l)                           \* :114-123
                  \/ \E m \in rMans  : ~OnDisk(st, "m", m)                           \* :133-142
      cut      == st.clock - g                                                       \* :293 (same clock value for both sweeps)
      old(x)   == IF Flaw = "gc_no_grace" THEN x.mt > cut ELSE x.mt < cut            \* :299
      reach(x) == CASE x.k = "d" -> x.id \in rData [] x.k = "m" -> x.id \in rMans [] x.k = "l" -> x.id \in rLists
      dead     == {x \in st.disk : ~reach(x) /\ Key(x) \notin prot /\ old(x)}        \* :160-174, :295-309
  IN IF aborted   \* abandoned markers have already been swept when the abort is raised
     THEN [st EXCEPT !.markers = fresh, !.gc = [ran |-> TRUE, aborted |-> TRUE, deleted |-> {}, grace |-> g]]
     ELSE [st EXCEPT !.disk = st.disk \ dead, !.markers = fresh,
                     !.gc = [ran |-> TRUE, aborted |-> FALSE, deleted |-> {Key(x) : x \in dead}, grace |-> g]]

(* ------------------------------ Step ------------------------------ *)
Reset(st, op) == [st EXCEPT !.lastOp = op, !.len = st.len + 1, !.res = "ok", !.prev = st.meta,
                            !.tx = NoTx, !.gc = NoGc]

Step(st0, op) ==
  LET st == Reset(st0, op) IN
  CASE op.op = "append" ->    \* one transaction, op.n append_data calls
         TxCommit(WriteData(st, op.n), NewFiles(st, op.n), {}, NoCutoff)
    [] op.op = "delete" ->    \* one transaction with delete_files
         TxCommit(st, <<>>, SelFiles(st, op.sel), NoCutoff)
    [] op.op = "expire" ->    \* one transaction with expire_snapshots
         TxCommit(st, <<>>, {}, SelCutoff(st, op.cut))
    [] op.op = "multi" ->     \* append_data x n, delete_files, expire_snapshots, ONE commit
         TxCommit(WriteData(st, op.n), NewFiles(st, op.n), SelFiles(st, op.sel), SelCutoff(st, op.cut))
    [] op.op = "delsnap" ->   \* snapshot_manager.delete_snapshot
         LET sid == SelSnap(st, op.which) IN
         IF DeleteSnapshotApplies(st.meta, sid)
         THEN [Publish(st, DeleteSnapshotUsed(st.meta, sid)) EXCEPT !.tx = [kind |-> "delsnap", sid |-> sid]]
         ELSE [st EXCEPT !.res = "noop"]
    [] op.op = "retention" -> Publish(st, SetRetentionProp(st.meta, op.k))
    [] op.op = "mlogmax"   -> Publish(st, SetMlogMaxProp(st.meta, op.k))
    [] op.op = "fail" ->      \* an append whose pointer write fails: rolled back (transaction.py:450-453)
         LET w  == WriteData(st, 1)
             c  == TxCommit(w, NewFiles(st, 1), {}, NoCutoff)
         IN \* manifests, list and the new metadata file stay behind as orphans; the data file and all
            \* markers are removed by _rollback; nothing is committed
            [st EXCEPT !.nFile = w.nFile, !.nSnap = c.nSnap, !.nMeta = c.nMeta,
                       !.manifests = c.manifests, !.lists = c.lists,
                       !.disk = {x \in c.disk : ~(x.k = "d" /\ x.id = w.nFile)}, !.res = "failed"]
    [] op.op = "open" ->      \* begin + append_data, left uncommitted
         LET w == WriteData(st, 1) IN
         [w EXCEPT !.open = Append(st.open, [files |-> NewFiles(st, 1)]),
                   !.markers = st.markers \cup {[k |-> "d", id |-> w.nFile, mt |-> st.clock]}]
    [] op.op = "rollback" ->  \* rollback of the oldest open transaction (transaction.py:648-685)
         IF st.open = <<>> THEN [st EXCEPT !.res = "noop"]
         ELSE LET fs == SeqRange(st.open[1].files) IN
              [st EXCEPT !.open = Tail(st.open),
                         !.disk = {x \in st.disk : ~(x.k = "d" /\ x.id \in fs)},
                         !.markers = {mk \in st.markers : ~(mk.k = "d" /\ mk.id \in fs)}]
    [] op.op = "commitopen" -> \* commit of the oldest open transaction
         IF st.open = <<>> THEN [st EXCEPT !.res = "noop"]
         ELSE LET fs == st.open[1].files
                  s1 == [st EXCEPT !.open = Tail(st.open),
                                   !.markers = {mk \in st.markers : ~(mk.k = "d" /\ mk.id \in SeqRange(fs))}]
              IN TxCommit(s1, fs, {}, NoCutoff)
    [] op.op = "collect" -> Collect(st, op.g)
    [] op.op = "tick"    -> [st EXCEPT !.clock = st.clock + op.d]

(* ------------------------------ vocabulary ------------------------------ *)
Append1 == [op |-> "append", n |-> 1]
Append2 == [op |-> "append", n |-> 2]
Del(s)  == [op |-> "delete", sel |-> s]
Exp(c)  == [op |-> "expire", cut |-> c]
Multi(n, s, c) == [op |-> "multi", n |-> n, sel |-> s, cut |-> c]
DelSnap(w) == [op |-> "delsnap", which |-> w]
Ret(k)  == [op |-> "retention", k |-> k]
Mlog(k) == [op |-> "mlogmax", k |-> k]
Tick(d) == [op |-> "tick", d |-> d]
Coll(g) == [op |-> "collect", g |-> g]
Fail    == [op |-> "fail"]
Open    == [op |-> "open"]
Rollback == [op |-> "rollback"]
CommitOpen == [op |-> "commitopen"]

AlphaC15 == {Append1, Append2, Multi(1, "first", "all"), Multi(1, "last", "none"), Multi(0, "first", "old"),
             Del("first"), Del("last"), Del("absent"), Exp("all"), Exp("old"),
             DelSnap("oldest"), DelSnap("current"), DelSnap("second"),
             Ret(1), Ret(2), Mlog(1), Mlog(2), Tick(1)}
AlphaC09 == {Append1, Append2, Del("first"), Del("last"), Exp("all"), Exp("old"),
             DelSnap("oldest"), DelSnap("current"), DelSnap("second"),
             Coll(0), Coll(GraceDefault), Fail, Ret(1), Tick(1), Tick(TickBig)}
AlphaGC  == {Append1, Append2, Del("first"), Exp("all"), DelSnap("oldest"), DelSnap("current"),
             Open, Rollback, CommitOpen, Fail,
             Coll(0), Coll(GraceDefault), Coll(GraceLarge), Tick(1), Tick(TickBig)}


(***************************************************************************)
(*                            INVARIANTS                                   *)
(***************************************************************************)
FrozenOf(st, sid) == st.frozen[CHOOSE i \in 1..Len(st.frozen) : st.frozen[i].id = sid]

(* ---- C15 ---- *)
InvWellFormed(st) == WellFormed(st.meta, st.ghost)
\* an expiry never removes the snapshot that is current after the commit and (retention aside)
\* removes only snapshots older than the cutoff
ExpireStepOk(st) ==
  LET c == IF st.tx.kind \in {"snapshot", "meta"} THEN st.tx.cutoff ELSE NoCutoff IN
  c # NoCutoff =>
     /\ st.tx.kind = "meta" => st.meta.cur = st.prev.cur
     /\ st.meta.cur = NoSnap \/ st.meta.cur \in SnapIds(st.meta.snaps)
     /\ (st.tx.kind = "meta" \/ st.meta.retention < 1) =>
           \A i \in 1..Len(st.prev.snaps) :
              st.prev.snaps[i].ts >= c => st.prev.snaps[i].id \in SnapIds(st.meta.snaps)
InvStep(st) ==
  /\ WellFormedStep(st.prev, st.meta)
  /\ st.tx.kind = "snapshot" =>
        FileOpsCorrect(st.tx.base, st.tx.new, st.tx.appends, st.tx.deletes, st.tx.sid, st.tx.seq)
  /\ ExpireStepOk(st)
\* the metadata log names versions that exist (metadata files are never deleted by the library)
InvMetaLogExists(st) == \A i \in 1..Len(st.meta.mlog) : st.meta.mlog[i] \in 1..st.nMeta

(* ---- C09 ---- *)
\* every retained snapshot is readable with exactly the content it was committed with
SnapshotIntact(st, s) ==
  /\ Committed(st.ghost, s.id)
  /\ LET fr == FrozenOf(st, s.id) IN
     /\ s.list = fr.list /\ OnDisk(st, "l", s.list)
     /\ st.lists[s.list] = [i \in 1..Len(fr.mans) |-> fr.mans[i].id]
     /\ \A i \in 1..Len(fr.mans) :
          /\ OnDisk(st, "m", fr.mans[i].id)
          /\ st.manifests[fr.mans[i].id] = fr.mans[i].entries
          /\ \A j \in 1..Len(fr.mans[i].entries) : OnDisk(st, "d", fr.mans[i].entries[j].file)
InvRetainedImmutable(st) ==
  /\ SnapshotUnchanged(st.meta, st.ghost)
  /\ \A i \in 1..Len(st.meta.snaps) : SnapshotIntact(st, st.meta.snaps[i])
  /\ \A i \in 1..Len(st.meta.snaps) : ById(st.meta, st.meta.snaps[i].id) = st.meta.snaps[i].id

\* lookup by timestamp = the most recently COMMITTED retained snapshot not newer than t,
\* for every t at, between and around every commit time
ProbeTimes(st) == {-1} \cup UNION {{s.ts - 1, s.ts, s.ts + 1} : s \in SeqRange(st.ghost.commits)} \cup {st.clock, st.clock + 1}
InvByTimestamp(st) ==
  \A t \in ProbeTimes(st) : ByTimestampUsed(st.meta, t) = RefByTimestamp(st.meta, st.ghost, t)

InvDeleteCurrentRepoints(st) ==
  (st.tx.kind = "delsnap" /\ st.prev.cur = st.tx.sid) =>
     st.meta.cur = RefAfterDeleteCurrent(st.prev, st.ghost, st.tx.sid)

(* ---- C05, sequential part ---- *)
RefReachable(st) ==       \* from the frozen commit-time content of every retained snapshot
  UNION {LET fr == FrozenOf(st, st.meta.snaps[i].id) IN
           {<<"l", fr.list>>} \cup {<<"m", fr.mans[j].id>> : j \in 1..Len(fr.mans)}
           \cup UNION {{<<"d", e.file>> : e \in SeqRange(fr.mans[j].entries)} : j \in 1..Len(fr.mans)}
         : i \in 1..Len(st.meta.snaps)}
InFlight(st) == UNION {{<<"d", f>> : f \in SeqRange(st.open[i].files)} : i \in 1..Len(st.open)}

InvGCKeepsReachable(st) ==
  /\ st.gc.ran => st.gc.deleted \cap (RefReachable(st) \cup InFlight(st)) = {}
  /\ \A key \in RefReachable(st) \cup InFlight(st) : OnDisk(st, key[1], key[2])
InvGCRemovesOldOrphans(st) ==
  (st.gc.ran /\ ~st.gc.aborted) =>
     \A x \in st.disk : Key(x) \in RefReachable(st) \cup InFlight(st) \/ st.clock - x.mt <= st.gc.grace
=============================================================================
