----------------------------- MODULE MC_Storage -----------------------------
(***************************************************************************)
(* State machine over Storage.tla: the reference store, the local model    *)
(* and the S3 model receive the same mutating operations (write/delete,    *)
(* every path spelling); in every reachable state EVERY query (read,       *)
(* exists, size, mtime over all path spellings; list over all directory    *)
(* spellings) is evaluated on all three.  Because queries do not change    *)
(* the state, this covers every operation sequence with at most MaxOps     *)
(* mutations and arbitrarily many interleaved queries.                     *)
(*                                                                         *)
(* `hist` (the witness sequence of mutations that produced the state) is   *)
(* excluded from the VIEW; ExportInv prints one JSON line per distinct     *)
(* state: the replayable sequence and the expected result of every query.  *)
(***************************************************************************)
EXTENDS Storage, SequencesExt, Json

CONSTANTS Contents,     \* strings; Len = size in bytes
          Dirs,         \* directory spellings probed by list
          MaxOps,       \* bound on the number of mutations
          ProbeDirs,    \* TRUE: also probe exists() on bare directory names (documented limit: must FAIL)
          DoExport      \* TRUE: print one JSON record per distinct state

VARIABLES ref, loc, s3, now, hist

vars == <<ref, loc, s3, now, hist>>
View == <<ref, loc, s3, now>>

Paths == Keys \cup {"/" \o k : k \in Keys}

Init ==
  /\ ref = [k \in Keys |-> Absent]
  /\ loc = [files |-> [k \in Keys |-> Absent], dirs |-> {}]
  /\ s3  = [k \in FullKeys |-> Absent]
  /\ now = 0
  /\ hist = <<>>

Write(p, c) ==
  /\ now < MaxOps
  /\ now' = now + 1
  /\ ref' = RefWrite(ref, p, c, now + 1)
  /\ loc' = LocalWrite(loc, p, c, now + 1)
  /\ s3'  = S3Write(s3, p, c, now + 1)
  /\ hist' = Append(hist, [op |-> "write", p |-> p, c |-> c])

Delete(p) ==
  /\ now < MaxOps
  /\ now' = now + 1
  /\ ref' = RefDelete(ref, p)
  /\ loc' = LocalDelete(loc, p)
  /\ s3'  = S3Delete(s3, p)
  /\ hist' = Append(hist, [op |-> "delete", p |-> p, c |-> ""])

Next == \/ \E p \in Paths, c \in Contents : Write(p, c)
        \/ \E p \in Paths : Delete(p)

Spec == Init /\ [][Next]_vars

(* ------------------------------ queries ------------------------------ *)
PathOps == {"read", "exists", "size", "mtime"}
Queries == {[op |-> o, p |-> p] : o \in PathOps, p \in Paths}
      \cup {[op |-> "list", p |-> d] : d \in Dirs}
      \cup (IF ProbeDirs THEN {[op |-> "exists", p |-> d] : d \in AllDirs} ELSE {})

RefQ(q) == CASE q.op = "read"   -> RefRead(ref, q.p)
             [] q.op = "exists" -> [r |-> "ok", b |-> RefExists(ref, q.p)]
             [] q.op = "size"   -> RefSize(ref, q.p)
             [] q.op = "mtime"  -> RefMtime(ref, q.p)
             [] q.op = "list"   -> [r |-> "ok", s |-> RefList(ref, q.p)]
LocalQ(q) == CASE q.op = "read"   -> LocalRead(loc, q.p)
               [] q.op = "exists" -> [r |-> "ok", b |-> LocalExists(loc, q.p)]
               [] q.op = "size"   -> LocalSize(loc, q.p)
               [] q.op = "mtime"  -> LocalMtime(loc, q.p)
               [] q.op = "list"   -> [r |-> "ok", s |-> LocalList(loc, q.p)]
S3Q(q) == CASE q.op = "read"   -> S3Read(s3, q.p)
            [] q.op = "exists" -> [r |-> "ok", b |-> S3Exists(s3, q.p)]
            [] q.op = "size"   -> S3Size(s3, q.p)
            [] q.op = "mtime"  -> S3Mtime(s3, q.p)
            [] q.op = "list"   -> [r |-> "ok", s |-> S3List(s3, q.p)]

Agree(q) == LocalQ(q) = RefQ(q) /\ S3Q(q) = RefQ(q)

(* C20, storage clause: both backends return the reference result for every query. *)
BackendsAgree == \A q \in Queries : Agree(q)

(* Mutations keep the three stores in lockstep (same contents, same mtimes, same key set). *)
Lockstep == /\ \A k \in Keys : loc.files[k] = ref[k] /\ s3[S3Key(k)] = ref[k]
            /\ loc.dirs = UNION {Ancestors(k) : k \in {kk \in Keys : \E i \in 1..Len(hist) :
                                     hist[i].op = "write" /\ KeyOf(hist[i].p) = kk}}

(* The former code (S3ListRaw = TRUE) deviates ONLY in the way finding                     *)
(* C20-s3-list-sibling-prefix describes: an S3 listing of directory d additionally         *)
(* returns keys whose name merely starts with the string d (siblings such as d2/.., dbase/..). *)
SiblingLeak(q) ==
  /\ q.op = "list"
  /\ LocalQ(q) = RefQ(q)
  /\ RefQ(q).s \subseteq S3Q(q).s
  /\ \A k \in S3Q(q).s \ RefQ(q).s : StartsWith(k, DirOf(q.p)) /\ ~StartsWith(k, DirOf(q.p) \o "/")
AgreeExceptSiblingLeak == \A q \in Queries : Agree(q) \/ SiblingLeak(q)

(* ------------------------------- export ------------------------------ *)
\* One JSON line per distinct state: the witness sequence, the default result per query kind and
\* every query whose reference result is not the default; `diff` lists the queries on which a
\* transcription deviates from the reference (with the transcription's result).
Val(q, x) == CASE q.op = "list"   -> x.s
               [] q.op = "exists" -> x.b
               [] q.op = "read"   -> x.c
               [] OTHER           -> x.n
Dflt == [read |-> <<"notfound", "">>, exists |-> <<"ok", FALSE>>, size |-> <<"notfound", 0>>,
         mtime |-> <<"notfound", 0>>, list |-> <<"ok", {}>>]
IsDflt(q, x) == <<x.r, Val(q, x)>> = Dflt[q.op]
QSeq == SetToSeq(Queries)
\* the complete query list (state-independent), exported once with the initial state
QueryList == [i \in 1..Len(QSeq) |-> <<QSeq[i].op, QSeq[i].p>>]
QRow(q)  == LET x == RefQ(q) IN <<q.op, q.p, x.r, Val(q, x)>>
DRow(q)  == LET l == LocalQ(q) s == S3Q(q) IN <<q.op, q.p, <<l.r, Val(q, l)>>, <<s.r, Val(q, s)>> >>
ExportInv == DoExport =>
  LET qs == QSeq
      nd == SelectSeq(qs, LAMBDA q : ~IsDflt(q, RefQ(q)))
      df == SelectSeq(qs, LAMBDA q : ~Agree(q))
  IN PrintT(ToJson([hist |-> hist, dflt |-> Dflt, ql |-> (IF now = 0 THEN QueryList ELSE <<>>),
                    q |-> [i \in 1..Len(nd) |-> QRow(nd[i])],
                    diff |-> [i \in 1..Len(df) |-> DRow(df[i])]]))
=============================================================================
