--------------------------- MODULE MC_RangeReader ---------------------------
(***************************************************************************)
(* All seek/read programs of at most MaxSteps operations over objects of   *)
(* the sizes in Sizes, with offsets and counts around the boundaries       *)
(* (0, 1, size-1, size, size+1 and their negatives).  The transcription    *)
(* (S3RangeFile) and the reference (local file) run side by side; the      *)
(* invariants compare every step.  `hist` carries the program together     *)
(* with the expected outcome of every step; with the VIEW (which drops     *)
(* hist but keeps the step count and the last step) every                  *)
(* (size, position, step count, operation) combination is exported once    *)
(* with a witness program.                                                 *)
(***************************************************************************)
EXTENDS RangeReader, Json

CONSTANTS Sizes, MaxSteps, DoExport

VARIABLES size, pos, rpos, steps, last, hist
vars == <<size, pos, rpos, steps, last, hist>>
View == <<size, pos, rpos, steps, last>>

Offs(sz) == {-(sz + 1), -sz, -1, 0, 1, sz - 1, sz, sz + 1}
Counts(sz) == {0, 1, 2, sz, sz + 1}
Ops(sz) == {[op |-> "seek", a |-> o, w |-> w] : o \in Offs(sz), w \in {0, 1, 2, 7}}
      \cup {[op |-> "read", a |-> n, w |-> 0] : n \in Counts(sz) \cup {-1}}
      \cup {[op |-> "readinto", a |-> n, w |-> 0] : n \in Counts(sz)}
      \cup {[op |-> "readall", a |-> 0, w |-> 0], [op |-> "tell", a |-> 0, w |-> 0]}

NoStep == [o |-> [op |-> "none", a |-> 0, w |-> 0], before |-> 0, ref |-> Out(FALSE, 0, 0, 0, 0, <<>>), rd |-> Out(FALSE, 0, 0, 0, 0, <<>>)]

Init == /\ size \in Sizes
        /\ pos = 0 /\ rpos = 0 /\ steps = 0
        /\ last = NoStep
        /\ hist = <<>>

Step(o) ==
  LET r == RefStep(size, rpos, o)
      d == RdStep(size, pos, o)
  IN /\ steps < MaxSteps
     /\ steps' = steps + 1
     /\ rpos' = r.pos
     /\ pos' = d.pos
     /\ last' = [o |-> o, before |-> pos, ref |-> r, rd |-> d]
     /\ hist' = Append(hist, [o |-> o, ref |-> r, rd |-> d])
     /\ UNCHANGED size

Next == \E o \in Ops(size) : Step(o)
Spec == Init /\ [][Next]_vars

(* C20 reader clause *)
ReaderAgrees   == SameObservable(last.ref, last.rd) /\ pos = rpos
RangesInBounds == InRange(size, last.rd.reqs)
NoWaste        == Frugal(last.ref, last.rd.reqs)
\* a seek whose target is negative raises and leaves the position where it was
NegativeSeekRaises ==
  LET target == CASE last.o.w = 0 -> last.o.a [] last.o.w = 1 -> last.before + last.o.a
                  [] last.o.w = 2 -> size + last.o.a [] OTHER -> 0
  IN (last.o.op = "seek" /\ last.o.w \in {0, 1, 2} /\ target < 0) => (last.rd.err /\ pos = last.before)

ExportInv == DoExport => PrintT(ToJson([size |-> size, prog |-> hist]))
=============================================================================
