-------------------------------- MODULE FLock --------------------------------
(***************************************************************************)
(* C19 (local part): the commit lock on a local filesystem.                *)
(*                                                                         *)
(* Transcription of /repo/src/datashard/file_lock.py                       *)
(*   FileLock.acquire             l.68-101  (monotonic deadline, 10 ms poll)*)
(*   FileLock._try_acquire_once   l.103-127 (open O_CREAT|O_RDWR; flock     *)
(*                                           LOCK_EX|LOCK_NB; close on fail)*)
(*   FileLock._try_acquire_excl_fallback l.129-151 (Mode = "excl": an       *)
(*                                           EXTENSION, not a C19 claim)    *)
(*   FileLock.release             l.153-187 (flock LOCK_UN; close; the file *)
(*                                           is never unlinked in fcntl     *)
(*                                           mode)                          *)
(* at syscall granularity, on top of a small model of the kernel:          *)
(*   the path names an INODE (dirent); open() creates an open file         *)
(*   DESCRIPTION on the inode the path names at that moment; flock locks   *)
(*   are keyed by inode and owned by the description; closing the          *)
(*   description or the death of its process releases them; unlink only    *)
(*   removes the name.  Lockers are FileLock instances; several lockers of *)
(*   one process (threads) have distinct descriptions, so they exclude     *)
(*   each other exactly like processes do.                                 *)
(*                                                                         *)
(* Flags: UnlinkOnRelease (a MUTANT: release also unlinks the lock file -  *)
(* MutualExclusion and NoUnlinkRace must then FAIL: anti-vacuity),         *)
(* BlockingFlock (a MUTANT: flock without LOCK_NB - TimeoutHonoured must   *)
(* FAIL), Mode "flock" | "excl".                                           *)
(*                                                                         *)
(* Reference semantics: operators of section "Reference" see only the      *)
(* interface events (acquire returned True / raised TimeoutError, release  *)
(* called / done, a process died, a clock read, a sleep) - never the       *)
(* kernel tables or the control points.                                    *)
(***************************************************************************)
EXTENDS Integers, FiniteSets, TLC

CONSTANTS Lockers,          \* FileLock instances (strings)
          ProcOf,           \* locker -> its process
          Timeout,          \* FileLock.timeout in clock units
          StaleAge,         \* excl mode: timeout * _STALE_FACTOR
          MaxNow, MaxRounds,
          Mode,             \* "flock" | "excl"
          UnlinkOnRelease, BlockingFlock,
          AllowDie

VARIABLES dirent,    \* inode the lock path names (0 = no such file)
          born,      \* inode -> creation time (mtime of the fallback lock file); domain = inodes created so far
          fd,        \* locker -> inode of its open description (0 = none)
          locks,     \* set of <<inode, locker>>: the kernel's flock table
          now,
          pc, locked, deadline, rounds,
          holding,   \* ghost: lockers whose acquire() returned True and that have not called release() (and live)
          busy,      \* ghost: ... and whose release() has not returned yet
          dead,      \* ghost: lockers whose process died
          viol, chk  \* ghosts: broken reference rules; result of the last deadline check since the last attempt step

kvars == <<dirent, born, fd, locks>>
cvars == <<pc, locked, deadline, rounds>>
gvars == <<holding, busy, dead, viol, chk>>
vars == <<kvars, now, cvars, gvars>>

PCs == {"idle", "open", "flock", "fwait", "close", "check", "sleep", "stale", "stale_unlink", "held",
        "r_close", "r_unlink", "x_unlink", "dead"}

NextIno == Cardinality(DOMAIN born) + 1

TypeOK ==
  /\ dirent \in Nat /\ now \in Nat
  /\ fd \in [Lockers -> Nat]
  /\ locks \subseteq (Nat \X Lockers)
  /\ pc \in [Lockers -> PCs]
  /\ locked \in [Lockers -> BOOLEAN]
  /\ holding \subseteq Lockers /\ busy \subseteq Lockers /\ dead \subseteq Lockers

(***************************************************************************)
(* Reference                                                               *)
(***************************************************************************)
If(cond, name) == IF cond THEN {name} ELSE {}
AttemptSteps == {"acquire_call", "try_fail", "acquire_ok", "sleep"}

NextHolding(l, ev) == CASE ev = "acquire_ok" -> holding \cup {l}
                        [] ev = "release_call" -> holding \ {l}
                        [] OTHER -> holding
NextBusy(l, ev) == CASE ev = "acquire_ok" -> busy \cup {l}
                     [] ev = "release_done" -> busy \ {l}
                     [] OTHER -> busy

Broken(l, ev) ==
  \* acquire() returns True only when nobody else (alive) is between its acquire() = True and its release()
        If(ev = "acquire_ok" /\ (holding \ {l}) # {}, "MutualExclusion")
  \* an attempt is turned away only because of a LIVE locker that has the lock (a dead one never blocks anybody)
  \cup  If(ev = "try_fail" /\ (busy \ {l}) = {}, "DeathReleases")
  \* clock read before every sleep; past the deadline nothing but TimeoutError; never a wait without deadline
  \cup  If((ev = "sleep" /\ chk[l] # "ok") \/ (ev \in AttemptSteps \cup {"deadline_ok", "deadline_late"} /\ chk[l] = "late")
            \/ (ev = "deadline_ok" /\ now >= deadline[l]) \/ ev = "kernel_wait",
           "TimeoutHonoured")

NextChk(l, ev) ==
  CASE ev = "deadline_ok" -> "ok"
    [] ev = "deadline_late" -> "late"
    [] ev \in AttemptSteps \cup {"timeout"} -> "none"
    [] OTHER -> chk[l]

Obs(l, ev) ==
  /\ viol' = viol \cup Broken(l, ev)
  /\ chk' = [chk EXCEPT ![l] = NextChk(l, ev)]
  /\ holding' = NextHolding(l, ev)
  /\ busy' = NextBusy(l, ev)
  /\ UNCHANGED dead

MutualExclusion == "MutualExclusion" \notin viol /\ Cardinality(holding) <= 1
DeathReleases   == "DeathReleases" \notin viol
TimeoutHonoured == "TimeoutHonoured" \notin viol
\* the structural reason for MutualExclusion: every open description is on the inode the path names
NoUnlinkRace    == \A l \in Lockers : fd[l] # 0 => fd[l] = dirent
LockSafety == MutualExclusion /\ DeathReleases /\ TimeoutHonoured

(***************************************************************************)
(* Kernel                                                                   *)
(***************************************************************************)
HeldByOther(l) == \E w \in Lockers : w # l /\ <<fd[l], w>> \in locks
KClose(l) == fd' = [fd EXCEPT ![l] = 0] /\ locks' = locks \ {<<fd[l], l>>}

(***************************************************************************)
(* Transcription                                                            *)
(***************************************************************************)
Init ==
  /\ dirent = 0 /\ born = <<>> /\ fd = [l \in Lockers |-> 0] /\ locks = {}
  /\ now = 0
  /\ pc = [l \in Lockers |-> "idle"] /\ locked = [l \in Lockers |-> FALSE]
  /\ deadline = [l \in Lockers |-> 0] /\ rounds = [l \in Lockers |-> 0]
  /\ holding = {} /\ busy = {} /\ dead = {} /\ viol = {} /\ chk = [l \in Lockers |-> "none"]

Goto(l, p) == pc' = [pc EXCEPT ![l] = p]

\* acquire l.86: deadline = time.monotonic() + timeout
StartAcquire(l) ==
  /\ pc[l] = "idle" /\ rounds[l] < MaxRounds
  /\ Goto(l, "open")
  /\ deadline' = [deadline EXCEPT ![l] = now + Timeout]
  /\ rounds' = [rounds EXCEPT ![l] = @ + 1]
  /\ UNCHANGED <<kvars, now, locked>>
  /\ Obs(l, "acquire_call")

\* _try_acquire_once l.107: os.open(O_CREAT | O_RDWR)
Open(l) ==
  /\ Mode = "flock" /\ pc[l] = "open"
  /\ IF dirent = 0
     THEN dirent' = NextIno /\ born' = [i \in DOMAIN born \cup {NextIno} |-> IF i = NextIno THEN now ELSE born[i]]
     ELSE UNCHANGED <<dirent, born>>
  /\ fd' = [fd EXCEPT ![l] = dirent']
  /\ Goto(l, "flock")
  /\ UNCHANGED <<locks, now, locked, deadline, rounds>>
  /\ Obs(l, "open")

Acquired(l) == locked' = [locked EXCEPT ![l] = TRUE] /\ Goto(l, "held")

\* l.113: fcntl.flock(fd, LOCK_EX | LOCK_NB); success => l.116-119; EWOULDBLOCK => close, return False
Flock(l) ==
  /\ pc[l] = "flock"
  /\ UNCHANGED <<dirent, born, fd, now, deadline, rounds>>
  /\ IF ~HeldByOther(l)
     THEN locks' = locks \cup {<<fd[l], l>>} /\ Acquired(l) /\ Obs(l, "acquire_ok")
     ELSE IF BlockingFlock
     THEN UNCHANGED <<locks, locked>> /\ Goto(l, "fwait") /\ Obs(l, "kernel_wait")
     ELSE UNCHANGED <<locks, locked>> /\ Goto(l, "close") /\ Obs(l, "try_fail")

\* (mutant only) the blocking flock returns when the inode's lock is free
FlockWake(l) ==
  /\ pc[l] = "fwait" /\ ~HeldByOther(l)
  /\ locks' = locks \cup {<<fd[l], l>>} /\ Acquired(l)
  /\ UNCHANGED <<dirent, born, fd, now, deadline, rounds>>
  /\ Obs(l, "acquire_ok")

\* l.121: os.close(fd) after a failed attempt
CloseFail(l) ==
  /\ pc[l] = "close"
  /\ KClose(l) /\ Goto(l, "check")
  /\ UNCHANGED <<dirent, born, now, locked, deadline, rounds>>
  /\ Obs(l, "close")

\* acquire l.96-99: time.monotonic() >= deadline => TimeoutError
DeadlineCheck(l) ==
  /\ pc[l] = "check"
  /\ UNCHANGED <<kvars, now, locked, deadline, rounds>>
  /\ IF now >= deadline[l] THEN Goto(l, "idle") /\ Obs(l, "timeout")
                           ELSE Goto(l, "sleep") /\ Obs(l, "deadline_ok")

\* l.101: time.sleep(_POLL_INTERVAL)
Sleep(l) ==
  /\ pc[l] = "sleep"
  /\ Goto(l, "open")
  /\ UNCHANGED <<kvars, now, locked, deadline, rounds>>
  /\ Obs(l, "sleep")

\* release l.166-181: not locked => return; flock(LOCK_UN)
Unlock(l) ==
  /\ Mode = "flock" /\ pc[l] = "held"
  /\ locks' = locks \ {<<fd[l], l>>}
  /\ Goto(l, "r_close")
  /\ UNCHANGED <<dirent, born, fd, now, locked, deadline, rounds>>
  /\ Obs(l, "release_call")

\* l.181-184: os.close(fd); _locked = False  (the MUTANT then unlinks the lock file)
CloseRel(l) ==
  /\ pc[l] = "r_close"
  /\ KClose(l)
  /\ locked' = [locked EXCEPT ![l] = FALSE]
  /\ UNCHANGED <<dirent, born, now, deadline, rounds>>
  /\ IF UnlinkOnRelease THEN Goto(l, "r_unlink") /\ Obs(l, "close")
                        ELSE Goto(l, "idle") /\ Obs(l, "release_done")

UnlinkRel(l) ==
  /\ pc[l] = "r_unlink"
  /\ dirent' = 0
  /\ Goto(l, "idle")
  /\ UNCHANGED <<born, fd, locks, now, locked, deadline, rounds>>
  /\ Obs(l, "release_done")

(***************************************************************************)
(* Mode = "excl" (extension): O_CREAT|O_EXCL existence lock, stale breaking *)
(***************************************************************************)
\* l.132-137 / l.139-140: EEXIST => look at the age
OpenExcl(l) ==
  /\ Mode = "excl" /\ pc[l] = "open"
  /\ UNCHANGED <<locks, now, deadline, rounds>>
  /\ IF dirent = 0
     THEN /\ dirent' = NextIno /\ born' = [i \in DOMAIN born \cup {NextIno} |-> IF i = NextIno THEN now ELSE born[i]]
          /\ fd' = [fd EXCEPT ![l] = NextIno] /\ Acquired(l) /\ Obs(l, "acquire_ok")
     ELSE UNCHANGED <<dirent, born, fd, locked>> /\ Goto(l, "stale") /\ Obs(l, "open")

\* l.143-144: age = time.time() - getmtime(lock_file) (ENOENT => return False)
StaleCheck(l) ==
  /\ pc[l] = "stale"
  /\ UNCHANGED <<kvars, now, locked, deadline, rounds>>
  /\ Goto(l, IF dirent # 0 /\ now - born[dirent] > StaleAge THEN "stale_unlink" ELSE "check")
  /\ Obs(l, "try_fail")

\* l.148: os.unlink(lock_file) - whatever the path names NOW
StaleUnlink(l) ==
  /\ pc[l] = "stale_unlink"
  /\ dirent' = 0 /\ Goto(l, "check")
  /\ UNCHANGED <<born, fd, locks, now, locked, deadline, rounds>>
  /\ Obs(l, "unlink")

\* release l.170-175: close(fd); unlink(lock_file)
CloseExcl(l) ==
  /\ Mode = "excl" /\ pc[l] = "held"
  /\ KClose(l) /\ Goto(l, "x_unlink")
  /\ UNCHANGED <<dirent, born, now, locked, deadline, rounds>>
  /\ Obs(l, "release_call")

UnlinkExcl(l) ==
  /\ pc[l] = "x_unlink"
  /\ dirent' = 0 /\ locked' = [locked EXCEPT ![l] = FALSE] /\ Goto(l, "idle")
  /\ UNCHANGED <<born, fd, locks, now, deadline, rounds>>
  /\ Obs(l, "release_done")

(***************************************************************************)
(* Environment                                                              *)
(***************************************************************************)
\* the process p dies (SIGKILL): the kernel closes all its descriptions, which releases their flock locks
Die(p) ==
  /\ AllowDie
  /\ \E l \in Lockers : ProcOf[l] = p /\ pc[l] # "dead"
  /\ LET gone == {l \in Lockers : ProcOf[l] = p} IN
     /\ fd' = [l \in Lockers |-> IF l \in gone THEN 0 ELSE fd[l]]
     /\ locks' = {x \in locks : x[2] \notin gone}
     /\ pc' = [l \in Lockers |-> IF l \in gone THEN "dead" ELSE pc[l]]
     /\ holding' = holding \ gone /\ busy' = busy \ gone /\ dead' = dead \cup gone
  /\ UNCHANGED <<dirent, born, now, locked, deadline, rounds, viol, chk>>

Tick == now < MaxNow /\ now' = now + 1 /\ UNCHANGED <<kvars, cvars, gvars>>

LockerStep(l) ==
  \/ StartAcquire(l) \/ Open(l) \/ Flock(l) \/ FlockWake(l) \/ CloseFail(l) \/ DeadlineCheck(l) \/ Sleep(l)
  \/ Unlock(l) \/ CloseRel(l) \/ UnlinkRel(l)
  \/ OpenExcl(l) \/ StaleCheck(l) \/ StaleUnlink(l) \/ CloseExcl(l) \/ UnlinkExcl(l)

Next == Tick \/ (\E l \in Lockers : LockerStep(l)) \/ (\E p \in {ProcOf[l] : l \in Lockers} : Die(p))

Spec == Init /\ [][Next]_vars
=============================================================================
