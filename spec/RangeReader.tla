----------------------------- MODULE RangeReader -----------------------------
(***************************************************************************)
(* C20, reader clause: "the seekable S3 reader returns the same bytes and  *)
(* positions as a local file on the same content for any seek/read         *)
(* sequence (a negative position is an error) while requesting only        *)
(* in-range bytes".                                                        *)
(*                                                                         *)
(*  Ref*  : the REFERENCE - a raw local file object of `size` bytes        *)
(*          (POSIX lseek/read as exposed by Python's io.FileIO): a read    *)
(*          returns the half-open byte interval [lo, hi) of the content,   *)
(*          a seek to a negative position or with an unknown whence is an  *)
(*          error that leaves the position unchanged, seeking past EOF is  *)
(*          legal and reads there return nothing.                          *)
(*  Rd*   : transcription of S3RangeFile (storage_backend.py:413-516):     *)
(*          seek 464-477, readinto 483-492, readall 494-499, _get_range    *)
(*          501-516, plus io.RawIOBase.read(n) (n<0 -> readall(), else     *)
(*          readinto(bytearray(n))).                                       *)
(*  Serve : the object store's answer to "Range: bytes=first-last"         *)
(*          (S3: 416 when first >= size, `last` clamped to size-1).        *)
(*                                                                         *)
(* Bytes are identified by their offsets, so "the same bytes" is "the same *)
(* interval".  Flags model the mutants used as anti-vacuity companions:    *)
(*   ClampNegative : a negative seek target is clamped to 0 instead of     *)
(*                   raising;                                              *)
(*   EndPlusOne    : readinto asks for one byte too many                   *)
(*                   (last = min(pos+want, size) instead of ... - 1);      *)
(*   RequestAtEOF  : the "pos >= size" short cuts are removed.             *)
(***************************************************************************)
EXTENDS Integers, Sequences, FiniteSets, TLC

CONSTANTS ClampNegative, EndPlusOne, RequestAtEOF

Min(a, b) == IF a < b THEN a ELSE b
Max(a, b) == IF a > b THEN a ELSE b

\* whence: 0 = SEEK_SET, 1 = SEEK_CUR, 2 = SEEK_END, anything else is invalid
\* An operation is [op, a, w]: seek(a, w) | read(a) | readinto(buffer of a bytes) | readall | tell
\* An outcome is [err, ret, lo, hi, pos, reqs]:
\*   err  : the call raised
\*   ret  : integer return value (seek/tell: position, readinto: count; reads: number of bytes)
\*   lo,hi: the bytes returned are content[lo..hi-1] (lo = hi: nothing)
\*   pos  : position after the call
\*   reqs : sequence of <<first, last>> range requests issued (reference: always empty)
Out(err, ret, lo, hi, pos, reqs) == [err |-> err, ret |-> ret, lo |-> lo, hi |-> hi, pos |-> pos, reqs |-> reqs]

(* ============================ REFERENCE =============================== *)
RefSeek(size, pos, off, wh) ==
  LET valid == wh \in {0, 1, 2}
      new == CASE wh = 0 -> off [] wh = 1 -> pos + off [] wh = 2 -> size + off [] OTHER -> -1
  IN IF ~valid \/ new < 0 THEN Out(TRUE, -1, 0, 0, pos, <<>>)
     ELSE Out(FALSE, new, 0, 0, new, <<>>)

\* n < 0: everything up to EOF
RefRead(size, pos, n) ==
  LET avail == Max(0, size - pos)
      cnt == IF n < 0 THEN avail ELSE Min(n, avail)
  IN IF cnt = 0 THEN Out(FALSE, 0, 0, 0, pos, <<>>)
     ELSE Out(FALSE, cnt, pos, pos + cnt, pos + cnt, <<>>)

RefStep(size, pos, o) ==
  CASE o.op = "seek"     -> RefSeek(size, pos, o.a, o.w)
    [] o.op = "read"     -> RefRead(size, pos, o.a)
    [] o.op = "readinto" -> RefRead(size, pos, o.a)
    [] o.op = "readall"  -> RefRead(size, pos, -1)
    [] o.op = "tell"     -> Out(FALSE, pos, 0, 0, pos, <<>>)

(* ======================== object store (ranged GET) =================== *)
\* result: [ok, lo, hi) of the bytes served
Serve(size, first, last) ==
  IF first >= size \/ first < 0 THEN [ok |-> FALSE, lo |-> 0, hi |-> 0]
  ELSE IF last < first THEN [ok |-> TRUE, lo |-> 0, hi |-> size]      \* malformed range: header ignored
  ELSE [ok |-> TRUE, lo |-> first, hi |-> Min(last, size - 1) + 1]

(* ============================ S3RangeFile ============================= *)
\* seek (464-477)
RdSeek(size, pos, off, wh) ==
  IF wh \notin {0, 1, 2} THEN Out(TRUE, -1, 0, 0, pos, <<>>)                    \* 471-472 ValueError
  ELSE LET new == CASE wh = 0 -> off [] wh = 1 -> pos + off [] OTHER -> size + off
       IN IF new < 0 THEN (IF ClampNegative THEN Out(FALSE, 0, 0, 0, 0, <<>>)
                           ELSE Out(TRUE, -1, 0, 0, pos, <<>>))                \* 473-474 ValueError
          ELSE Out(FALSE, new, 0, 0, new, <<>>)                               \* 476-477

\* _get_range(first, last) (501-516): one GET; an error surfaces as an exception
\* readinto(b), want = len(b) (483-492)
RdReadinto(size, pos, want) ==
  IF want = 0 \/ (pos >= size /\ ~RequestAtEOF) THEN Out(FALSE, 0, 0, 0, pos, <<>>)      \* 485-486
  ELSE LET last == Min(pos + want, size) - (IF EndPlusOne THEN 0 ELSE 1)                \* 487
           sv == Serve(size, pos, last)
           n == sv.hi - sv.lo
       IN IF ~sv.ok THEN Out(TRUE, -1, 0, 0, pos, <<<<pos, last>>>>)
          ELSE IF n > want THEN Out(TRUE, -1, 0, 0, pos, <<<<pos, last>>>>)             \* b[:n] = data: size mismatch
          ELSE Out(FALSE, n, sv.lo, sv.hi, pos + n, <<<<pos, last>>>>)                   \* 489-492

\* readall (494-499)
RdReadall(size, pos) ==
  IF pos >= size /\ ~RequestAtEOF THEN Out(FALSE, 0, 0, 0, pos, <<>>)                    \* 495-496
  ELSE LET sv == Serve(size, pos, size - 1)
           n == sv.hi - sv.lo
       IN IF ~sv.ok THEN Out(TRUE, -1, 0, 0, pos, <<<<pos, size - 1>>>>)
          ELSE Out(FALSE, n, sv.lo, sv.hi, pos + n, <<<<pos, size - 1>>>>)               \* 497-499

\* io.RawIOBase.read(n)
RdRead(size, pos, n) == IF n < 0 THEN RdReadall(size, pos) ELSE RdReadinto(size, pos, n)

RdStep(size, pos, o) ==
  CASE o.op = "seek"     -> RdSeek(size, pos, o.a, o.w)
    [] o.op = "read"     -> RdRead(size, pos, o.a)
    [] o.op = "readinto" -> RdReadinto(size, pos, o.a)
    [] o.op = "readall"  -> RdReadall(size, pos)
    [] o.op = "tell"     -> Out(FALSE, pos, 0, 0, pos, <<>>)                             \* 461-462

(* ============================ properties ============================== *)
\* observable agreement of one step (requests are not observable through the file API)
SameObservable(x, y) == /\ x.err = y.err
                        /\ x.pos = y.pos
                        /\ (~x.err => x.ret = y.ret /\ x.hi - x.lo = y.hi - y.lo
                                      /\ (x.hi > x.lo => x.lo = y.lo /\ x.hi = y.hi))
\* every issued request lies inside the object
InRange(size, reqs) == \A i \in 1..Len(reqs) : 0 <= reqs[i][1] /\ reqs[i][1] <= reqs[i][2] /\ reqs[i][2] <= size - 1
\* nothing is requested for a read the reference answers with no bytes; at most one request otherwise
Frugal(refOut, reqs) == Len(reqs) <= (IF refOut.hi > refOut.lo THEN 1 ELSE 0)
=============================================================================
