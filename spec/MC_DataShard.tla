---------------------------- MODULE MC_DataShard ----------------------------
(* Model-checking wrapper: function-valued constants are defined here (cfg files cannot hold them). *)
EXTENDS DataShard

\* ---- scenario library (selected with  Prog <- MC_Prog_xxx  etc. in the cfg) ----
App(f)  == [t |-> "append", add |-> <<f>>]
AppPre(f) == [t |-> "append", add |-> <<f>>, pre |-> TRUE]     \* Table.append_data([DataFile]) of a file built beforehand
App2(f, g) == [t |-> "append", add |-> <<f, g>>]
Del(S)  == [t |-> "delete", del |-> S]
Exp(c)  == [t |-> "expire", cutoff |-> c]
DelSnapInit(k) == [t |-> "delsnap", who |-> <<"init", k>>]
DelSnapOf(a, i) == [t |-> "delsnap", who |-> <<a, i>>]
Read == [t |-> "read", data |-> TRUE]
Count == [t |-> "read", data |-> FALSE]

GC(g) == [t |-> "gc", grace |-> g]
AG == {"c1", "g1"}
Role_G == [a \in AG |-> IF a = "g1" THEN "collector" ELSE "committer"]
Idx_G == [a \in AG |-> IF a = "c1" THEN 1 ELSE 2]
Sep_G == [a \in AG |-> a]
Prog_GPre == [a \in AG |-> IF a = "c1" THEN <<AppPre(971)>> ELSE <<GC(10)>>]
Prog_GApp == [a \in AG |-> IF a = "c1" THEN <<App(1)>> ELSE <<GC(10)>>]
Prog_GDel == [a \in AG |-> IF a = "c1" THEN <<Del({961})>> ELSE <<GC(10)>>]
Prog_GExp == [a \in AG |-> IF a = "c1" THEN <<Exp(2), App(1)>> ELSE <<GC(10)>>]
AG2 == {"c1", "c2", "g1"}
Role_G2 == [a \in AG2 |-> IF a = "g1" THEN "collector" ELSE "committer"]
Idx_G2 == [a \in AG2 |-> IF a = "c1" THEN 1 ELSE IF a = "c2" THEN 2 ELSE 3]
Sep_G2 == [a \in AG2 |-> a]
Prog_G2 == [a \in AG2 |-> IF a = "c1" THEN <<App(1)>> ELSE IF a = "c2" THEN <<App(2)>> ELSE <<GC(10)>>]
\* two collectors at once (collection takes no lock)
AGG == {"c1", "g1", "g2"}
Role_GG == [a \in AGG |-> IF a = "c1" THEN "committer" ELSE "collector"]
Idx_GG == [a \in AGG |-> IF a = "c1" THEN 1 ELSE IF a = "g1" THEN 2 ELSE 3]
Sep_GG == [a \in AGG |-> a]
Prog_GG == [a \in AGG |-> IF a = "c1" THEN <<App(1)>> ELSE <<GC(10)>>]
Create == [t |-> "create"]
A1 == {"c1"}
Role_C1 == [a \in A1 |-> "committer"]
Idx_1 == [a \in A1 |-> 1]
Sep_1 == [a \in A1 |-> a]
Prog_1AppCreateApp == [a \in A1 |-> <<App(1), Create, App(2)>>]
Prog_1PreThenApp == [a \in A1 |-> <<AppPre(971), App(2)>>]
Prog_1AppThenApp == [a \in A1 |-> <<App(1), App(2)>>]
Prog_1AppExplicit == [a \in A1 |-> <<[t |-> "append", add |-> <<1>>, style |-> "explicit"], [t |-> "append", add |-> <<2>>, style |-> "explicit"]>>]
Prog_1DelThenApp == [a \in A1 |-> <<Del({961}), App(2)>>]
Prog_1ExpThenApp == [a \in A1 |-> <<Exp(2), App(2)>>]
Prog_1DsThenApp == [a \in A1 |-> <<DelSnapInit(2), App(2)>>]
A2 == {"c1", "c2"}
A3 == {"c1", "c2", "c3"}
Role_C2 == [a \in A2 |-> "committer"]
Role_C3 == [a \in A3 |-> "committer"]
Idx_2 == [a \in A2 |-> IF a = "c1" THEN 1 ELSE 2]
Idx_3 == [a \in A3 |-> IF a = "c1" THEN 1 ELSE IF a = "c2" THEN 2 ELSE 3]
Sep_2 == [a \in A2 |-> a]
Shared_2 == [a \in A2 |-> "h"]
Sep_3 == [a \in A3 |-> a]
Shared_3 == [a \in A3 |-> "h"]

Prog_2Create == [a \in A2 |-> <<Create, App(Idx_2[a])>>]
Prog_CrashThenOpen == [a \in A2 |-> IF a = "c1" THEN <<App(1)>> ELSE <<Create, App(2)>>]
Prog_2App == [a \in A2 |-> IF a = "c1" THEN <<App(1)>> ELSE <<App(2)>>]
Prog_AppDel == [a \in A2 |-> IF a = "c1" THEN <<App(1)>> ELSE <<Del({961})>>]
Prog_ExpDs == [a \in A2 |-> IF a = "c1" THEN <<Exp(2)>> ELSE <<DelSnapInit(2)>>]
Prog_AppExp == [a \in A2 |-> IF a = "c1" THEN <<App(1)>> ELSE <<Exp(2)>>]
Prog_3AppDelExp == [a \in A3 |-> IF a = "c1" THEN <<App(1)>> ELSE IF a = "c2" THEN <<Del({961})>> ELSE <<Exp(2)>>]
Prog_3Create == [a \in A3 |-> <<Create>>]
Prog_CreateVsApp == [a \in A2 |-> IF a = "c1" THEN <<Create, App(1)>> ELSE <<App(2)>>]
Prog_3App == [a \in A3 |-> IF a = "c1" THEN <<App(1)>> ELSE IF a = "c2" THEN <<App(2)>> ELSE <<App(3)>>]
Prog_3Mix == [a \in A3 |-> IF a = "c1" THEN <<App(1)>> ELSE IF a = "c2" THEN <<Exp(2)>> ELSE <<DelSnapInit(2)>>]
Prog_2x2 == [a \in A2 |-> IF a = "c1" THEN <<App(1), Del({961})>> ELSE <<App(2), Exp(2)>>]

\* readers
AR == {"c1", "c2", "r1"}
Role_R == [a \in AR |-> IF a = "r1" THEN "reader" ELSE "committer"]
Idx_R == [a \in AR |-> IF a = "c1" THEN 1 ELSE IF a = "c2" THEN 2 ELSE 3]
Sep_R == [a \in AR |-> a]
Prog_R2 == [a \in AR |-> IF a = "c1" THEN <<App2(1, 2)>> ELSE IF a = "c2" THEN <<Exp(2)>> ELSE <<Read, Count>>]
ARS == {"c1", "r1"}
Role_RS == [a \in ARS |-> IF a = "r1" THEN "reader" ELSE "committer"]
Idx_RS == [a \in ARS |-> IF a = "c1" THEN 1 ELSE 2]
Shared_RS == [a \in ARS |-> "h"]
Prog_RS == [a \in ARS |-> IF a = "c1" THEN <<App(1), Del({961})>> ELSE <<Read, Read>>]
Sep_RS == [a \in ARS |-> a]
Prog_RA == [a \in ARS |-> IF a = "c1" THEN <<App2(1, 2)>> ELSE <<Read, Count>>]
Prog_RB == [a \in ARS |-> IF a = "c1" THEN <<Del({961})>> ELSE <<Read, Read>>]
Prog_RC == [a \in ARS |-> IF a = "c1" THEN <<[t |-> "multi", add |-> <<1>>, del |-> {961}, cutoff |-> 2]>> ELSE <<Read, Count>>]
Prog_R3 == [a \in AR |-> IF a = "c1" THEN <<App(1)>> ELSE IF a = "c2" THEN <<Del({961})>> ELSE <<Read>>]
Prog_R1 == [a \in AR |-> IF a = "c1" THEN <<App2(1, 2)>> ELSE IF a = "c2" THEN <<Del({961})>> ELSE <<Read, Read>>]
=============================================================================
