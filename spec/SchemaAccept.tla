---------------------------- MODULE SchemaAccept ----------------------------
(***************************************************************************)
(* L2 specification of DataShard's append acceptance (property C11):       *)
(* "Accepted appends are exact; rejected ones leave no trace; scans keep   *)
(* working".                                                               *)
(*                                                                         *)
(* What is modelled (the code AS IT IS = both Fix* flags TRUE, i.e. /repo   *)
(* since commits fec250c and fa79e69; FALSE = the code before that fix):   *)
(*  - the table's persisted schema: an ordered sequence of fields          *)
(*    [id, name, type, req] under a schema id (data_structures.Schema);    *)
(*  - per Table handle, the Arrow-schema cache of DataFileManager          *)
(*    (data_operations.py:348, 467-490): keyed by schema_id ONLY; whatever *)
(*    schema object is converted first under an id wins for that handle;   *)
(*  - data files: their PHYSICAL column order/types/nullability (the       *)
(*    Arrow schema they were written with) and their bounds, keyed by the  *)
(*    field ids of the schema object used to write them                    *)
(*    (data_operations.py:639-699);                                        *)
(*  - the snapshot list (one snapshot per committed append);               *)
(*  - the data directory (files physically present, referenced or not).    *)
(*                                                                         *)
(* Transcriptions (source ranges in the operator comments):                *)
(*    Signature, SignatureOK   transaction.py:193-226                      *)
(*    ValidateRecords          data_operations.py:528-578                  *)
(*    CreateArrow              data_operations.py:467-490                  *)
(*    BoundsOf                 data_operations.py:639-699                  *)
(*    FooterOK                 transaction.py:112-151                      *)
(*    ApplyRecords             transaction.py:228-302 + 856-866 + 640-685  *)
(*    ApplyFiles               transaction.py:88-110 + 838-843             *)
(*                                                                         *)
(* Reference predicates (what C11 demands; they never mention the          *)
(* transcription's intermediate results, only the resulting table):        *)
(*    RejectedUnchanged, ScanNeverBreaks (+ FilesMatchTable),              *)
(*    BoundsMeanTheirColumn, AcceptedExact, ContentIsAccepted.             *)
(*                                                                         *)
(* Repair flags (guide rule 3).  TRUE = the current code, the setting every *)
(* claimed TLC run, every export and every replay uses.  FALSE = the code   *)
(* before the corresponding fix; kept only as anti-vacuity companions: TLC  *)
(* must FIND the violation with the flag off.                               *)
(*    FixWriteTableSchema  (fec250c) after validating a supplied schema,    *)
(*                         append_data writes with the table's persisted    *)
(*                         schema object (transaction.py:202-226, 253);     *)
(*                         FALSE: it wrote with the caller's object         *)
(*                         (caller's column order, caller's field ids)      *)
(*    FixStrictValues      (fa79e69) validate_records_strict rejects values *)
(*                         the declared type cannot represent (fractional   *)
(*                         float into an integer-backed column, datetime    *)
(*                         with a time of day into a date column,           *)
(*                         data_operations.py:566-578); FALSE: they were    *)
(*                         left to pyarrow, which truncates silently        *)
(***************************************************************************)
EXTENDS Integers, Sequences, FiniteSets, TLC

CONSTANTS FixWriteTableSchema, FixStrictValues

(* ------------------------------ schemas -------------------------------- *)
Field(i, n, t, r) == [id |-> i, name |-> n, type |-> t, req |-> r]

TSid == 1          \* schema id of the table's persisted schema
OSid == 2          \* "some other schema id" a caller may put on a Schema object
Sids == {TSid, OSid}

\* Columns a and b have the SAME type so that exchanged ids / order are observable
\* (comparing a filter literal with the other column's bounds does not raise TypeError).
TFields == << Field(1, "a", "T1", TRUE), Field(2, "b", "T1", FALSE), Field(3, "c", "T2", FALSE) >>
TSchema == [sid |-> TSid, fields |-> TFields]
NoSchema == [sid |-> 0, fields |-> << >>]      \* schema=None

Swap12(fs) == << fs[2], fs[1] >> \o SubSeq(fs, 3, Len(fs))
TypeChanged == << TFields[1], [TFields[2] EXCEPT !.type = "T2"], TFields[3] >>

RecordVariants ==
  {"omitted", "identical", "reordered", "renumbered", "type_changed", "nullability_relaxed",
   "nullability_tightened", "extra_field", "missing_field",
   "other_sid_same", "other_sid_reordered", "other_sid_different"}

\* The schema ARGUMENT of append_records for each variant.
Supplied(v) ==
  CASE v = "omitted"               -> NoSchema
    [] v = "identical"             -> TSchema
    [] v = "reordered"             -> [sid |-> TSid, fields |-> Swap12(TFields)]
    [] v = "renumbered"            -> [sid |-> TSid, fields |-> << [TFields[1] EXCEPT !.id = 2],
                                                                  [TFields[2] EXCEPT !.id = 1], TFields[3] >>]
    [] v = "type_changed"          -> [sid |-> TSid, fields |-> TypeChanged]
    [] v = "nullability_relaxed"   -> [sid |-> TSid, fields |-> << [TFields[1] EXCEPT !.req = FALSE], TFields[2], TFields[3] >>]
    [] v = "nullability_tightened" -> [sid |-> TSid, fields |-> << TFields[1], [TFields[2] EXCEPT !.req = TRUE], TFields[3] >>]
    [] v = "extra_field"           -> [sid |-> TSid, fields |-> Append(TFields, Field(4, "d", "T1", FALSE))]
    [] v = "missing_field"         -> [sid |-> TSid, fields |-> << TFields[1], TFields[2] >>]
    [] v = "other_sid_same"        -> [sid |-> OSid, fields |-> TFields]
    [] v = "other_sid_reordered"   -> [sid |-> OSid, fields |-> Swap12(TFields)]
    [] v = "other_sid_different"   -> [sid |-> OSid, fields |-> TypeChanged]

(* transaction.py:193-200 _schema_signature: a SET of (name, type, required):
   field order and field ids are NOT part of it. *)
Signature(s) == { << s.fields[i].name, s.fields[i].type, s.fields[i].req >> : i \in 1..Len(s.fields) }
(* transaction.py:202-226 _validate_schema_against_table (the table always has a persisted schema here) *)
SignatureOK(s) == Signature(s) = Signature(TSchema)

(* --------------------------- Arrow schemas ----------------------------- *)
\* data_operations.py:474-488: one Arrow field per schema field, IN THE SCHEMA OBJECT'S ORDER,
\* name/type/nullable; field ids are not carried.
ArrowOf(s) == [i \in 1..Len(s.fields) |->
                 [name |-> s.fields[i].name, type |-> s.fields[i].type, nullable |-> ~s.fields[i].req]]

NoArrow == << >>                                     \* "not cached"
EmptyCache == [sid \in Sids |-> NoArrow]

(* data_operations.py:467-490 create_arrow_schema: cache hit by schema_id alone. *)
CreateArrow(cache, s) ==
  IF cache[s.sid] # NoArrow
    THEN [arrow |-> cache[s.sid], cache |-> cache]
    ELSE [arrow |-> ArrowOf(s), cache |-> [cache EXCEPT ![s.sid] = ArrowOf(s)]]

(* ------------------------------ batches -------------------------------- *)
\* Abstract value classes of a batch of records (2 rows unless empty); the special value sits in
\* one row, every column keeps at least one non-null value, so bounds exist for every column.
\*   conv: what the Python->Arrow conversion (pa.Table.from_pylist with the Arrow schema,
\*         data_operations.py:603) does with the values:
\*         "ok"     converted unchanged,
\*         "narrow" converted to the declared type's representation of the same value
\*                  (float64 -> float32 rounding, 1.0 -> 1),
\*         "raise"  pyarrow raises (str into long, bool into int, int into string, int beyond range,
\*                  2^53+1 into double, NaN into long, lone surrogate, dict ...),
\*         "trunc"  pyarrow WOULD silently truncate (1.5 into int/long/date/time/timestamp,
\*                  datetime with a time of day into date); since fa79e69 such a batch never
\*                  reaches the conversion: ValidateRecords rejects it.
ValueClasses == {"ok", "narrow", "null_optional", "missing_optional", "null_required", "missing_required",
                 "unknown_key", "unconvertible", "truncating", "empty"}

Batch(vc) ==
  [ n       |-> IF vc = "empty" THEN 0 ELSE 2,
    present |-> CASE vc = "missing_optional" -> {"a", "c"}
                  [] vc = "missing_required" -> {"b", "c"}
                  [] vc = "unknown_key"      -> {"a", "b", "c", "zz"}
                  [] OTHER                   -> {"a", "b", "c"},
    none    |-> CASE vc = "null_optional" -> {"b"}
                  [] vc = "null_required" -> {"a"}
                  [] OTHER                -> {},
    conv    |-> CASE vc = "unconvertible" -> "raise"
                  [] vc = "truncating"    -> "trunc"
                  [] vc = "narrow"        -> "narrow"
                  [] OTHER                -> "ok" ]

(* data_operations.py:528-578 validate_records_strict against the schema object used for writing
   (skipped for an empty batch: write_data_file line 590 "if records:").
   The value check of fa79e69 (FixStrictValues) lives here, before any Arrow conversion. *)
ValidateRecords(b, s) ==
  LET allowed  == { s.fields[i].name : i \in 1..Len(s.fields) }
      required == { s.fields[i].name : i \in { j \in 1..Len(s.fields) : s.fields[j].req } }
  IN IF b.n = 0 THEN "ok"
     ELSE IF b.present \ allowed # {} THEN "unknown_field"
     ELSE IF \E nm \in required : nm \notin b.present \/ nm \in b.none THEN "required_missing"
     ELSE IF FixStrictValues /\ b.conv = "trunc" THEN "unrepresentable_value"
     ELSE "ok"

(* data_operations.py:639-699 _compute_column_bounds: for every field OF THE SCHEMA OBJECT USED FOR
   WRITING whose name is a column of the table just built: bounds[field id] = min/max of that column.
   Kept as the set of pairs <<field id, name of the column the bound was computed from>>. *)
BoundsOf(b, s, arrow) ==
  IF b.n = 0 THEN {}
  ELSE { << s.fields[i].id, s.fields[i].name >> :
           i \in { j \in 1..Len(s.fields) : \E k \in 1..Len(arrow) : arrow[k].name = s.fields[j].name } }

(* ------------------------------- state --------------------------------- *)
\* st.cache    : [Handles -> cache]
\* st.files    : sequence of data files referenced by the current snapshot
\*               [id, phys, bounds, step, exact, prebuilt]
\* st.snaps    : sequence; snapshot k references files 1..st.snaps[k] (append-only history)
\* st.dir      : ids of the data files physically present
\* st.accepted : ghost: steps whose call returned normally
\* st.last     : outcome of the last step plus a copy of the state it started from
Handles == {1, 2}

NoLast == [ok |-> TRUE, stage |-> "init", preFiles |-> << >>, preSnaps |-> << >>, preDir |-> {}, callerFile |-> 0]

InitState == [cache |-> [h \in Handles |-> EmptyCache], files |-> << >>, snaps |-> << >>, dir |-> {},
              accepted |-> << >>, last |-> NoLast]

Rejected(st, h, cache, dir, stage, callerFile) ==
  [st EXCEPT !.cache[h] = cache, !.dir = dir,
             !.last = [ok |-> FALSE, stage |-> stage, preFiles |-> st.files, preSnaps |-> st.snaps,
                       preDir |-> st.dir, callerFile |-> callerFile]]

Committed(st, h, cache, dir, file, k, callerFile) ==
  [st EXCEPT !.cache[h] = cache, !.dir = dir,
             !.files = Append(st.files, file),
             !.snaps = Append(st.snaps, Len(st.files) + 1),
             !.accepted = Append(st.accepted, k),
             !.last = [ok |-> TRUE, stage |-> "committed", preFiles |-> st.files, preSnaps |-> st.snaps,
                       preDir |-> st.dir, callerFile |-> callerFile]]

(* transaction.py:112-151 _validate_file_schema: the file's footer schema must EQUAL
   create_arrow_schema(table schema) - through the same per-handle cache - including field order
   and nullability. *)
FooterOK(cache, phys) ==
  LET r == CreateArrow(cache, TSchema) IN [ok |-> (phys = r.arrow), cache |-> r.cache]

(* Table.append_records(records, schema) - transaction.py:856-866 -> append_data 228-302 ->
   write_data_file (data_operations.py:580-637) -> append_files 88-110 -> commit; any exception
   leaves the with-block through rollback (640-685), which deletes the files this transaction wrote.
   k is the step number (used as the id of the file written). *)
ApplyRecords(st, h, fresh, variant, vc, k) ==
  LET c0   == IF fresh THEN EmptyCache ELSE st.cache[h]     \* fresh = the handle was just (re)loaded
      sup  == Supplied(variant)
      b    == Batch(vc)
  IN
  \* 243-253: schema None -> the table's persisted schema; otherwise the signature comparison, whose
  \* result (fec250c) is the table's schema object to write with
  IF sup # NoSchema /\ ~SignatureOK(sup) THEN Rejected(st, h, c0, st.dir, "signature", 0)
  ELSE
  LET ws == IF sup = NoSchema \/ FixWriteTableSchema THEN TSchema ELSE sup   \* the schema object written with
      v  == ValidateRecords(b, ws)                                           \* data_operations.py:590-591
  IN
  IF v # "ok" THEN Rejected(st, h, c0, st.dir, v, 0)
  ELSE
  LET r1 == CreateArrow(c0, ws)                                              \* :593 (may fill the cache)
  IN
  IF b.conv = "raise" THEN Rejected(st, h, r1.cache, st.dir, "convert", 0)   \* :603 from_pylist raises
  ELSE
  LET file == [id |-> k, phys |-> r1.arrow, bounds |-> BoundsOf(b, ws, r1.arrow), step |-> k,
               exact |-> (b.conv # "trunc"), prebuilt |-> FALSE]
      dir1 == st.dir \cup {k}                                                \* :606-612 file written
      fo   == FooterOK(r1.cache, file.phys)                                  \* 300 -> 101-106
  IN
  IF ~fo.ok THEN Rejected(st, h, fo.cache, dir1 \ {k}, "footer", 0)          \* rollback deletes it
  ELSE Committed(st, h, fo.cache, dir1, file, k, 0)

(* Table.append_data([DataFile]) with a file the caller built and placed under data/ -
   transaction.py:838-843 -> append_files 88-110 (exists check, footer check) -> commit. *)
FileVariants == {"file_identical", "file_reordered", "file_nullability", "file_type", "file_extra",
                 "file_missing_column", "file_absent", "file_garbage"}

FilePhys(fv) ==
  LET t == ArrowOf(TSchema) IN
  CASE fv = "file_identical"      -> t
    [] fv = "file_reordered"      -> Swap12(t)
    [] fv = "file_nullability"    -> << [t[1] EXCEPT !.nullable = TRUE], t[2], t[3] >>
    [] fv = "file_type"           -> << t[1], t[2], [t[3] EXCEPT !.type = "T1"] >>
    [] fv = "file_extra"          -> Append(t, [name |-> "d", type |-> "T1", nullable |-> TRUE])
    [] fv = "file_missing_column" -> << t[1], t[2] >>
    [] OTHER                      -> NoArrow

ApplyFiles(st, h, fresh, fv, k) ==
  LET c0   == IF fresh THEN EmptyCache ELSE st.cache[h]
      dir0 == IF fv = "file_absent" THEN st.dir ELSE st.dir \cup {k}        \* the caller's file, before the call
  IN
  IF fv = "file_absent" THEN Rejected(st, h, c0, dir0, "not_found", 0)       \* :103-104
  ELSE
  LET r == CreateArrow(c0, TSchema) IN                                       \* :133 (before the footer is read)
  IF fv = "file_garbage" THEN Rejected(st, h, r.cache, dir0, "unreadable", k) \* :139-144
  ELSE
  LET file == [id |-> k, phys |-> FilePhys(fv), bounds |-> {}, step |-> k, exact |-> TRUE, prebuilt |-> TRUE]
      fo   == FooterOK(c0, file.phys)
  IN
  IF ~fo.ok THEN Rejected(st, h, fo.cache, dir0, "footer", k)                \* caller's file stays, unreferenced
  ELSE Committed(st, h, fo.cache, dir0, file, k, k)

Apply(st, in, k) ==
  IF in.kind = "records" THEN ApplyRecords(st, in.h, in.fresh, in.variant, in.vclass, k)
  ELSE ApplyFiles(st, in.h, in.fresh, in.variant, k)

(* ----------------------- reference predicates -------------------------- *)
\* "an append either raises and leaves table content, snapshot list and reachable files unchanged"
RejectedUnchanged(st) ==
  ~st.last.ok => /\ st.files = st.last.preFiles
                 /\ st.snaps = st.last.preSnaps

\* the title's "no trace": a rejected append_records leaves no data file behind either (a caller's
\* own pre-built file is the caller's).  Not demanded by the property text; checked as a model fact.
RejectedLeavesNoFile(st) ==
  ~st.last.ok => st.dir \ {st.last.callerFile} = st.last.preDir

\* Platform fact the scan rests on (transaction.py:1016): pa.concat_tables succeeds iff all tables
\* have identical schemas (names, ORDER, types, nullability).
ScanOK(files) == \A i, j \in 1..Len(files) : files[i].phys = files[j].phys

\* "no accepted append can make later scans fail"
ScanNeverBreaks(st) == ScanOK(st.files)

\* stronger: every referenced file is physically what the persisted schema declares
FilesMatchTable(st) == \A i \in 1..Len(st.files) : st.files[i].phys = ArrowOf(TSchema)

\* "... or mis-filter": a filtered scan on column c looks bounds up under the id that the table's
\* PERSISTED schema gives c (filters.py:227-240, 265-272); whatever it finds there must have been
\* computed from column c.
BoundsMeanTheirColumn(st) ==
  \A i \in 1..Len(st.files) : \A p \in st.files[i].bounds :
     \A j \in 1..Len(TFields) : p[1] = TFields[j].id => p[2] = TFields[j].name

\* "every row is returned exactly as supplied up to the declared type's representation; a value
\*  the declared type cannot represent is rejected rather than silently altered"
AcceptedExact(st) == \A i \in 1..Len(st.files) : st.files[i].exact

\* the table's content is exactly the batches whose append returned normally, in order
ContentIsAccepted(st) ==
  /\ Len(st.files) = Len(st.accepted)
  /\ \A i \in 1..Len(st.files) : st.files[i].step = st.accepted[i]
  /\ Len(st.snaps) = Len(st.files)
  /\ \A i \in 1..Len(st.snaps) : st.snaps[i] = i

=============================================================================
