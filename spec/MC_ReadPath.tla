---------------------------- MODULE MC_ReadPath ----------------------------
(***************************************************************************)
(* Model-checking wrapper for ReadPath (C14).                              *)
(*                                                                         *)
(* The table: commit 1 appends d1,d2 (one manifest m1), commit 2 appends   *)
(* d3 (manifest m2), commit 3 deletes d1 -> manifest m1 is REWRITTEN as    *)
(* m1r with d2 as an EXISTING entry.  Metadata files v2 (after commit 2)   *)
(* and v3 (current); the hint names v3.  Older-snapshot-only files:        *)
(* v2, L2, m1, d1.                                                         *)
(*                                                                         *)
(* One behaviour per case: Init picks the case, every Next step is one     *)
(* step of the transcribed read program.  Cases = every file x damage      *)
(* class (x k for transient) x API x verify option x filter x fresh/open   *)
(* handle, plus double damage (Doubles = "few" | "all").                   *)
(* Invariants are evaluated on every state, the verdict on terminal ones.  *)
(* POSTCONDITION Export writes one JSON record per case (model outcome +   *)
(* reference verdict class) for the binding in harness/props/c14.py.       *)
(***************************************************************************)
EXTENDS ReadPath, SequencesExt, FiniteSetsExt, Json, IOUtils

CONSTANTS Doubles,      \* "none" | "few" | "all"
          KSet,         \* transient: the k-th storage call on the file raises, k in KSet
          Reduced       \* TRUE: quick tier (fresh handle only for non-transient damage)

MC_Metas     == <<"v2", "v3">>
MC_ListOf    == [v2 |-> "L2", v3 |-> "L3"]
MC_MansOf    == [L2 |-> <<"m1", "m2">>, L3 |-> <<"m1r", "m2">>]
MC_DataOf    == [m1 |-> <<"d1", "d2">>, m2 |-> <<"d3">>, m1r |-> <<"d2">>]
MC_RowsOf    == [d1 |-> <<"a1", "a2">>, d2 |-> <<"b1", "b2">>, d3 |-> <<"c1", "c2">>]
MC_AltRowsOf == [d1 |-> <<"a1x", "a2">>, d2 |-> <<"b1x", "b2">>, d3 |-> <<"c1x", "c2">>]
MC_Sibling   == [v2 |-> "v3", v3 |-> "v2", L2 |-> "L3", L3 |-> "L2",
                 m1 |-> "m2", m2 |-> "m1r", m1r |-> "m2",
                 d1 |-> "d2", d2 |-> "d3", d3 |-> "d2", hint |-> "hint"]
MC_Filters   == {"none", "lo", "hi"}
\* lo: k < 12  (all of d1, the lower half of d2; d3 excluded by its bounds)
\* hi: k >= 22 (the upper half of d3; d1 and d2 excluded by their bounds)
AllRowIds    == {"a1", "a2", "b1", "b2", "c1", "c2", "a1x", "b1x", "c1x"}
MC_Sel       == [none |-> AllRowIds, lo |-> {"a1", "a2", "b1", "a1x", "b1x"}, hi |-> {"c2"}]
MC_Pruned    == [none |-> {}, lo |-> {"d3"}, hi |-> {"d1", "d2"}]

\* the model is only meaningful if a pruned file really holds no matching row
ASSUME \A fl \in MC_Filters : \A d \in MC_Pruned[fl] : Rng(MC_RowsOf[d]) \cap MC_Sel[fl] = {}

VARIABLES c, s

Ok == [f \in AllFiles |-> "ok"]

Opts ==
  {[api |-> a, vopt |-> v, filt |-> fl] : a \in RowApis, v \in {"on", "off", "default"}, fl \in Filters}
  \cup {[api |-> a, vopt |-> "default", filt |-> "none"] : a \in {"count", "cursnap"}}

SinglesOf(f) ==
  {[dmg |-> [Ok EXCEPT ![f] = cl], k |-> k] : cl \in ClassesOf(Kind(f)), k \in {0} \cup KSet}
Singles  == UNION {SinglesOf(f) : f \in AllFiles}
Singles1 == {x \in Singles : (x.k > 0) <=> (\E f \in AllFiles : x.dmg[f] = "transient")}

\* selected double damage
FewPairs == { <<"v3", "absent", "v2", "absent">>,   <<"v3", "absent", "L2", "garbage">>,
              <<"hint", "absent", "v3", "absent">>, <<"d2", "absent", "d3", "garbage">>,
              <<"m1r", "absent", "d3", "absent">>,  <<"L3", "garbage", "m2", "absent">>,
              <<"v3", "absent", "d1", "prefix">>,   <<"d1", "absent", "d3", "swap">>,
              <<"m2", "json_object", "d2", "absent">>, <<"hint", "garbage", "L3", "prefix">> }
DFiles   == {"hint", "v3", "v2", "L3", "L2", "m1r", "m2", "d2", "d3"}
AllPairs == {<<f, cf, g, cg>> \in DFiles \X {"absent", "garbage"} \X DFiles \X {"absent", "garbage", "swap"} :
                f # g /\ cg \in ClassesOf(Kind(g))}
Pairs    == CASE Doubles = "none" -> {} [] Doubles = "few" -> FewPairs [] OTHER -> FewPairs \cup AllPairs
Double2  == {[dmg |-> [Ok EXCEPT ![p[1]] = p[2], ![p[3]] = p[4]], k |-> 0] : p \in Pairs}

Damages == {[dmg |-> Ok, k |-> 0]} \cup Singles1 \cup Double2

Cases ==
  {[dmg |-> x.dmg, k |-> x.k, api |-> o.api, vopt |-> o.vopt, filt |-> o.filt, fresh |-> fr] :
      x \in Damages, o \in Opts, fr \in BOOLEAN}
CasesR == {x \in Cases : Reduced => (x.fresh => x.k = 0)}

Init == c \in CasesR /\ s = S0
Next == s.status = "run" /\ s' = Step(c, s) /\ UNCHANGED c
Spec == Init /\ [][Next]_<<c, s>>

(* ---- invariants ---- *)
Verdict          == RefOK(c, s)                                        \* the property, no carve-outs
VerdictKF        == RefOK(c, s) \/ KF_MetaAbsent(c)                    \* code as it is: ONE open finding named (S12)
VerdictRepaired  == RefOK(c, s) \/ KF_PointerAndTargetLost(c)          \* with the S12 repair modelled as well
NoNeedlessRaise  == HarmlessIsFull(c, s) \/ KF_MetaAbsent(c)
\* anti-vacuity companions: each must FAIL
\*   Verdict            with the as-is flags (the open S12 finding is really in the model)
\*   VerdictKF          with JsonObjectIsEmpty = TRUE (the pre-122cfe9 JSON fallback is really caught)
Sane             == StepSane(c, s)

(* ---- export ---- *)
DmgOut(x) == LET fs == SetToSeq(Damaged(x)) IN [i \in 1..Len(fs) |-> <<fs[i], Kind(fs[i]), x.dmg[fs[i]]>>]
Out(x) ==
  LET e == Run(x) IN
  [rec |-> "case", dmg |-> DmgOut(x), k |-> x.k, api |-> x.api, vopt |-> x.vopt, filt |-> x.filt, fresh |-> x.fresh,
   ref |-> Ref(x, e), kind |-> OutcomeKind(x, e), why |-> e.why, ny |-> e.ny, ans |-> e.ans,
   refok |-> RefOK(x, e),
   kf |-> IF KF_MetaAbsent(x) THEN "meta_absent" ELSE "",
   fired |-> {f \in Damaged(x) : x.dmg[f] = "transient" /\ e.acc[f] >= x.k},
   culprits |-> Culprits(x, e),
   touched |-> {f \in AllFiles : e.acc[f] > 0}]

Graph == [rec |-> "graph", metas |-> Metas, listOf |-> ListOf, mansOf |-> MansOf, dataOf |-> DataOf,
          rowsOf |-> RowsOf, sibling |-> Sibling, pruned |-> Pruned, sel |-> Sel,
          needed |-> [a \in Apis |-> [fl \in Filters |-> Needed(a, fl)]]]

Export == ndJsonSerialize(IOEnv.VERIF_OUT, <<Graph>> \o SetToSeq({Out(x) : x \in CasesR}))
=============================================================================
