--------------------------- MODULE MC_SchemaAccept ---------------------------
(***************************************************************************)
(* Model-checking wrapper for SchemaAccept (C11).                          *)
(*                                                                         *)
(* State machine: from the freshly created table (persisted schema, no     *)
(* data, two open handles with empty Arrow caches) every sequence of at    *)
(* most MaxSteps appends.  One step = [h, fresh, kind, variant, vclass]:   *)
(*   h       which of the two Table handles issues the call                *)
(*   fresh   the handle is re-opened (load_table) just before the call,    *)
(*           i.e. its Arrow-schema cache is empty                          *)
(*   kind    "records" (append_records) or "files" (append_data([file]))   *)
(*   variant the schema argument / the pre-built file's footer schema      *)
(*   vclass  the value class of the batch (records only)                   *)
(* The history is part of the state, so TLC's distinct states are exactly  *)
(* the histories of length <= MaxSteps and every invariant is evaluated    *)
(* after every prefix of every history.                                    *)
(*                                                                         *)
(* Export (POSTCONDITION): every history of length ExportDepth with, per   *)
(* step, the specification's outcome and the reference predicates of the   *)
(* resulting table - the cases the conformance binding replays against the *)
(* real library.                                                           *)
(***************************************************************************)
EXTENDS SchemaAccept, SequencesExt, FiniteSetsExt, Json, IOUtils

CONSTANTS MaxSteps,        \* history length explored by TLC
          ExportDepth,     \* length of the exported histories (0 = no export)
          RichVariants,    \* schema-argument variants combined with EVERY value class
          PlainVariants,   \* schema-argument variants combined with value class "ok" only
          FileVars,        \* pre-built file variants
          VClasses         \* value classes used with RichVariants

VARIABLES st, hist

RecordInputs ==
  { [h |-> h, fresh |-> f, kind |-> "records", variant |-> v, vclass |-> vc] :
      h \in Handles, f \in BOOLEAN, v \in RichVariants, vc \in VClasses }
  \cup
  { [h |-> h, fresh |-> f, kind |-> "records", variant |-> v, vclass |-> "ok"] :
      h \in Handles, f \in BOOLEAN, v \in PlainVariants }

FileInputs ==
  { [h |-> h, fresh |-> f, kind |-> "files", variant |-> v, vclass |-> "ok"] :
      h \in Handles, f \in BOOLEAN, v \in FileVars }

Inputs == RecordInputs \cup FileInputs

ASSUME RichVariants \subseteq RecordVariants /\ PlainVariants \subseteq RecordVariants
ASSUME FileVars \subseteq FileVariants /\ VClasses \subseteq ValueClasses

Init == st = InitState /\ hist = << >>

Next == /\ Len(hist) < MaxSteps
        /\ \E in \in Inputs : /\ st' = Apply(st, in, Len(hist) + 1)
                              /\ hist' = Append(hist, in)

Spec == Init /\ [][Next]_<<st, hist>>

(* ------------------------------ invariants ------------------------------ *)
Inv_RejectedUnchanged     == RejectedUnchanged(st)
Inv_RejectedLeavesNoFile  == RejectedLeavesNoFile(st)
Inv_ScanNeverBreaks       == ScanNeverBreaks(st)
Inv_FilesMatchTable       == FilesMatchTable(st)
Inv_BoundsMeanTheirColumn == BoundsMeanTheirColumn(st)
Inv_AcceptedExact         == AcceptedExact(st)
Inv_ContentIsAccepted     == ContentIsAccepted(st)

\* anti-vacuity targets (each must be REACHABLE, i.e. its negation as an invariant must fail)
Never_AcceptedWithSchemaArg ==
  ~(st.last.ok /\ Len(hist) > 0 /\ hist[Len(hist)].kind = "records" /\ hist[Len(hist)].variant # "omitted")
Never_FooterReject   == ~(~st.last.ok /\ st.last.stage = "footer")
Never_ThreeFiles     == Len(st.files) < 3

(* -------------------------------- export -------------------------------- *)
ColTag(f) == f.name \o ":" \o f.type \o (IF f.nullable THEN "?" ELSE "!")
Tag(arrow) == IF arrow = NoArrow THEN "-"
              ELSE FoldLeft(LAMBDA acc, f : IF acc = "" THEN ColTag(f) ELSE acc \o "," \o ColTag(f), "", arrow)

RECURSIVE StateAfter(_, _)
StateAfter(h, k) == IF k = 0 THEN InitState ELSE Apply(StateAfter(h, k - 1), h[k], k)

StepOut(s, in) ==
  [ ok        |-> s.last.ok,
    stage     |-> s.last.stage,
    nfiles    |-> Len(s.files),
    nsnaps    |-> Len(s.snaps),
    accepted  |-> s.accepted,
    phys      |-> [i \in 1..Len(s.files) |-> Tag(s.files[i].phys)],
    caches    |-> [hh \in 1..2 |-> << Tag(s.cache[hh][TSid]), Tag(s.cache[hh][OSid]) >>],
    scanOk    |-> ScanNeverBreaks(s),
    matchTab  |-> FilesMatchTable(s),
    boundsOk  |-> BoundsMeanTheirColumn(s),
    exact     |-> AcceptedExact(s),
    unchanged |-> RejectedUnchanged(s) ]

Out(h) == [ steps |-> h, outs |-> [k \in 1..Len(h) |-> StepOut(StateAfter(h, k), h[k])] ]

\* first exported record: the specification's own definition of every schema-argument variant,
\* pre-built file footer and batch class, from which the binding builds the concrete inputs
Header ==
  [ header   |-> TRUE,
    tschema  |-> TSchema,
    supplied |-> [v \in RecordVariants |-> Supplied(v)],
    filephys |-> [v \in FileVariants |-> FilePhys(v)],
    batches  |-> [vc \in ValueClasses |-> Batch(vc)],
    ninputs  |-> Cardinality(Inputs) ]

Export ==
  IF ExportDepth = 0 THEN TRUE
  ELSE ndJsonSerialize(IOEnv.VERIF_OUT,
         << Header >> \o SetToSeq({ Out(h) : h \in [1..ExportDepth -> Inputs] }))
=============================================================================
