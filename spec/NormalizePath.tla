---------------------------- MODULE NormalizePath ----------------------------
(***************************************************************************)
(* L2 function-level specification of the garbage collector's path         *)
(* normalisation (component of property C05, requirement NormalizeAgrees;  *)
(* DESIGN S3).                                                             *)
(*                                                                         *)
(* Strings are sequences of single-character strings.                      *)
(*                                                                         *)
(*  TRANSCRIPTION  Normalize(T, path) = garbage_collector.py:315-319       *)
(*      def _normalize_path(self, path):                                   *)
(*          if path.startswith(self.table_path):                           *)
(*              path = path[len(self.table_path):]                         *)
(*          return path.lstrip("/")                                        *)
(*                                                                         *)
(*  How the collector keys paths:                                          *)
(*   mode "asis" (before /repo 526391b): reachable set = Normalize(T,      *)
(*       referenced path) for snapshot.manifest_list, manifest_path,       *)
(*       data_file.file_path, marker payload; candidate = Normalize(T,     *)
(*       listed path) for every table-relative path storage.list_files     *)
(*       returns; a candidate not in the reachable set (and old enough) is *)
(*       DELETED; normalised manifest paths are also handed back to        *)
(*       storage.exists / read_manifest*_file.                             *)
(*   mode "repaired" (since 526391b, = DESIGN 7.1): candidate =            *)
(*       _normalize_listed_path (:321-332, lstrip only); a reference       *)
(*       contributes BOTH readings: _reference_keys (:334-347) =           *)
(*       {lstrip(ref), Normalize(T, ref)}.                                 *)
(*                                                                         *)
(*  REFERENCE  what C05 needs from the function, for a table location      *)
(*  spelled T and internal files p (data/<f>, metadata/manifests/<f>,      *)
(*  metadata/inflight/<f>):                                                *)
(*   Agrees(T)   : every referenced spelling of p normalises to the same   *)
(*                 string as the listed spelling of p                      *)
(*   Distinct(T) : distinct files never normalise to the same string       *)
(*   Usable(T)   : a normalised referenced path is the table-relative path *)
(*                 (what storage resolves)                                 *)
(*                                                                         *)
(*  Mode (named flag, rule "the spec models the code as it is"):           *)
(*   "repaired" : the code as it is (harness/normalize_check.py probes the *)
(*                real functions and picks the faithful mode itself)       *)
(*   "asis"     : the defect S3 - Normalize on both sides; must FAIL       *)
(*                NormalizeAgrees (companion AsIsAgrees), exactly on the   *)
(*                spellings characterised by Bites                         *)
(***************************************************************************)
EXTENDS Integers, Sequences, FiniteSets, TLC

SL == "/"

PrefixOf(a, b) == Len(a) <= Len(b) /\ SubSeq(b, 1, Len(a)) = a             \* b.startswith(a)
RECURSIVE LStrip(_)
LStrip(s) == IF Len(s) > 0 /\ s[1] = SL THEN LStrip(Tail(s)) ELSE s         \* s.lstrip("/")
EndsWithSlash(s) == Len(s) > 0 /\ s[Len(s)] = SL

\* garbage_collector.py:315-319
Normalize(T, path) ==
  LStrip(IF PrefixOf(T, path) THEN SubSeq(path, Len(T) + 1, Len(path)) ELSE path)

(* ---------------- internal files and their spellings ---------------- *)
DATA == <<"d", "a", "t", "a">>
META == <<"m", "e", "t", "a", "d", "a", "t", "a">>
MANI == <<"m", "a", "n", "i", "f", "e", "s", "t", "s">>
INFL == <<"i", "n", "f", "l", "i", "g", "h", "t">>
FileNames == {<<"x">>, <<"y">>}

\* table-relative paths (exactly what storage.list_files returns)
Internal == {DATA \o <<SL>> \o f : f \in FileNames}
       \cup {META \o <<SL>> \o MANI \o <<SL>> \o f : f \in FileNames}
       \cup {META \o <<SL>> \o INFL \o <<SL>> \o f : f \in FileNames}

Listed(p) == p
RefForms == {"rel", "slash", "abs"}
\* "rel": data/x (marker payloads, manifest / manifest-list paths, user-supplied DataFile paths)
\* "slash": /data/x (Iceberg style, what append_data stores: transaction.py:274)
\* "abs": <table location>/data/x (what the prefix strip was written for)
Ref(T, p, form) == CASE form = "rel"   -> p
                     [] form = "slash" -> <<SL>> \o p
                     [] form = "abs"   -> T \o (IF EndsWithSlash(T) THEN <<>> ELSE <<SL>>) \o p

(* ---------------- what GC computes, per mode ---------------- *)
Candidate(mode, T, p) == IF mode = "asis" THEN Normalize(T, Listed(p)) ELSE LStrip(Listed(p))
Reach(mode, T, ref)   == IF mode = "asis" THEN {Normalize(T, ref)} ELSE {LStrip(ref), Normalize(T, ref)}

(* ---------------- reference requirements ---------------- *)
AgreesAt(mode, T, p, form) == Candidate(mode, T, p) \in Reach(mode, T, Ref(T, p, form))
Agrees(mode, T) == \A p \in Internal, form \in RefForms : AgreesAt(mode, T, p, form)

\* a file q that is NOT referenced must not be protected by a reference to p (and two listed files
\* never collapse into one candidate)
Distinct(mode, T) ==
  \A p, q \in Internal : p # q =>
      /\ Candidate(mode, T, p) # Candidate(mode, T, q)
      /\ \A form \in RefForms : Candidate(mode, T, q) \notin Reach(mode, T, Ref(T, p, form))

\* the normalised reference handed back to storage is the table-relative path
Usable(mode, T) == \A p \in Internal, form \in RefForms : p \in Reach(mode, T, Ref(T, p, form))

NormalizeAgrees(mode, T) == Agrees(mode, T) /\ Distinct(mode, T)

(* ---------------- characterisation of the failing spellings ---------------- *)
\* T "bites into" an internal path: it is a non-empty string prefix of a listed path or of its
\* Iceberg spelling, other than a run of slashes
AllSlashes(T) == \A i \in 1..Len(T) : T[i] = SL
Bites(T) == ~AllSlashes(T) /\ \E p \in Internal : PrefixOf(T, p) \/ PrefixOf(T, <<SL>> \o p)
=============================================================================
