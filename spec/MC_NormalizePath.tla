-------------------------- MODULE MC_NormalizePath --------------------------
(***************************************************************************)
(* NormalizeAgrees over ALL table-location spellings up to MaxLen          *)
(* characters over {/, ., d, a, t, m, e, x} plus a named list of longer    *)
(* spellings.  One TLC state per spelling T.                               *)
(*                                                                         *)
(*  Characterisation (invariant, as-is mode): NormalizeAgrees fails        *)
(*     EXACTLY for the spellings that bite into an internal path (Bites).  *)
(*  AsIsAgrees       (must FAIL: the S3 defect is in the domain)           *)
(*  RepairedAgrees   (must HOLD: DESIGN 7.1 candidate fix)                 *)
(*  Export           : per spelling, the verdicts, the failing (directory,  *)
(*     reference form) pairs and the complete input->output table of       *)
(*     Normalize for the differential against the real _normalize_path.    *)
(***************************************************************************)
EXTENDS NormalizePath, SequencesExt, FiniteSetsExt, Json, IOUtils

CONSTANT MaxLen

VARIABLE c

Alphabet == {"/", ".", "d", "a", "t", "m", "e", "x"}

Named ==
  { <<"d","a","t","a">>,                               \* data
    <<"d","a","t","a","2">>,                           \* data2
    <<"d","a","t","a","/">>,                           \* data/
    <<".","/","d","a","t","a">>,                       \* ./data
    <<"m","e","t","a","d","a","t","a">>,               \* metadata
    <<"m","e","t","a","d","a","t","a","2">>,           \* metadata2
    <<"/","w","/","t">>,                               \* /w/t
    <<"/","w","/","t","/">>,                           \* /w/t/
    <<"/","w","/","d","a","t","a">>,                   \* /w/data
    <<"w","/","t">>,                                   \* w/t
    <<"d","a","t">>,                                   \* dat
    <<"m","e","t","a">>,                               \* meta
    <<"/">>,                                           \* /
    \* added by the model's own finding: ABSOLUTE locations that bite into the Iceberg spelling
    <<"/","d","a","t","a">>,                           \* /data
    <<"/","d","a","t","a","/">>,                       \* /data/
    <<"/","m","e","t","a","d","a","t","a">>,           \* /metadata
    <<"d","a","t","a","/","x">>,                       \* data/x
    <<"m","e","t","a","d","a","t","a","/","m">> }      \* metadata/m

Spellings == UNION {[1..k -> Alphabet] : k \in 0..MaxLen} \cup Named

Init == c \in Spellings
Next == UNCHANGED c
Spec == Init /\ [][Next]_c

Characterisation == NormalizeAgrees("asis", c) <=> ~Bites(c)
AsIsAgrees       == NormalizeAgrees("asis", c)
RepairedAgrees   == NormalizeAgrees("repaired", c)
\* Usable may fail in both modes only where the spelling bites (the GC then aborts: fail closed)
UsableUnlessBites == ~Bites(c) => Usable("asis", c)

DirOf(p) == IF PrefixOf(DATA, p) THEN "data"
            ELSE IF PrefixOf(META \o <<SL>> \o MANI, p) THEN "metadata/manifests" ELSE "metadata/inflight"

Inputs(T) == {Listed(p) : p \in Internal} \cup {Ref(T, p, f) : p \in Internal, f \in RefForms}

Out(T) == [T |-> T,
           agrees |-> Agrees("asis", T), distinct |-> Distinct("asis", T), usable |-> Usable("asis", T),
           bites |-> Bites(T),
           repairedAgrees |-> NormalizeAgrees("repaired", T),
           failing |-> SetToSeq({<<DirOf(p), f>> : <<p, f>> \in {pf \in Internal \X RefForms : ~AgreesAt("asis", T, pf[1], pf[2])}}),
           table |-> SetToSeq({[inp |-> i, out |-> Normalize(T, i)] : i \in Inputs(T)}),
           \* the same for the "repaired" mode: candidate key of every listed path, reachable keys of every reference
           candR |-> SetToSeq({[inp |-> Listed(p), out |-> Candidate("repaired", T, p)] : p \in Internal}),
           reachR |-> SetToSeq({[inp |-> Ref(T, pf[1], pf[2]), out |-> SetToSeq(Reach("repaired", T, Ref(T, pf[1], pf[2])))] : pf \in Internal \X RefForms})]

Export == TLCGet("distinct") >= 0 /\ ndJsonSerialize(IOEnv.VERIF_OUT, SetToSeq({Out(T) : T \in Spellings}))
=============================================================================
