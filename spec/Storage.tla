------------------------------- MODULE Storage -------------------------------
(***************************************************************************)
(* C20 - "Both storage backends implement the same contract".              *)
(*                                                                         *)
(*  Ref*    : the REFERENCE contract.  A table is a map key -> (bytes,     *)
(*            mtime); a path names the key obtained by dropping leading    *)
(*            slashes; a directory d lists exactly the keys below "d/".    *)
(*            Independent of both implementations.                         *)
(*  Local*  : transcription of LocalStorageBackend                         *)
(*            (storage_backend.py:161-391) over an abstract file system    *)
(*            (files + directories that were ever created).                *)
(*  S3*     : transcription of S3StorageBackend (storage_backend.py:       *)
(*            519-867) over a strongly consistent object store (what the   *)
(*            fake S3 implements: exact-key GET/HEAD/PUT/DELETE, listing   *)
(*            by raw string prefix in key order).                          *)
(*                                                                         *)
(* Paths and keys are real strings (TLC: Len, SubSeq and \o work on         *)
(* strings), so "list by raw string prefix" is modelled literally.         *)
(*                                                                         *)
(* Flags (constants) - the specification models the code AS IT IS with     *)
(*   S3ListRaw = FALSE  list_files passes Prefix="<_get_s3_key(dir)>/"      *)
(*                      (storage_backend.py:773-781, since /repo 5e63743). *)
(*                      TRUE models the former defect (finding             *)
(*                      C20-s3-list-sibling-prefix): Prefix without the    *)
(*                      trailing "/", so keys of sibling directories       *)
(*                      sharing the name as a string prefix leak into the  *)
(*                      listing - kept as a must-fail companion.           *)
(*   S3ExistsAlwaysLists = FALSE.  TRUE models the mutant "exists falls    *)
(*                      back to a prefix listing for every key" (anti-     *)
(*                      vacuity companion).                                *)
(***************************************************************************)
EXTENDS Integers, Sequences, FiniteSets, TLC

CONSTANTS Keys,                \* the table-relative keys of the model universe (strings)
          TablePrefix,         \* S3StorageBackend(prefix=...) as passed by the caller
          S3ListRaw,
          S3ExistsAlwaysLists

(* ------------------------------ strings ------------------------------ *)
StartsWith(s, p) == Len(p) <= Len(s) /\ SubSeq(s, 1, Len(p)) = p
EndsWith(s, p)   == Len(p) <= Len(s) /\ SubSeq(s, Len(s) - Len(p) + 1, Len(s)) = p
RECURSIVE LStrip(_)
LStrip(s) == IF Len(s) > 0 /\ SubSeq(s, 1, 1) = "/" THEN LStrip(SubSeq(s, 2, Len(s))) ELSE s
RECURSIVE RStrip(_)
RStrip(s) == IF Len(s) > 0 /\ SubSeq(s, Len(s), Len(s)) = "/" THEN RStrip(SubSeq(s, 1, Len(s) - 1)) ELSE s

(* proper ancestor directories of a relative path: "a/b/c" -> {"a", "a/b"} *)
Ancestors(k) == {SubSeq(k, 1, i - 1) : i \in {j \in 2..Len(k) : SubSeq(k, j, j) = "/"}}
AllDirs == UNION {Ancestors(k) : k \in Keys}

(* no key is a directory of another key: otherwise the local file system could not hold both *)
ASSUME \A k \in Keys : k \notin AllDirs /\ k = LStrip(k) /\ k = RStrip(k) /\ k # ""

(* ------------------------------ values ------------------------------- *)
Absent     == [present |-> FALSE, c |-> "", t |-> 0]
File(c, t) == [present |-> TRUE, c |-> c, t |-> t]

\* results, one shape per query kind so that equal kinds are always comparable
RRead(ok, c)   == [r |-> IF ok THEN "ok" ELSE "notfound", c |-> c]
RNum(ok, n)    == [r |-> IF ok THEN "ok" ELSE "notfound", n |-> n]

(* =========================== REFERENCE ================================ *)
\* store : [Keys -> File/Absent]
KeyOf(p) == LStrip(p)
DirOf(d) == RStrip(LStrip(d))
Under(k, dd) == dd = "" \/ StartsWith(k, dd \o "/")

RefGet(S, p) == IF KeyOf(p) \in Keys THEN S[KeyOf(p)] ELSE Absent
RefRead(S, p)   == LET f == RefGet(S, p) IN RRead(f.present, f.c)
RefExists(S, p) == RefGet(S, p).present
RefSize(S, p)   == LET f == RefGet(S, p) IN RNum(f.present, IF f.present THEN Len(f.c) ELSE 0)
RefMtime(S, p)  == LET f == RefGet(S, p) IN RNum(f.present, f.t)
RefList(S, d)   == {k \in Keys : S[k].present /\ Under(k, DirOf(d))}
RefWrite(S, p, c, t) == [S EXCEPT ![KeyOf(p)] = File(c, t)]
RefDelete(S, p)      == [S EXCEPT ![KeyOf(p)] = Absent]

(* ====================== LocalStorageBackend =========================== *)
\* L = [files : [Keys -> File/Absent], dirs : SUBSET AllDirs]; paths are kept relative to the
\* canonical base (the escape check of _resolve_path, 179-212, is C17's subject).
\* _resolve_path (187-199): join(base, path.lstrip("/")) then realpath (drops a trailing "/").
LResolve(p) == RStrip(LStrip(p))
LIsFile(L, rp) == rp \in Keys /\ L.files[rp].present
LIsDir(L, rp)  == rp = "" \/ rp \in L.dirs
\* exists (334-336): os.path.exists - true for files AND directories
LocalExists(L, p) == LET rp == LResolve(p) IN LIsFile(L, rp) \/ LIsDir(L, rp)
\* read_file (214-217): open(...).read(); FileNotFoundError when absent (IsADirectoryError for a directory)
LocalRead(L, p) == LET rp == LResolve(p) IN
  IF LIsFile(L, rp) THEN RRead(TRUE, L.files[rp].c)
  ELSE IF LIsDir(L, rp) THEN [r |-> "isdir", c |-> ""] ELSE RRead(FALSE, "")
\* get_size (380-382) / get_modified_time (384-386): os.path.getsize / getmtime
LocalSize(L, p) == LET rp == LResolve(p) IN
  IF LIsFile(L, rp) THEN RNum(TRUE, Len(L.files[rp].c))
  ELSE IF LIsDir(L, rp) THEN [r |-> "isdir", n |-> 0] ELSE RNum(FALSE, 0)
LocalMtime(L, p) == LET rp == LResolve(p) IN
  IF LIsFile(L, rp) THEN RNum(TRUE, L.files[rp].t)
  ELSE IF LIsDir(L, rp) THEN [r |-> "isdir", n |-> 0] ELSE RNum(FALSE, 0)
\* list_files (338-369): [] when the resolved prefix does not exist, else os.walk below it,
\* paths relative to the base.  Walking a plain file yields nothing.
LocalList(L, d) == LET rd == LResolve(d) IN
  IF ~(LIsFile(L, rd) \/ LIsDir(L, rd)) THEN {}
  ELSE IF LIsFile(L, rd) THEN {}
  ELSE {k \in Keys : L.files[k].present /\ (rd = "" \/ StartsWith(k, rd \o "/"))}
\* write_file (228-312): makedirs(dirname) + temp file + os.replace
LocalWrite(L, p, c, t) == LET rp == LResolve(p) IN
  [files |-> [L.files EXCEPT ![rp] = File(c, t)], dirs |-> L.dirs \cup Ancestors(rp)]
\* delete_file (371-374): remove if it exists (directories stay)
LocalDelete(L, p) == LET rp == LResolve(p) IN
  IF LIsFile(L, rp) THEN [L EXCEPT !.files[rp] = Absent] ELSE L

(* ======================== S3StorageBackend ============================ *)
\* O : [FullKeys -> File/Absent], FullKeys = the S3 keys of the model's Keys.
Pfx == RStrip(TablePrefix)                                   \* __init__ (539): prefix.rstrip("/")
\* _get_s3_key (576-584)
S3Key(p) == LET q == LStrip(p) IN IF Pfx # "" THEN Pfx \o "/" \o q ELSE q
FullKeys == {S3Key(k) : k \in Keys}
\* list_files (794-797): strip "<prefix>/" from a listed key
S3Rel(key) == IF Pfx # "" /\ StartsWith(key, Pfx \o "/") THEN SubSeq(key, Len(Pfx) + 2, Len(key)) ELSE key

\* the object store: exact-key lookup, listing by raw string prefix
StoreHas(O, key)      == key \in DOMAIN O /\ O[key].present
StoreList(O, prefix)  == {k \in DOMAIN O : O[k].present /\ StartsWith(k, prefix)}

\* exists (730-762): HEAD; 404 -> only keys written with a trailing "/" fall back to a listing
S3Exists(O, p) == LET key == S3Key(p) IN
  IF StoreHas(O, key) THEN TRUE
  ELSE IF ~EndsWith(key, "/") /\ ~S3ExistsAlwaysLists THEN FALSE
  ELSE StoreList(O, key) # {}
\* read_file (586-610): GET; NoSuchKey -> FileNotFoundError
S3Read(O, p) == LET key == S3Key(p) IN IF StoreHas(O, key) THEN RRead(TRUE, O[key].c) ELSE RRead(FALSE, "")
\* get_size (822-838) / get_modified_time (840-858): HEAD; 404 -> FileNotFoundError
S3Size(O, p)  == LET key == S3Key(p) IN IF StoreHas(O, key) THEN RNum(TRUE, Len(O[key].c)) ELSE RNum(FALSE, 0)
S3Mtime(O, p) == LET key == S3Key(p) IN IF StoreHas(O, key) THEN RNum(TRUE, O[key].t) ELSE RNum(FALSE, 0)
\* list_files (764-802): s3_prefix = _get_s3_key(prefix), "/" appended unless empty or already there
\* (780-781), paginate(Prefix=s3_prefix), every page, table prefix stripped
S3ListPrefix(d) == LET key == S3Key(d) IN
  IF S3ListRaw THEN key                                                 \* the former defect
  ELSE IF key # "" /\ ~EndsWith(key, "/") THEN key \o "/" ELSE key
S3List(O, d) == {S3Rel(k) : k \in StoreList(O, S3ListPrefix(d))}
\* write_file (646-672): PUT; delete_file (804-816): DELETE (idempotent)
S3Write(O, p, c, t) == [O EXCEPT ![S3Key(p)] = File(c, t)]
S3Delete(O, p)      == [O EXCEPT ![S3Key(p)] = Absent]

=============================================================================
