------------------------------ MODULE ReadPath ------------------------------
(***************************************************************************)
(* L2 specification of DataShard's read path under file damage (C14:       *)
(* "reads fail closed").                                                   *)
(*                                                                         *)
(* PART 1  the file graph  hint -> metadata file -> manifest list ->        *)
(*         manifests -> data files  (constants; MC_ReadPath instantiates   *)
(*         the table the binding builds: three commits, the last a delete  *)
(*         that rewrote a manifest, so older-snapshot-only files exist).   *)
(* PART 2  damage classes and what each storage call / parser does on a    *)
(*         damaged file.                                                   *)
(* PART 3  the read programs: a line-by-line transcription of the code as  *)
(*         a step function Step(c, s): one step = one storage call (or one *)
(*         control decision); source ranges are noted at each arm.         *)
(*           metadata_manager.py:120-134 refresh, :577-582, :584-628,      *)
(*                               :630-641 _current_version_info            *)
(*           transaction.py:1244-1306 _get_all_data_files                  *)
(*           file_manager.py:423-481 read_manifest_list_file               *)
(*           file_manager.py:275-370 read_manifest_file                    *)
(*           transaction.py:890-901 row_count, :965-1016 _scan_table,      *)
(*             :917-963 _read_datafile_table, :1086-1181 scan_batches /    *)
(*             _iter_file_batches, :1183-1206 iter_records,                *)
(*             :908-915 _resolve_verify_checksums, :809-811 current_snapshot*)
(* PART 4  the REFERENCE rule, written from the property statement only    *)
(*         (it never looks at the programs): which damage obliges the read *)
(*         to raise, and what a finished read may return.                  *)
(*                                                                         *)
(* Named flags.  The code AS IT IS is: RecoverOnMissingTarget = TRUE,       *)
(* JsonObjectIsEmpty = FALSE, ChecksumEnforced = TRUE, VerifyDefault = TRUE.*)
(*   RecoverOnMissingTarget  metadata_manager.py:636-641: a hint that      *)
(*       names a missing metadata file silently falls back to scanning     *)
(*       (DESIGN S12) -> an older version is served as current.  OPEN      *)
(*       finding (collides with C10's recovery rule); FALSE = a repair.    *)
(*   JsonObjectIsEmpty       file_manager.py:350 / :466.  Before /repo     *)
(*       commit 122cfe9 the JSON fallback read `.get("files", [])` /       *)
(*       `.get("manifests", [])`, so ANY JSON object was accepted as an    *)
(*       EMPTY manifest / manifest list (TRUE).  The fix indexes the key   *)
(*       (KeyError -> ValueError): FALSE is the faithful model; TRUE is    *)
(*       kept only as an anti-vacuity companion that must fail.            *)
(*   ChecksumEnforced        transaction.py:942-946 / :1160-1163 raise on  *)
(*       mismatch (FALSE = "only logged": used for anti-vacuity).          *)
(*   VerifyDefault           transaction.py:913 default "true".            *)
(***************************************************************************)
EXTENDS Integers, Sequences, FiniteSets, TLC

CONSTANTS
  RecoverOnMissingTarget, JsonObjectIsEmpty, ChecksumEnforced, VerifyDefault,
  Metas,      \* sequence of metadata files in version order; the hint names the last one
  ListOf,     \* metadata file -> manifest list of its current snapshot
  MansOf,     \* manifest list -> sequence of manifests
  DataOf,     \* manifest      -> sequence of data files (entries; ADDED or EXISTING)
  RowsOf,     \* data file     -> sequence of row ids
  AltRowsOf,  \* data file     -> rows after an "altered but parses" rewrite
  Sibling,    \* file -> the same-kind file whose bytes replace it under "swap"
  Filters,    \* set of filter names, contains "none"
  Sel,        \* filter -> set of row ids that satisfy it (reference semantics of the filter)
  Pruned      \* filter -> set of data files whose manifest bounds exclude the filter

(* ------------------------------ PART 1 --------------------------------- *)
Hint == "hint"
Rng(q) == {q[i] : i \in 1..Len(q)}
AllMetas == Rng(Metas)
AllLists == {ListOf[m] : m \in AllMetas}
AllMans  == UNION {Rng(MansOf[l]) : l \in AllLists}
AllData  == UNION {Rng(DataOf[m]) : m \in AllMans}
AllFiles == {Hint} \cup AllMetas \cup AllLists \cup AllMans \cup AllData

Kind(f) == IF f = Hint THEN "hint"
           ELSE IF f \in AllMetas THEN "meta"
           ELSE IF f \in AllLists THEN "list"
           ELSE IF f \in AllMans THEN "manifest" ELSE "data"

CurMeta == Metas[Len(Metas)]
CurList == ListOf[CurMeta]
CurMans == Rng(MansOf[CurList])
CurData == UNION {Rng(DataOf[m]) : m \in CurMans}

(* ------------------------------ PART 2 --------------------------------- *)
(* Damage classes (one per file; "ok" = undamaged):                        *)
(*   absent       unlinked                                                 *)
(*   prefix       cut to a prefix that does not parse                      *)
(*   garbage      replaced by bytes that parse as nothing (random bytes,   *)
(*                a file of another kind, JSON that is not an object)      *)
(*   json_object  replaced by a JSON object that is not a manifest / list  *)
(*                / metadata document ({}; the table's own metadata JSON)  *)
(*   swap         replaced by the bytes of Sibling[f] (parses, other file) *)
(*   altered      data only: rewritten with a changed value (parses)       *)
(*   benign       bytes changed, logical content identical (a flipped byte *)
(*                in a region the parsers ignore, e.g. the leading magic)  *)
(*   transient    bytes intact; the k-th storage call on the file raises   *)
(*                OSError (k = c.k)                                         *)
(***************************************************************************)
UnparseableClasses == {"prefix", "garbage", "json_object"}
ClassesOf(kind) ==
  CASE kind = "hint" -> {"absent", "garbage", "transient"}
    [] kind = "data" -> {"absent", "prefix", "garbage", "swap", "altered", "benign", "transient"}
    [] OTHER         -> {"absent", "prefix", "garbage", "json_object", "swap", "benign", "transient"}

D(c, f)           == c.dmg[f]
Present(c, f)     == D(c, f) # "absent"
Src(c, f)         == IF D(c, f) = "swap" THEN Sibling[f] ELSE f    \* whose content sits under f's name
Parses(c, f)      == D(c, f) \notin UnparseableClasses /\ Present(c, f)
BytesIntact(c, f) == D(c, f) \in {"ok", "transient"}
Damaged(c)        == {f \in AllFiles : D(c, f) # "ok"}

\* transaction.py:908-915
Verify(c) == IF c.vopt = "default" THEN VerifyDefault ELSE c.vopt = "on"

(* ------------------------------ PART 3 --------------------------------- *)
(* Interpreter state s:                                                    *)
(*  pc, ret (return address of the refresh subroutine), status run/raise/  *)
(*  done, why, acc (storage calls made per file), meta (metadata content   *)
(*  resolved, "none" when no table is found), target, list, mans, mi,      *)
(*  files, fi, failed (parallel scan: a worker failed), buf (rows gathered *)
(*  by scan), out (rows yielded by a generator), ny (batches yielded),     *)
(*  ans (final answer as a sequence).                                      *)
(***************************************************************************)
IsGen(api)  == api \in {"batches_1", "batches_big", "iter"}
RowApis     == {"scan", "scan_par", "batches_1", "batches_big", "iter"}
Apis        == RowApis \cup {"count", "cursnap"}

S0 == [pc |-> "start", ret |-> "", status |-> "run", why |-> "",
       acc |-> [f \in AllFiles |-> 0], meta |-> "none", target |-> "", list |-> "",
       mans |-> <<>>, mi |-> 1, files |-> <<>>, fi |-> 1, failed |-> FALSE,
       buf |-> <<>>, out |-> <<>>, ny |-> 0, ans |-> <<>>]

Tick(s, f)     == [s EXCEPT !.acc[f] = @ + 1]
Fires(c, s, f) == D(c, f) = "transient" /\ s.acc[f] + 1 = c.k
Goto(s, p)     == [s EXCEPT !.pc = p]
Raise(s, why)  == [s EXCEPT !.status = "raise", !.why = why, !.pc = "end"]
Done(s, ans)   == [s EXCEPT !.status = "done", !.ans = ans, !.pc = "end"]
Refresh(s, r)  == [s EXCEPT !.pc = "r_exists_hint", !.ret = r]
Return(s)      == [s EXCEPT !.pc = s.ret]

MaxOf(S) == CHOOSE x \in S : \A y \in S : x >= y

\* append the entries of q not yet present (transaction.py:1296-1304, de-duplication by path)
RECURSIVE AppendNew(_, _)
AppendNew(acc, q) == IF q = <<>> THEN acc
                     ELSE AppendNew(IF Head(q) \in Rng(acc) THEN acc ELSE Append(acc, Head(q)), Tail(q))

RECURSIVE Flat(_)
Flat(q) == IF q = <<>> THEN <<>> ELSE Head(q) \o Flat(Tail(q))

\* one failing data file: the sequential paths raise at once; the parallel scan
\* (transaction.py:1009-1012, list(executor.map(...))) lets every worker run and re-raises the
\* exception of the first failing file in list order.
DataFail(c, s, why) ==
  IF c.api = "scan_par"
  THEN [s EXCEPT !.failed = TRUE, !.why = IF s.failed THEN s.why ELSE why, !.fi = @ + 1, !.pc = "a_loop"]
  ELSE Raise(s, why)

\* exists() on a list / manifest: pc names, the error each site raises, and the next pc
ExistsStep(c, s, f, why, next) ==
  LET t == Tick(s, f) IN
  IF Fires(c, s, f) THEN Raise(t, "OSError(transient)")
  ELSE IF ~Present(c, f) THEN Raise(t, why)
  ELSE Goto(t, next)

Step(c, s) ==
  LET f_list == s.list
      f_man  == IF s.mi <= Len(s.mans) THEN s.mans[s.mi] ELSE ""
      f_data == IF s.fi <= Len(s.files) THEN s.files[s.fi] ELSE ""
  IN
  CASE s.pc = "start" ->
        \* a fresh handle: load_table() refreshes once before any read (iceberg.py:57-76)
        IF c.fresh THEN Refresh(s, "opened") ELSE Goto(s, "api")
    [] s.pc = "opened" ->                                          \* iceberg.py:73-74
        IF s.meta = "none" THEN Raise(s, "ValueError(No Iceberg table found)") ELSE Goto(s, "api")
    [] s.pc = "api" ->
        \* every API starts with current_snapshot() -> refresh (transaction.py:809-811, :1251)
        Refresh(s, IF c.api = "cursnap" THEN "cs_done" ELSE "g_snap")

    (* ---- refresh(): metadata_manager.py:120-134, :630-641, :577-582 ---- *)
    [] s.pc = "r_exists_hint" ->                                   \* :579 storage.exists(HINT)
        LET t == Tick(s, Hint) IN
        IF Fires(c, s, Hint) THEN Raise(t, "OSError(transient)")
        ELSE IF ~Present(c, Hint) THEN Goto(t, "r_list") ELSE Goto(t, "r_read_hint")
    [] s.pc = "r_read_hint" ->                                     \* :581-582 read + parse
        LET t == Tick(s, Hint) IN
        IF Fires(c, s, Hint) THEN Raise(t, "OSError(transient)")
        ELSE IF D(c, Hint) = "garbage" THEN Goto(t, "r_list")      \* unparseable -> None -> recovery
        ELSE [t EXCEPT !.target = CurMeta, !.pc = "r_exists_meta"]
    [] s.pc = "r_exists_meta" ->                                   \* :639 exists(metadata/<named>)
        LET t == Tick(s, s.target) IN
        IF Fires(c, s, s.target) THEN Raise(t, "OSError(transient)")
        ELSE IF Present(c, s.target) THEN Goto(t, "r_read_meta")
        ELSE IF RecoverOnMissingTarget THEN Goto(t, "r_list")      \* :641 silent fallback (S12)
        ELSE Raise(t, "metadata file named by the hint is missing")
    [] s.pc = "r_list" ->                                          \* :584-628 highest version on disk
        LET present == {i \in 1..Len(Metas) : Present(c, Metas[i])} IN
        IF present = {} THEN Return([s EXCEPT !.meta = "none"])    \* refresh() returns None
        ELSE [s EXCEPT !.target = Metas[MaxOf(present)], !.pc = "r_read_meta"]
    [] s.pc = "r_read_meta" ->                                     \* :134/:383-386 read_json + _dict_to_metadata
        LET f == s.target  t == Tick(s, f) IN
        IF Fires(c, s, f) THEN Raise(t, "OSError(transient)")
        ELSE IF ~Present(c, f) THEN Raise(t, "FileNotFoundError")
        ELSE IF ~Parses(c, f) THEN Raise(t, "JSONDecodeError/UnicodeDecodeError/KeyError")
        ELSE Return([t EXCEPT !.meta = Src(c, f)])

    (* ---- current_snapshot(): transaction.py:809-811 ---- *)
    [] s.pc = "cs_done" -> Done(s, IF s.meta = "none" THEN <<>> ELSE <<s.meta>>)

    (* ---- _get_all_data_files(): transaction.py:1244-1306 ---- *)
    [] s.pc = "g_snap" ->
        IF s.meta = "none"
        THEN [s EXCEPT !.files = <<>>, !.pc = "a_files"]           \* :1252-1264 "empty table"
        ELSE [s EXCEPT !.list = ListOf[s.meta], !.pc = "g_exists_list"]
    [] s.pc = "g_exists_list" ->                                   \* :1270-1274
        ExistsStep(c, s, f_list, "RuntimeError(missing manifest list)", "g_exists_list2")
    [] s.pc = "g_exists_list2" ->                                  \* file_manager.py:425-426
        ExistsStep(c, s, f_list, "FileNotFoundError", "g_open_list")
    [] s.pc = "g_open_list" ->                                     \* file_manager.py:429-456 Avro
        LET t == Tick(s, f_list) IN
        IF Fires(c, s, f_list) \/ ~Parses(c, f_list)
        THEN Goto(t, "g_json_list")      \* (ValueError, IndexError, StopIteration, OSError) -> JSON fallback
                                         \* (an EOFError from some cut points is not caught: raises directly)
        ELSE [t EXCEPT !.mans = MansOf[Src(c, f_list)], !.mi = 1, !.files = <<>>, !.pc = "g_man"]
    [] s.pc = "g_json_list" ->                                     \* file_manager.py:458-481 JSON fallback
        LET t == Tick(s, f_list) IN
        IF Fires(c, s, f_list) THEN Raise(t, "OSError(transient)")
        ELSE IF ~Present(c, f_list) THEN Raise(t, "FileNotFoundError")
        ELSE IF D(c, f_list) = "json_object" /\ JsonObjectIsEmpty
        THEN [t EXCEPT !.mans = <<>>, !.mi = 1, !.files = <<>>, !.pc = "g_man"]   \* pre-122cfe9: .get("manifests", [])
        ELSE Raise(t, "ValueError(could not parse manifest list)")      \* :466 list_data["manifests"] -> KeyError -> :481
    [] s.pc = "g_man" ->                                           \* :1281 for manifest_ref in ...
        IF s.mi > Len(s.mans) THEN Goto(s, "a_files") ELSE Goto(s, "g_exists_man")
    [] s.pc = "g_exists_man" ->                                    \* :1288-1292
        ExistsStep(c, s, f_man, "RuntimeError(missing manifest)", "g_exists_man2")
    [] s.pc = "g_exists_man2" ->                                   \* file_manager.py:277-278
        ExistsStep(c, s, f_man, "FileNotFoundError", "g_open_man")
    [] s.pc = "g_open_man" ->                                      \* file_manager.py:280-339 Avro
        LET t == Tick(s, f_man) IN
        IF Fires(c, s, f_man) \/ ~Parses(c, f_man)
        THEN Goto(t, "g_json_man")
        ELSE [t EXCEPT !.files = AppendNew(s.files, DataOf[Src(c, f_man)]), !.mi = @ + 1, !.pc = "g_man"]
    [] s.pc = "g_json_man" ->                                      \* file_manager.py:341-370 JSON fallback
        LET t == Tick(s, f_man) IN
        IF Fires(c, s, f_man) THEN Raise(t, "OSError(transient)")
        ELSE IF ~Present(c, f_man) THEN Raise(t, "FileNotFoundError")
        ELSE IF D(c, f_man) = "json_object" /\ JsonObjectIsEmpty
        THEN [t EXCEPT !.mi = @ + 1, !.pc = "g_man"]               \* pre-122cfe9: .get("files", []) -> no entries
        ELSE Raise(t, "ValueError(could not parse manifest)")           \* :350 manifest_data["files"] -> KeyError -> :370

    (* ---- the APIs after the file list is known ---- *)
    [] s.pc = "a_files" ->
        IF c.api = "count"                                         \* transaction.py:900-901
        THEN Done(s, Flat([i \in 1..Len(s.files) |-> RowsOf[s.files[i]]]))   \* sum of record_count
        ELSE IF s.files = <<>> THEN Done(s, <<>>)                  \* :990-991 / :1125-1126
        ELSE IF c.filt # "none" THEN Refresh(s, "a_prune")         \* :998 / :1121 _get_current_schema -> refresh
        ELSE [s EXCEPT !.fi = 1, !.pc = "a_loop"]
    [] s.pc = "a_prune" ->                                         \* :999-1002 / :1122-1126
        LET kept == IF s.meta = "none" THEN s.files
                    ELSE SelectSeq(s.files, LAMBDA d : d \notin Pruned[c.filt]) IN
        IF kept = <<>> THEN Done(s, <<>>)
        ELSE [s EXCEPT !.files = kept, !.fi = 1, !.pc = "a_loop"]
    [] s.pc = "a_loop" ->                                          \* :1009-1016 / :1156
        IF s.fi > Len(s.files)
        THEN IF s.failed THEN Raise(s, s.why)
             ELSE Done(s, IF IsGen(c.api) THEN s.out ELSE s.buf)
        ELSE Goto(s, IF Verify(c) THEN "d_read" ELSE "d_open")

    (* ---- one data file: transaction.py:917-963 / :1156-1181 ---- *)
    [] s.pc = "d_read" ->                                          \* verify: :941 / :1159 whole object + SHA-256
        LET t == Tick(s, f_data) IN
        IF Fires(c, s, f_data) THEN DataFail(c, t, "OSError(transient)")
        ELSE IF ~Present(c, f_data) THEN DataFail(c, t, "FileNotFoundError")
        ELSE IF ~BytesIntact(c, f_data) /\ ChecksumEnforced THEN DataFail(c, t, "CorruptDataError")
        ELSE Goto(t, "d_parse")
    [] s.pc = "d_open" ->                                          \* no verify: :958 / :1166 open_parquet_source
        LET t == Tick(s, f_data) IN
        IF Fires(c, s, f_data) THEN DataFail(c, t, "OSError(transient)")
        ELSE IF ~Present(c, f_data) THEN DataFail(c, t, "FileNotFoundError")
        ELSE Goto(t, "d_footer")
    [] s.pc = "d_footer" ->                                        \* parquet footer read (ParquetFile / read_table)
        LET t == Tick(s, f_data) IN
        IF Fires(c, s, f_data) THEN DataFail(c, t, "OSError(transient)")
        ELSE IF ~Parses(c, f_data) THEN DataFail(c, t, "ArrowInvalid")
        ELSE Goto(t, "d_pages")
    [] s.pc = "d_pages" ->                                         \* column chunks / row group read
        LET t == Tick(s, f_data) IN
        IF Fires(c, s, f_data) THEN DataFail(c, t, "OSError(transient)")
        ELSE Goto(t, "d_parse")
    [] s.pc = "d_parse" ->
        IF ~Parses(c, f_data) THEN DataFail(c, s, "ArrowInvalid")
        ELSE
        LET rows == IF D(c, f_data) = "altered" THEN AltRowsOf[f_data] ELSE RowsOf[Src(c, f_data)]
            sel  == SelectSeq(rows, LAMBDA r : r \in Sel[c.filt])
        IN
        IF ~IsGen(c.api)
        THEN [s EXCEPT !.buf = @ \o sel, !.fi = @ + 1, !.pc = "a_loop"]
        ELSE \* :1170-1181: one batch per row (batch_size 1) or per file; empty batches are not yielded
             [s EXCEPT !.out = @ \o sel,
                       !.ny = @ + (IF c.api = "batches_1" THEN Len(sel) ELSE IF sel = <<>> THEN 0 ELSE 1),
                       !.fi = @ + 1, !.pc = "a_loop"]

RECURSIVE RunFrom(_, _)
RunFrom(c, s) == IF s.status # "run" THEN s ELSE RunFrom(c, Step(c, s))
Run(c) == RunFrom(c, S0)

(* ------------------------------ PART 4 --------------------------------- *)
(* REFERENCE rule (from the statement of C14; independent of PART 3).      *)
(***************************************************************************)
\* what the read needs: the current metadata file; for everything but current_snapshot the
\* current list and manifests; for row-returning reads the current data files that may hold a
\* matching row (a file excluded by its bounds holds none).  Older-snapshot-only files and the
\* data files for row_count are outside the read.
Needed(api, filt) ==
  {CurMeta}
  \cup (IF api = "cursnap" THEN {} ELSE {CurList} \cup CurMans)
  \cup (IF api \in RowApis THEN CurData \ Pruned[filt] ELSE {})

\* "verification on (the default)"
RefVerify(vopt) == vopt \in {"on", "default"}

\* does the statement speak about this damage?  (the hint is C10's subject, not C14's)
InStatement(f, cls, vopt) ==
  /\ Kind(f) # "hint"
  /\ \/ cls \in {"absent", "prefix", "garbage", "json_object", "transient"}
     \/ Kind(f) = "data" /\ RefVerify(vopt) /\ cls \in {"swap", "altered", "benign"}

\* a transient fault exists only if it fired during this read
Effective(c, s, f) == D(c, f) # "transient" \/ s.acc[f] >= c.k

Culprits(c, s) == {f \in Damaged(c) : f \in Needed(c.api, c.filt) /\ InStatement(f, D(c, f), c.vopt) /\ Effective(c, s, f)}

Harmless(c, s, f) ==
  /\ Kind(f) # "hint"
  /\ \/ f \notin Needed(c.api, c.filt)
     \/ ~Effective(c, s, f)
     \/ D(c, f) = "benign"

\* A needed metadata file / list / manifest that still PARSES but to other content (swap) sends the
\* reader to a different file graph: the statement's premise ("reachable from the current
\* snapshot") is no longer what any reader can see, so nothing downstream is judged either.
Redirected(c, s) ==
  \E f \in Damaged(c) : /\ Kind(f) \in {"meta", "list", "manifest"}
                        /\ f \in Needed(c.api, c.filt)
                        /\ D(c, f) = "swap"

Ref(c, s) == IF Redirected(c, s) THEN "unconstrained"
             ELSE IF Culprits(c, s) # {} THEN "must_raise"
             ELSE IF \A f \in Damaged(c) : Harmless(c, s, f) THEN "full_or_raise"
             ELSE "unconstrained"      \* damage that still parses to other content (altered / swapped
                                       \* data without verification) or hint damage: observed, not judged

ExpectedRows(filt) == {r \in UNION {Rng(RowsOf[d]) : d \in CurData} : r \in Sel[filt]}
Expected(c) == CASE c.api = "cursnap" -> {CurMeta}
                 [] c.api = "count"   -> ExpectedRows("none")
                 [] OTHER             -> ExpectedRows(c.filt)

OutcomeKind(c, s) ==
  LET a == Rng(s.ans)  nodup == Cardinality(a) = Len(s.ans)  e == Expected(c) IN
  IF s.status = "raise" THEN "Raise"
  ELSE IF a = e /\ nodup THEN "Full"
  ELSE IF s.ans = <<>> THEN "Empty"          \* a broken table reported as an empty one
  ELSE IF a \subseteq e /\ nodup THEN "Partial"
  ELSE "Wrong"                               \* rows of another version / another file

RefOK(c, s) ==
  s.status # "run" =>
    LET r == Ref(c, s)  k == OutcomeKind(c, s) IN
    CASE r = "must_raise"    -> k = "Raise"
      [] r = "full_or_raise" -> k \in {"Raise", "Full"}
      [] OTHER               -> TRUE

\* stronger facts about the transcription (used as the drift baseline by the binding):
\* harmless damage never disturbs the read
HarmlessIsFull(c, s) == (s.status # "run" /\ Ref(c, s) = "full_or_raise") => OutcomeKind(c, s) = "Full"
\* nothing is yielded or returned after a failure, counters only grow
StepSane(c, s) == /\ s.status = "raise" => s.ans = <<>>
                  /\ s.ny <= Len(s.out)

(* ---- open findings, carved out by name (DESIGN section 8) ---- *)
\* F1 (S12): the current metadata file is absent; recovery serves an older version (or "no table")
KF_MetaAbsent(c) == D(c, CurMeta) = "absent"
\* F2 (FIXED by /repo 122cfe9): a current list / manifest replaced by a JSON object was read as an
\* empty one.  Only the must-fail companion (JsonObjectIsEmpty = TRUE) still reaches this.
KF_JsonObject(c) == \E f \in {CurList} \cup CurMans : D(c, f) = "json_object"
\* inherent (C10's territory): pointer AND its target lost - nothing on storage records that the
\* newer version ever existed
KF_PointerAndTargetLost(c) == D(c, CurMeta) = "absent" /\ D(c, Hint) \in {"absent", "garbage"}
=============================================================================
