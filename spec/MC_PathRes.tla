----------------------------- MODULE MC_PathRes -----------------------------
(***************************************************************************)
(* Exhaustive check of C17 on the path grammar x layouts, and export of    *)
(* every case with the model's verdicts for the binding (harness/props/    *)
(* c17.py builds each layout in a real directory and replays every case    *)
(* into the real entry points).                                            *)
(*                                                                         *)
(* Case = layout x prefix x component sequence (<= MaxDepth over Alphabet) *)
(*        x trailing "/" or not.  Prefix: "rel" (none), "slash" (leading   *)
(*        "/"), or a true absolute spelling of the table location as       *)
(*        given / of the canonical root / of the outside tree / of the     *)
(*        sibling t2 / of the workspace (<= AbsDepth components).          *)
(*                                                                         *)
(* Spec     : two states per case: phase 0 = the case, phase 1 = the case  *)
(*            with all verdicts computed (so the evaluation is spread over *)
(*            TLC's workers; the invariants read the phase-1 record).      *)
(* CompSpec : one state holding, for the code as it is, for the repaired   *)
(*            defect (no root-write guard) and for every code variant,     *)
(*            whether the theorems hold or fail on the small grid          *)
(*            (anti-vacuity and "fails with the defect, holds with the     *)
(*            repair"); invariant CompanionOK.                             *)
(*                                                                         *)
(* Abstract world: "/" is the scratch directory, "/p1/p2/p3/w" the         *)
(* workspace (deep enough that <= 4 ".." from anything used never leave    *)
(* "/p1"); ".../w/t" the real table directory; ".../w/t2" a sibling whose  *)
(* name has the root's name as a string prefix; ".../w/out", ".../w/f",    *)
(* ".../w/data", ".../w/metadata" sentinel trees outside the root.         *)
(***************************************************************************)
EXTENDS PathRes, Json, IOUtils, SequencesExt, FiniteSetsExt

CONSTANTS MaxDepth, AbsDepth,
          DeepTrail,       \* TRUE: trailing-slash variants also at the deepest level (FALSE halves the depth-MaxDepth layer)
          VRealpath, VContain, VArrowAbs, VListRaw, VFollow,     \* the variant (see PathRes)
          VRootGuard                                             \* TRUE = the code as it is (since 409b145)

VCfg == [realpath |-> VRealpath, contain |-> VContain, arrowAbs |-> VArrowAbs, listRaw |-> VListRaw, follow |-> VFollow,
         rootGuard |-> VRootGuard]

VARIABLE c

Alphabet == {"..", ".", "", "data", "metadata", "f", "ln_out", "ln_outf", "ln_in", "t2"}
Layouts  == {"A", "B", "C", "D"}
RelPres  == {"rel", "slash"}
AbsPres  == {"base", "canon", "out", "sib", "ws"}

(* ------------------------------ layouts ------------------------------ *)
W == <<"p1", "p2", "p3", "w">>
T == W \o <<"t">>
WA(names) == LocStr(W \o names)    \* absolute string below the workspace
R(names)  == JoinNames(names)      \* relative string

Common ==
  { <<<<>>, DirNode>>, <<<<"p1">>, DirNode>>, <<<<"p1", "p2">>, DirNode>>, <<<<"p1", "p2", "p3">>, DirNode>>, <<W, DirNode>>,
    <<W \o <<"f">>, FileNode>>,
    <<W \o <<"data">>, DirNode>>, <<W \o <<"data", "f">>, FileNode>>,
    <<W \o <<"metadata">>, DirNode>>, <<W \o <<"metadata", "f">>, FileNode>>,
    <<T, DirNode>>, <<T \o <<"f">>, FileNode>>,
    <<T \o <<"data">>, DirNode>>, <<T \o <<"data", "f">>, FileNode>>,
    <<T \o <<"data", "sub">>, DirNode>>, <<T \o <<"data", "sub", "f">>, FileNode>>,
    <<T \o <<"metadata">>, DirNode>>, <<T \o <<"metadata", "f">>, FileNode>>,
    <<W \o <<"t2">>, DirNode>>, <<W \o <<"t2", "f">>, FileNode>>,
    <<W \o <<"t2", "data">>, DirNode>>, <<W \o <<"t2", "data", "f">>, FileNode>>,
    <<W \o <<"out">>, DirNode>>, <<W \o <<"out", "f">>, FileNode>>,
    <<W \o <<"out", "data">>, DirNode>>, <<W \o <<"out", "data", "f">>, FileNode>> }

\* A: table location given directly; absolute link targets; link to a directory inside
LinksA ==
  { <<T \o <<"ln_out">>,  LinkNode(WA(<<"out">>))>>,
    <<T \o <<"ln_outf">>, LinkNode(WA(<<"out", "f">>))>>,
    <<T \o <<"ln_in">>,   LinkNode(R(<<"data", "sub">>))>>,
    <<T \o <<"data", "ln_out">>,  LinkNode(WA(<<"out">>))>>,
    <<T \o <<"data", "ln_outf">>, LinkNode(WA(<<"out", "f">>))>>,
    <<T \o <<"data", "ln_in">>,   LinkNode(R(<<"sub">>))>> }
\* B: table location is a (relative) symlink to the real directory; relative link targets with "..";
\*    links to the root itself (through the root symlink, and "..")
LinksB ==
  { <<W \o <<"lnroot">>,  LinkNode(R(<<"t">>))>>,
    <<T \o <<"ln_out">>,  LinkNode(R(<<"..", "out">>))>>,
    <<T \o <<"ln_outf">>, LinkNode(R(<<"..", "out", "f">>))>>,
    <<T \o <<"ln_in">>,   LinkNode(WA(<<"lnroot">>))>>,
    <<T \o <<"data", "ln_out">>,  LinkNode(R(<<"..", "..", "out">>))>>,
    <<T \o <<"data", "ln_outf">>, LinkNode(R(<<"..", "ln_outf">>))>>,
    <<T \o <<"data", "ln_in">>,   LinkNode(R(<<"..">>))>> }
\* C: location spelled with a trailing slash; chains of links; a dangling link to the outside;
\*    a link into the sibling-prefix directory
LinksC ==
  { <<T \o <<"ln_hop">>,  LinkNode(WA(<<"out">>))>>,
    <<T \o <<"ln_out">>,  LinkNode(R(<<"ln_hop">>))>>,
    <<T \o <<"ln_outf">>, LinkNode(WA(<<"out", "missing">>))>>,
    <<T \o <<"ln_in">>,   LinkNode(R(<<"data", "ln_in">>))>>,
    <<T \o <<"data", "ln_in">>,   LinkNode(R(<<"sub">>))>>,
    <<T \o <<"data", "ln_out">>,  LinkNode(R(<<"..", "ln_out">>))>>,
    <<T \o <<"data", "ln_outf">>, LinkNode(WA(<<"t2", "f">>))>> }
\* D: location is an absolute symlink, spelled with a "." component; links to the sibling-prefix
\*    directory, to a file one level up, to the workspace; inside targets spelled through the root link
LinksD ==
  { <<W \o <<"lnroot">>,  LinkNode(WA(<<"t">>))>>,
    <<T \o <<"ln_out">>,  LinkNode(WA(<<"t2">>))>>,
    <<T \o <<"ln_outf">>, LinkNode(WA(<<"f">>))>>,
    <<T \o <<"ln_in">>,   LinkNode(WA(<<"t", "data">>))>>,
    <<T \o <<"data", "ln_in">>,   LinkNode(WA(<<"lnroot", "metadata">>))>>,
    <<T \o <<"data", "ln_out">>,  LinkNode(WA(<<>>))>>,
    <<T \o <<"data", "ln_outf">>, LinkNode(R(<<"ln_out", "f">>))>> }

FS_A == FsOf(Common \cup LinksA)
FS_B == FsOf(Common \cup LinksB)
FS_C == FsOf(Common \cup LinksC)
FS_D == FsOf(Common \cup LinksD)
FS(l) == CASE l = "A" -> FS_A [] l = "B" -> FS_B [] l = "C" -> FS_C [] l = "D" -> FS_D

Base(l) == CASE l = "A" -> WA(<<"t">>)
             [] l = "B" -> WA(<<"lnroot">>)
             [] l = "C" -> WA(<<"t">>) \o <<SEP>>
             [] l = "D" -> LocStr(<<"p1", "p2", "p3">>) \o <<SEP, ".", SEP, "w", SEP, "lnroot">>

ASSUME \A l \in Layouts : CanonRoot(FS(l), Base(l)) = T

(* ------------------------------ cases ------------------------------ *)
\* seeded sample of deeper cases chosen by the harness (one JSON record per line; may be empty)
SampleSeq == ndJsonDeserialize(IOEnv.VERIF_SAMPLE)

Case(l, p, cs, t) == [lay |-> l, pre |-> p, comps |-> cs, trail |-> t]
Mk(l, p, cs, t) == [ph |-> 0, x |-> Case(l, p, cs, t), o |-> <<>>]

RECURSIVE CompsStr(_)
CompsStr(cs) == IF cs = <<>> THEN <<>>
                ELSE (IF Head(cs) = "" THEN <<>> ELSE <<Head(cs)>>)
                     \o (IF Tail(cs) = <<>> THEN <<>> ELSE <<SEP>> \o CompsStr(Tail(cs)))

AbsPrefix(l, p) == CASE p = "base"  -> Base(l)
                     [] p = "canon" -> LocStr(T)
                     [] p = "out"   -> WA(<<"out">>)
                     [] p = "sib"   -> WA(<<"t2">>)
                     [] p = "ws"    -> WA(<<>>)

PathStr(x) ==
  LET body == CompsStr(x.comps)
      s == CASE x.pre = "rel"   -> body
             [] x.pre = "slash" -> <<SEP>> \o body
             [] OTHER -> AbsPrefix(x.lay, x.pre) \o (IF x.comps = <<>> THEN <<>> ELSE <<SEP>> \o body)
  IN IF x.trail THEN s \o <<SEP>> ELSE s

(* ------------------------------ verdicts ------------------------------ *)
NodeAt(fs, base, F) ==
  LET w == KStr(fs, F, TRUE) IN
  [st |-> w.st, loc |-> LocStr(w.loc),
   kind |-> IF w.st = "ok" THEN fs[w.loc].k ELSE "none",
   inside |-> Inside(fs, base, w.loc)]

Out(x, V) ==
  LET fs == FS(x.lay)  base == Base(x.lay)  p == PathStr(x)
      res == ResolvePath(fs, base, p, V)
      arr == ArrowPath(fs, base, p, V)
      lst == ListFiles(fs, base, p, V)
      \* (resolver, class) pairs for which an accepted call touches a node outside the root
      bad == {<<"res", cls>> : cls \in {k \in TouchClasses : ~ConfinedFor(fs, base, res, k, V)}}
             \cup {<<"arr", cls>> : cls \in {k \in {"read", "write", "stat"} : ~ConfinedFor(fs, base, arr, k, V)}}
  IN [lay |-> x.lay, pre |-> x.pre, comps |-> x.comps, trail |-> x.trail, p |-> p,
      resRej |-> res.rej, resFull |-> res.full, resNode |-> NodeAt(fs, base, res.full),
      arrRej |-> arr.rej, arrFull |-> arr.full, arrNode |-> NodeAt(fs, base, arr.full),
      esc |-> EscapingStorage(fs, base, p), escArrow |-> EscapingArrow(fs, base, p),
      listRej |-> lst.rej, listOut |-> lst.out,
      \* the theorems
      confined |-> bad = {} /\ ListingConfined(fs, base, lst),
      \* the same, not counting the known defect (write-class call resolving to the root itself)
      confinedKnown |-> (\A b \in bad : IsRootWrite(fs, base, IF b[1] = "res" THEN res ELSE arr, b[2]))
                        /\ ListingConfined(fs, base, lst),
      rootWrite |-> IsRootWrite(fs, base, res, "write") \/ IsRootWrite(fs, base, arr, "write"),
      resRoot |-> ~res.rej /\ res.full = RealBase(fs, base), arrRoot |-> ~arr.rej /\ arr.full = RealBase(fs, base),
      escRejected |-> EscapeRejectedStorage(fs, base, p, res) /\ EscapeRejectedArrow(fs, base, p, arr),
      notMisresolved |-> NotMisresolvedStorage(fs, base, p, res) /\ NotMisresolvedArrow(fs, base, p, arr),
      listRoundTrip |-> ListingRoundTrip(fs, base, lst),
      listServes |-> ListServes(fs, base, p, lst)]

\* (written as nested quantifiers so that TLC enumerates the cases without first building the set)
Init == \/ \E l \in Layouts, p \in RelPres, k \in 0..MaxDepth :
             \E t \in (IF k = MaxDepth /\ ~DeepTrail THEN {FALSE} ELSE BOOLEAN), cs \in [1..k -> Alphabet] : c = Mk(l, p, cs, t)
        \/ \E l \in Layouts, p \in AbsPres, k \in 0..AbsDepth, t \in BOOLEAN :
             \E cs \in [1..k -> Alphabet] : c = Mk(l, p, cs, t)
        \/ \E i \in DOMAIN SampleSeq :
             c = Mk(SampleSeq[i].lay, SampleSeq[i].pre, SampleSeq[i].comps, SampleSeq[i].trail)
Next == /\ c.ph = 0
        /\ c' = [ph |-> 1, x |-> c.x, o |-> Out(c.x, VCfg)]
Spec == Init /\ [][Next]_c

Confined         == c.ph = 1 => c.o.confined          \* C17, first sentence
ConfinedKnown    == c.ph = 1 => c.o.confinedKnown     \* ... not counting writes resolving to the root (only meaningful with VRootGuard = FALSE)
EscapeRejected   == c.ph = 1 => c.o.escRejected       \* C17, second sentence
NotMisresolved   == c.ph = 1 => c.o.notMisresolved
ListingRoundTrip1 == c.ph = 1 => c.o.listRoundTrip
ListServes1      == c.ph = 1 => c.o.listServes

(* ------------------------------ export ------------------------------ *)
Exported == c.ph = 1 =>
  PrintT(ToJson([lay |-> c.o.lay, pre |-> c.o.pre, comps |-> c.o.comps, trail |-> c.o.trail, p |-> c.o.p,
                 resRej |-> c.o.resRej, resFull |-> c.o.resFull, resNode |-> c.o.resNode,
                 arrRej |-> c.o.arrRej, arrFull |-> c.o.arrFull, arrNode |-> c.o.arrNode,
                 esc |-> c.o.esc, escArrow |-> c.o.escArrow, resRoot |-> c.o.resRoot, arrRoot |-> c.o.arrRoot,
                 listRej |-> c.o.listRej, listOut |-> SetToSeq(c.o.listOut)]))

LayoutOut(l) == [lay |-> l, base |-> Base(l), root |-> LocStr(CanonRoot(FS(l), Base(l))),
                 nodes |-> SetToSeq({[loc |-> LocStr(n), k |-> FS(l)[n].k, tgt |-> FS(l)[n].tgt] : n \in DOMAIN FS(l)})]
ExportLayouts == JsonSerialize(IOEnv.VERIF_LAYOUTS, SetToSeq({LayoutOut(l) : l \in Layouts}))

(* --------------- companion: defect / repair / variants on the small grid --------------- *)
SmallCases == {Case(l, p, cs, t) : l \in Layouts, p \in RelPres, cs \in UNION {[1..k -> Alphabet] : k \in 0..MaxDepth}, t \in BOOLEAN}
         \cup {Case(l, p, cs, t) : l \in Layouts, p \in AbsPres, cs \in UNION {[1..k -> Alphabet] : k \in 0..AbsDepth}, t \in BOOLEAN}

PreFix == [Default EXCEPT !.rootGuard = FALSE]      \* the code before commit 409b145
Fails(V, fields) == \E x \in SmallCases : LET o == Out(x, V) IN \E f \in fields : ~o[f]
Holds(V, fields) == \A x \in SmallCases : LET o == Out(x, V) IN \A f \in fields : o[f]

CompanionVerdict ==
  [ \* the code as it is: everything holds (strict first sentence included)
    asIsAllHold               |-> Holds(Default, {"confined", "escRejected", "notMisresolved", "listRoundTrip", "listServes"}),
    \* the defect (no root-write guard): the strict first sentence FAILS, and only on writes resolving to the root itself
    preFixStrictConfinedFails |-> Fails(PreFix, {"confined"}),
    preFixFailsOnlyOnRootWrite |-> \A x \in SmallCases : LET o == Out(x, PreFix) IN o.confined \/ (o.rootWrite /\ o.confinedKnown),
    \* every code variant is caught by the theorems
    abspathCaught             |-> Fails([Default EXCEPT !.realpath = FALSE], {"confined", "escRejected"}),
    startswithCaught          |-> Fails([Default EXCEPT !.contain = "startswith"], {"confined", "escRejected"}),
    noContainmentCaught       |-> Fails([Default EXCEPT !.contain = "none"], {"confined", "escRejected"}),
    arrowAbsUnchangedCaught   |-> Fails([Default EXCEPT !.arrowAbs = TRUE], {"confined", "escRejected"}),
    followlinksCaught         |-> Fails([Default EXCEPT !.follow = TRUE], {"confined", "listRoundTrip"}),
    listRawBaseCaught         |-> Fails([Default EXCEPT !.listRaw = TRUE], {"listServes"}),
    \* the grammar reaches escaping, rejected and accepted paths and paths resolving to the root itself
    reachesEscaping           |-> \E x \in SmallCases : Out(x, Default).esc,
    reachesAccepted           |-> \E x \in SmallCases : ~Out(x, Default).resRej,
    reachesRejected           |-> \E x \in SmallCases : Out(x, Default).resRej,
    reachesRootItself         |-> \E x \in SmallCases : Out(x, PreFix).rootWrite ]

CompInit == c = [ph |-> 2, verdict |-> CompanionVerdict]
CompNext == UNCHANGED c
CompSpec == CompInit /\ [][CompNext]_c
CompanionOK == PrintT(ToJson(c.verdict)) /\ \A f \in DOMAIN c.verdict : c.verdict[f]
=============================================================================
