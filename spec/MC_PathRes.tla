----------------------------- MODULE MC_PathRes -----------------------------
(***************************************************************************)
(* Exhaustive check of C17 on the path grammar x layouts, and export of    *)
(* every case with the model's verdicts for the binding (harness/props/    *)
(* c17.py builds each layout in a real directory and replays every case    *)
(* into the real entry points).                                            *)
(*                                                                         *)
(* Case = layout x prefix x component sequence (<= MaxDepth over Alphabet) *)
(*        x trailing "/" or not.  Prefix: "rel" (none), "slash" (leading   *)
(*        "/"), or a true absolute spelling of the table location as       *)
(*        given / of the canonical root / of the outside tree / of the     *)
(*        sibling t2 / of the workspace (<= AbsDepth components).          *)
(* Two states per case: phase 0 = the case, phase 1 = the case with all    *)
(* verdicts computed (so the evaluation is spread over TLC's workers; all  *)
(* invariants read the phase-1 record).                                    *)
(*                                                                         *)
(* Abstract world: "/w" is the workspace; "/w/t" the real table directory; *)
(* "/w/t2" a sibling whose name has the root's name as a string prefix;    *)
(* "/w/out", "/w/f", "/w/data", "/w/metadata" sentinel trees outside.      *)
(***************************************************************************)
EXTENDS PathRes, Json, IOUtils, SequencesExt, FiniteSetsExt

CONSTANTS MaxDepth, AbsDepth,
          VRealpath, VContain, VArrowAbs, VListRaw, VFollow,     \* the variant (see PathRes)
          VRootGuard                                             \* FALSE = the code as it is

V == [realpath |-> VRealpath, contain |-> VContain, arrowAbs |-> VArrowAbs, listRaw |-> VListRaw, follow |-> VFollow,
      rootGuard |-> VRootGuard]

VARIABLE c

Alphabet == {"..", ".", "", "data", "metadata", "f", "ln_out", "ln_outf", "ln_in", "t2"}
Layouts  == {"A", "B", "C", "D"}
RelPres  == {"rel", "slash"}
AbsPres  == {"base", "canon", "out", "sib", "ws"}

(* ------------------------------ layouts ------------------------------ *)
A(names) == LocStr(names)          \* absolute string
R(names) == JoinNames(names)       \* relative string
W == <<"w">>
T == <<"w", "t">>

Common ==
  { <<<<>>, DirNode>>, <<W, DirNode>>,
    <<W \o <<"f">>, FileNode>>,
    <<W \o <<"data">>, DirNode>>, <<W \o <<"data", "f">>, FileNode>>,
    <<W \o <<"metadata">>, DirNode>>, <<W \o <<"metadata", "f">>, FileNode>>,
    <<T, DirNode>>, <<T \o <<"f">>, FileNode>>,
    <<T \o <<"data">>, DirNode>>, <<T \o <<"data", "f">>, FileNode>>,
    <<T \o <<"data", "sub">>, DirNode>>, <<T \o <<"data", "sub", "f">>, FileNode>>,
    <<T \o <<"metadata">>, DirNode>>, <<T \o <<"metadata", "f">>, FileNode>>,
    <<W \o <<"t2">>, DirNode>>, <<W \o <<"t2", "f">>, FileNode>>,
    <<W \o <<"t2", "data">>, DirNode>>, <<W \o <<"t2", "data", "f">>, FileNode>>,
    <<W \o <<"out">>, DirNode>>, <<W \o <<"out", "f">>, FileNode>>,
    <<W \o <<"out", "data">>, DirNode>>, <<W \o <<"out", "data", "f">>, FileNode>> }

\* A: table location given directly; absolute link targets; link to a directory inside
LinksA ==
  { <<T \o <<"ln_out">>,  LinkNode(A(<<"w", "out">>))>>,
    <<T \o <<"ln_outf">>, LinkNode(A(<<"w", "out", "f">>))>>,
    <<T \o <<"ln_in">>,   LinkNode(R(<<"data", "sub">>))>>,
    <<T \o <<"data", "ln_out">>,  LinkNode(A(<<"w", "out">>))>>,
    <<T \o <<"data", "ln_outf">>, LinkNode(A(<<"w", "out", "f">>))>>,
    <<T \o <<"data", "ln_in">>,   LinkNode(R(<<"sub">>))>> }
\* B: table location is a (relative) symlink to the real directory; relative link targets with "..";
\*    links to the root itself (through the root symlink, and "..")
LinksB ==
  { <<W \o <<"lnroot">>,  LinkNode(R(<<"t">>))>>,
    <<T \o <<"ln_out">>,  LinkNode(R(<<"..", "out">>))>>,
    <<T \o <<"ln_outf">>, LinkNode(R(<<"..", "out", "f">>))>>,
    <<T \o <<"ln_in">>,   LinkNode(A(<<"w", "lnroot">>))>>,
    <<T \o <<"data", "ln_out">>,  LinkNode(R(<<"..", "..", "out">>))>>,
    <<T \o <<"data", "ln_outf">>, LinkNode(R(<<"..", "ln_outf">>))>>,
    <<T \o <<"data", "ln_in">>,   LinkNode(R(<<"..">>))>> }
\* C: location spelled with a trailing slash; chains of links; a dangling link to the outside;
\*    a link into the sibling-prefix directory
LinksC ==
  { <<T \o <<"ln_hop">>,  LinkNode(A(<<"w", "out">>))>>,
    <<T \o <<"ln_out">>,  LinkNode(R(<<"ln_hop">>))>>,
    <<T \o <<"ln_outf">>, LinkNode(A(<<"w", "out", "missing">>))>>,
    <<T \o <<"ln_in">>,   LinkNode(R(<<"data", "ln_in">>))>>,
    <<T \o <<"data", "ln_in">>,   LinkNode(R(<<"sub">>))>>,
    <<T \o <<"data", "ln_out">>,  LinkNode(R(<<"..", "ln_out">>))>>,
    <<T \o <<"data", "ln_outf">>, LinkNode(A(<<"w", "t2", "f">>))>> }
\* D: location is an absolute symlink, spelled with a "." component; links to the sibling-prefix
\*    directory, to a file one level up, to the workspace; inside targets spelled through the root link
LinksD ==
  { <<W \o <<"lnroot">>,  LinkNode(A(<<"w", "t">>))>>,
    <<T \o <<"ln_out">>,  LinkNode(A(<<"w", "t2">>))>>,
    <<T \o <<"ln_outf">>, LinkNode(A(<<"w", "f">>))>>,
    <<T \o <<"ln_in">>,   LinkNode(A(<<"w", "t", "data">>))>>,
    <<T \o <<"data", "ln_in">>,   LinkNode(A(<<"w", "lnroot", "metadata">>))>>,
    <<T \o <<"data", "ln_out">>,  LinkNode(A(<<"w">>))>>,
    <<T \o <<"data", "ln_outf">>, LinkNode(R(<<"ln_out", "f">>))>> }

FS_A == FsOf(Common \cup LinksA)
FS_B == FsOf(Common \cup LinksB)
FS_C == FsOf(Common \cup LinksC)
FS_D == FsOf(Common \cup LinksD)
FS(l) == CASE l = "A" -> FS_A [] l = "B" -> FS_B [] l = "C" -> FS_C [] l = "D" -> FS_D

Base(l) == CASE l = "A" -> A(<<"w", "t">>)
             [] l = "B" -> A(<<"w", "lnroot">>)
             [] l = "C" -> A(<<"w", "t">>) \o <<SEP>>
             [] l = "D" -> <<SEP, "w", SEP, ".", SEP, "lnroot">>

ASSUME \A l \in Layouts : CanonRoot(FS(l), Base(l)) = T

(* ------------------------------ cases ------------------------------ *)
\* seeded sample of deeper cases chosen by the harness (one JSON record per line; may be empty)
SampleSeq == ndJsonDeserialize(IOEnv.VERIF_SAMPLE)

Mk(l, p, cs, t) == [ph |-> 0, x |-> [lay |-> l, pre |-> p, comps |-> cs, trail |-> t], o |-> <<>>]

RECURSIVE CompsStr(_)
CompsStr(cs) == IF cs = <<>> THEN <<>>
                ELSE (IF Head(cs) = "" THEN <<>> ELSE <<Head(cs)>>)
                     \o (IF Tail(cs) = <<>> THEN <<>> ELSE <<SEP>> \o CompsStr(Tail(cs)))

AbsPrefix(l, p) == CASE p = "base"  -> Base(l)
                     [] p = "canon" -> A(T)
                     [] p = "out"   -> A(<<"w", "out">>)
                     [] p = "sib"   -> A(<<"w", "t2">>)
                     [] p = "ws"    -> A(W)

PathStr(x) ==
  LET body == CompsStr(x.comps)
      s == CASE x.pre = "rel"   -> body
             [] x.pre = "slash" -> <<SEP>> \o body
             [] OTHER -> AbsPrefix(x.lay, x.pre) \o (IF x.comps = <<>> THEN <<>> ELSE <<SEP>> \o body)
  IN IF x.trail THEN s \o <<SEP>> ELSE s

(* ------------------------------ verdicts ------------------------------ *)
NodeAt(fs, base, F) ==
  LET w == KStr(fs, F, TRUE) IN
  [st |-> w.st, loc |-> LocStr(w.loc),
   kind |-> IF w.st = "ok" THEN fs[w.loc].k ELSE "none",
   inside |-> Inside(fs, base, w.loc)]

Out(x) ==
  LET fs == FS(x.lay)  base == Base(x.lay)  p == PathStr(x)
      res == ResolvePath(fs, base, p, V)
      arr == ArrowPath(fs, base, p, V)
      lst == ListFiles(fs, base, p, V)
      \* (resolver, class) pairs for which an accepted call touches a node outside the root
      bad == {<<"res", cls>> : cls \in {k \in TouchClasses : ~ConfinedFor(fs, base, res, k, V)}}
             \cup {<<"arr", cls>> : cls \in {k \in {"read", "write", "stat"} : ~ConfinedFor(fs, base, arr, k, V)}}
  IN [lay |-> x.lay, pre |-> x.pre, comps |-> x.comps, trail |-> x.trail, p |-> p,
      resRej |-> res.rej, resFull |-> res.full, resNode |-> NodeAt(fs, base, res.full),
      arrRej |-> arr.rej, arrFull |-> arr.full, arrNode |-> NodeAt(fs, base, arr.full),
      esc |-> EscapingStorage(fs, base, p), escArrow |-> EscapingArrow(fs, base, p),
      listRej |-> lst.rej, listOut |-> lst.out,
      \* the theorems
      confined |-> bad = {} /\ ListingConfined(fs, base, lst),
      \* the same, not counting the known defect (write-class call resolving to the root itself)
      confinedKnown |-> (\A b \in bad : IsRootWrite(fs, base, IF b[1] = "res" THEN res ELSE arr, b[2]))
                        /\ ListingConfined(fs, base, lst),
      rootWrite |-> IsRootWrite(fs, base, res, "write") \/ IsRootWrite(fs, base, arr, "write"),
      escRejected |-> EscapeRejectedStorage(fs, base, p, res) /\ EscapeRejectedArrow(fs, base, p, arr),
      notMisresolved |-> NotMisresolvedStorage(fs, base, p, res) /\ NotMisresolvedArrow(fs, base, p, arr),
      listRoundTrip |-> ListingRoundTrip(fs, base, lst),
      listServes |-> ListServes(fs, base, p, lst)]

\* (written as nested quantifiers so that TLC enumerates the cases without first building the set)
Init == \/ \E l \in Layouts, p \in RelPres, k \in 0..MaxDepth, t \in BOOLEAN :
             \E cs \in [1..k -> Alphabet] : c = Mk(l, p, cs, t)
        \/ \E l \in Layouts, p \in AbsPres, k \in 0..AbsDepth, t \in BOOLEAN :
             \E cs \in [1..k -> Alphabet] : c = Mk(l, p, cs, t)
        \/ \E i \in DOMAIN SampleSeq :
             c = Mk(SampleSeq[i].lay, SampleSeq[i].pre, SampleSeq[i].comps, SampleSeq[i].trail)
Next == /\ c.ph = 0
        /\ c' = [ph |-> 1, x |-> c.x, o |-> Out(c.x)]
Spec == Init /\ [][Next]_c

Confined         == c.ph = 1 => c.o.confined          \* C17, first sentence
ConfinedKnown    == c.ph = 1 => c.o.confinedKnown     \* ... modulo the known finding C17-write-to-root
EscapeRejected   == c.ph = 1 => c.o.escRejected       \* C17, second sentence
NotMisresolved   == c.ph = 1 => c.o.notMisresolved
ListingRoundTrip1 == c.ph = 1 => c.o.listRoundTrip
ListServes1      == c.ph = 1 => c.o.listServes

\* anti-vacuity: the grammar reaches escaping paths, accepted paths, symlinked objects ...
\* (each of these "never" invariants must be VIOLATED)
NeverEscaping == c.ph = 1 => ~c.o.esc
NeverAccepted == c.ph = 1 => c.o.resRej

(* ------------------------------ export ------------------------------ *)
Exported == c.ph = 1 =>
  PrintT(ToJson([lay |-> c.o.lay, pre |-> c.o.pre, comps |-> c.o.comps, trail |-> c.o.trail, p |-> c.o.p,
                 resRej |-> c.o.resRej, resFull |-> c.o.resFull, resNode |-> c.o.resNode,
                 arrRej |-> c.o.arrRej, arrFull |-> c.o.arrFull, arrNode |-> c.o.arrNode,
                 esc |-> c.o.esc, escArrow |-> c.o.escArrow,
                 listRej |-> c.o.listRej, listOut |-> SetToSeq(c.o.listOut)]))

LayoutOut(l) == [lay |-> l, base |-> Base(l), root |-> LocStr(CanonRoot(FS(l), Base(l))),
                 nodes |-> SetToSeq({[loc |-> LocStr(n), k |-> FS(l)[n].k, tgt |-> FS(l)[n].tgt] : n \in DOMAIN FS(l)})]
ExportLayouts == JsonSerialize(IOEnv.VERIF_LAYOUTS, SetToSeq({LayoutOut(l) : l \in Layouts}))
=============================================================================
