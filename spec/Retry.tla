-------------------------------- MODULE Retry --------------------------------
(***************************************************************************)
(* C20, retry clause: "Transient S3 errors within the retry budget are     *)
(* masked without changing results, and permanent errors surface           *)
(* immediately without being retried or swallowed."                        *)
(*                                                                         *)
(* Transcription of S3ConsistencyHandler.retry_with_backoff                *)
(* (s3_consistency.py:84-160, expected_value = None as used by             *)
(* with_s3_retry, 194-204) as a state machine: one transition per attempt  *)
(* of the wrapped operation; the environment chooses the class of every    *)
(* attempt's outcome:                                                      *)
(*   "ok"           the operation returns its value                        *)
(*   "transient"    ClientError 500/503/SlowDown/RequestTimeout...,        *)
(*                  BotoCoreError, OSError (connection)                    *)
(*   "permanent"    ClientError whose code is in PERMANENT_S3_ERROR_CODES  *)
(*   "notfound"     FileNotFoundError raised by the backend closures for   *)
(*                  NoSuchKey/404 (an OSError, hence retryable), or a raw  *)
(*                  ClientError NoSuchKey/404                              *)
(*   "precondition" ClientError PreconditionFailed/412                     *)
(*   "pyexc"        any exception outside RETRYABLE_EXCEPTIONS             *)
(*                                                                         *)
(* Delays are in units of InitialDelay (0.1 s): 1, 2, 4, ... capped at     *)
(* MaxDelay (50 = 5.0 s).                                                  *)
(*                                                                         *)
(* Flags (mutants, anti-vacuity companions):                               *)
(*   RetryPermanent  - the is_permanent_s3_error shortcut is removed       *)
(*   BudgetOffByOne  - range(max_retries) instead of range(max_retries+1)  *)
(*   SwallowLast     - the last failure returns an empty value instead of  *)
(*                     raising                                             *)
(***************************************************************************)
EXTENDS Integers, Sequences, FiniteSets, TLC

CONSTANTS MaxRetries,      \* 5
          InitialDelay,    \* 1   (0.1 s)
          MaxDelay,        \* 50  (5.0 s)
          Factor,          \* 2
          Classes,         \* outcome classes the environment may choose
          RetryPermanent, BudgetOffByOne, SwallowLast

VARIABLES attempt,   \* loop index `attempt` (0-based) of the attempt about to run
          delay,     \* local `delay`
          sleeps,    \* arguments of time.sleep so far
          status,    \* "running" | "returned" | "raised"
          value,     \* what was returned: "value" (the operation's own result) | "empty" | "none"
          raised,    \* class of the exception that surfaced | "none"
          F          \* classes of the attempts made so far

vars == <<attempt, delay, sleeps, status, value, raised, F>>

Min(a, b) == IF a < b THEN a ELSE b

\* isinstance(e, RETRYABLE_EXCEPTIONS): ClientError, BotoCoreError, IOError, OSError (17-23)
Retryable(c) == c \in {"transient", "permanent", "notfound", "precondition"}
\* is_permanent_s3_error (49-55)
Permanent(c) == c = "permanent"

Budget == IF BudgetOffByOne THEN MaxRetries - 1 ELSE MaxRetries     \* for attempt in range(max_retries + 1) (106)

Init == /\ attempt = 0 /\ delay = InitialDelay /\ sleeps = <<>>          \* 103-104
        /\ status = "running" /\ value = "none" /\ raised = "none" /\ F = <<>>

Return(v) == /\ status' = "returned" /\ value' = v /\ raised' = "none"
             /\ UNCHANGED <<attempt, delay, sleeps>>
Raise(c)  == /\ status' = "raised" /\ raised' = c /\ value' = "none"
             /\ UNCHANGED <<attempt, delay, sleeps>>

Attempt(c) ==
  /\ status = "running"
  /\ F' = Append(F, c)
  /\ IF c = "ok" THEN Return("value")                                                  \* 111, 130-131
     ELSE IF Retryable(c) THEN                                                         \* 133
          IF Permanent(c) /\ ~RetryPermanent THEN Raise(c)                             \* 135-139
          ELSE IF attempt < Budget THEN                                                \* 140
               /\ sleeps' = Append(sleeps, delay)                                      \* 147
               /\ delay' = Min(delay * Factor, MaxDelay)                               \* 148
               /\ attempt' = attempt + 1
               /\ UNCHANGED <<status, value, raised>>
          ELSE (IF SwallowLast THEN Return("empty") ELSE Raise(c))                     \* 149-151
     ELSE Raise(c)                                                                     \* 152-155

Next == \E c \in Classes : Attempt(c)
Spec == Init /\ [][Next]_vars

Done == status # "running"
N == Len(F)

(* ============================ REFERENCE =============================== *)
\* What the property demands of a call, as predicates over the classes f of the attempts made
\* and the observed ending (st, val, rs) - independent of the loop above.  Parameterised so that
\* the same predicates judge the model's states AND the endings observed on the real code
\* (MC_Retry!ValidateObserved).
RECURSIVE Pow(_, _)
Pow(b, e) == IF e = 0 THEN 1 ELSE b * Pow(b, e - 1)
Schedule(k) == [i \in 1..k |-> Min(InitialDelay * Pow(Factor, i - 1), MaxDelay)]

\* never more than max_retries + 1 attempts
CAttemptsBounded(f, st) == Len(f) <= MaxRetries + 1 /\ (st = "running" => Len(f) <= MaxRetries)
\* a permanent error ends the call at once and surfaces as itself
CPermanentImmediate(f, st, rs) ==
  \A i \in 1..Len(f) : f[i] = "permanent" => (i = Len(f) /\ st = "raised" /\ rs = "permanent")
\* so does an exception that is not an S3/IO error at all
CNonRetryableImmediate(f, st, rs) ==
  \A i \in 1..Len(f) : f[i] = "pyexc" => (i = Len(f) /\ st = "raised" /\ rs = "pyexc")
\* transient errors are masked while budget remains: one surfaces only after max_retries+1 failed attempts
CTransientMasked(f, st, rs) == (st = "raised" /\ rs = "transient") => Len(f) = MaxRetries + 1
\* ... and a masked call returns the operation's own value (result unchanged)
CResultUnchanged(f, st, val) == st = "returned" => (Len(f) > 0 /\ f[Len(f)] = "ok" /\ val = "value")
\* nothing is swallowed or disguised: a call that ends on a failed attempt raises that failure
\* (a not-found stays a not-found, a precondition failure a precondition failure)
CNotSwallowed(f, st, rs) == (st # "running" /\ Len(f) > 0 /\ f[Len(f)] # "ok") => (st = "raised" /\ rs = f[Len(f)])
\* a successful attempt ends the call
CStopsOnSuccess(f, st) == \A i \in 1..Len(f) : f[i] = "ok" => (i = Len(f) /\ st = "returned")

FailedClauses(f, st, val, rs) ==
     (IF CAttemptsBounded(f, st) THEN {} ELSE {"AttemptsBounded"})
  \cup (IF CPermanentImmediate(f, st, rs) THEN {} ELSE {"PermanentImmediate"})
  \cup (IF CNonRetryableImmediate(f, st, rs) THEN {} ELSE {"NonRetryableImmediate"})
  \cup (IF CTransientMasked(f, st, rs) THEN {} ELSE {"TransientMasked"})
  \cup (IF CResultUnchanged(f, st, val) THEN {} ELSE {"ResultUnchanged"})
  \cup (IF CNotSwallowed(f, st, rs) THEN {} ELSE {"NotSwallowed"})
  \cup (IF CStopsOnSuccess(f, st) THEN {} ELSE {"StopsOnSuccess"})
Contract(f, st, val, rs) == FailedClauses(f, st, val, rs) = {}

\* every retry waits according to the backoff schedule (not demanded by C20's text; checked on the
\* model, compared with the real sleeps as a drift note)
Backoff == sleeps = Schedule(Len(sleeps)) /\ (Done => Len(sleeps) = N - 1) /\ (~Done => Len(sleeps) = N)

RetryContract == Contract(F, status, value, raised) /\ Backoff
=============================================================================
