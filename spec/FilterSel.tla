----------------------------- MODULE FilterSel -----------------------------
(***************************************************************************)
(* L2 function-level specification for property C12: "filters mean what    *)
(* SQL says, identically in every scan API".                               *)
(*                                                                         *)
(* Reference (what the property demands, independent of the code):         *)
(*   RefSat3 / RefRowSat / Sel   three-valued row selection (Filter!Sat3,  *)
(*                               extended with a NULL comparison literal), *)
(*   RefCond                     the grammar of well-formed filter         *)
(*                               conditions; everything else is Malformed  *)
(*                               and must raise,                           *)
(*   Expected                    Raise for a malformed filter, otherwise   *)
(*                               the selected rows, projected.             *)
(* Transcriptions of the code (source ranges of /repo/src/datashard as of  *)
(* /repo commit e9269c1):                                                  *)
(*   ParseCond, CheckValueRaises filters.py:39-99, 102-125                 *)
(*   ParseOp, Mapping            filters.py:128-165                        *)
(*   BuildCondition, Combine     filters.py:168-209, 212-238               *)
(*   ReadVerify, ReadNoVerify    transaction.py:917-972                    *)
(*   ScanTable                   transaction.py:974-1027 (+ scan 1029-1069)*)
(*   ScanBatches, IterFileBatches transaction.py:1097-1145, 1147-1193      *)
(*   IterRecords                 transaction.py:1195-1218                  *)
(* Theorems checked by TLC (MC_FilterSel):                                 *)
(*   EngineMatchesReference, ParserConforms, StatsArms, and C12 itself:    *)
(*   ApiConforms (every read program returns Expected).                    *)
(*                                                                         *)
(* Two constants select the code version that is modelled.  The code as it *)
(* is corresponds to StatsPushdown = FALSE, ValidateFirst = TRUE; the      *)
(* other values model the code BEFORE the two repairs and are kept as      *)
(* companions on which ApiConforms must fail (and on which                 *)
(* ApiConformsModuloKnown shows that it fails only in the characterised    *)
(* way).                                                                   *)
(*   StatsPushdown = TRUE  (before 2813326) the non-verify path of         *)
(*       _read_datafile_table passed the predicate to                      *)
(*       pq.read_table(filters=...), whose row-group pruning trusts        *)
(*       parquet min/max statistics; these skip NaN, so a row group        *)
(*       {v, NaN} was dropped for  != v  /  not_in{v};  and a float row    *)
(*       group whose only value is zero has statistics (-0.0, +0.0), from  *)
(*       which pyarrow concludes "x == -0.0" and folds is_in(-0.0, S) - a  *)
(*       bitwise test - to false: the rows 0.0 were dropped for  in S.     *)
(*     FALSE (now): read the file, filter in memory, project.              *)
(*   ValidateFirst = FALSE (before e9269c1) _scan_table returned before    *)
(*       parsing the filter when the table had no data files, scan_batches *)
(*       built the expression only after its "no files left" return, the   *)
(*       parser turned every condition that is not a 2-tuple (or None)     *)
(*       into an equality value - leaving it to pyarrow to choke on it,    *)
(*       which only happens if some file is evaluated - and a str operand  *)
(*       of in / not_in was iterated character by character.               *)
(*     TRUE (now): _check_value and the container branch of                *)
(*       parse_filter_dict reject those shapes, and parse + build precede  *)
(*       every early return.                                               *)
(***************************************************************************)
EXTENDS Filter

CONSTANTS StatsPushdown, ValidateFirst

(* ======================= reference semantics ========================== *)
\* Filter!Sat3 takes a number as comparison literal.  A NULL literal (("==", None), a None
\* bound of "between") makes the comparison UNKNOWN for every row (SQL).
RefSat3(v, op, lit) == IF op \in CmpOps /\ lit = NULL THEN "U" ELSE Sat3(v, op, lit)
RefRowSat(row, exprs) == \A i \in 1..Len(exprs) : RefSat3(row[exprs[i].col], exprs[i].op, exprs[i].lit) = "T"
NoNullCmpLit(exprs) == \A i \in 1..Len(exprs) : ~(exprs[i].op \in CmpOps /\ exprs[i].lit = NULL)

\* The rows a scan must return: <<file index, row index>>.  Same as Filter!Select, without its
\* bound of three rows per file (checked equal where Select applies: SelIsSelect).
Sel(files, exprs) ==
  UNION {{<<f, r>> : r \in {x \in 1..Len(files[f]) : RefRowSat(files[f][x], exprs)}} : f \in 1..Len(files)}
SelIsSelect(files, exprs) ==
  ((\A f \in 1..Len(files) : Len(files[f]) <= 3) /\ NoNullCmpLit(exprs)) => Sel(files, exprs) = Select(files, exprs)

DataCols == {"a", "b"}
AllCols  == <<"a", "b", "rid">>          \* "rid" is the unique row id column of the binding = <<f, r>> here
Range(s) == {s[i] : i \in 1..Len(s)}
\* proj = <<"*">> (columns=None) or a sequence of column names
ProjAll == <<"*">>
ProjCols(proj) == IF proj = ProjAll THEN DataCols ELSE Range(proj) \cap DataCols
OutRec(files, f, r, proj) == [f |-> f, r |-> r, vals |-> [cc \in ProjCols(proj) |-> files[f][r][cc]]]

RECURSIVE Flatten(_)
Flatten(ss) == IF ss = <<>> THEN <<>> ELSE Head(ss) \o Flatten(Tail(ss))

Raise == [raise |-> TRUE, out |-> <<>>]
Ok(s) == [raise |-> FALSE, out |-> s]

RowSeq(file) == [r \in 1..Len(file) |-> r]
ExpectedRows(files, exprs, proj) ==
  Flatten([f \in 1..Len(files) |->
     LET keep(r) == RefRowSat(files[f][r], exprs)
         rs == SelectSeq(RowSeq(files[f]), keep)
     IN [i \in 1..Len(rs) |-> OutRec(files, f, rs[i], proj)]])

(* ============== reference grammar of filter conditions ================ *)
\* A condition shape: [k, op, opIsStr, vk, xs]
\*   k  = "bare"  : {"col": value}; vk/xs describe the value
\*        "pair"  : {"col": (op, value)}  (a tuple of length 2)
\*   vk = "scalar" (xs = <<x>>, a non-iterable Python scalar), "strscalar" (xs = <<x>>, a one-character str:
\*        what a scalar is for a string column - Python can iterate it), "none" (Python None),
\*        "seq" (list/tuple of scalars/None, xs),
\*        "mixed" (a list whose members have different types, e.g. [1, "x"]: no column can hold both;
\*        used as operand of in / not_in only),
\*        "hetero" (a tuple/list mixing an operator string with values, e.g. (">", 5, 6) or [">", 5]),
\*        "homog"  (a tuple/list of like-typed members used where a scalar belongs: (">",), (), (1,2,3), [1,2])
\*   op = operator spelling (a string, or the printed form of a non-string when opIsStr = FALSE)
Malformed == [stage |-> "malformed", exprs |-> <<>>]
PE(op, xs) == [op |-> op, xs |-> xs]                  \* parsed expression: canonical operator + literal list
WellFormed(es) == [stage |-> "ok", exprs |-> es]

\* Meaning of operator names, written down by meaning (case-insensitive), not copied from the code.
RefEq == {"==", "=", "eq"}      RefNe == {"!=", "<>", "ne"}
RefLt == {"<", "lt"}            RefLe == {"<=", "le"}
RefGt == {">", "gt"}            RefGe == {">=", "ge"}
RefIn == {"in"}                 RefNotIn == {"not_in", "not in", "notin"}
RefIsNull == {"is_null", "isnull"}
RefIsNotNull == {"is_not_null", "isnotnull", "notnull"}
RefOpOf(low) ==
  CASE low \in RefEq -> "==" [] low \in RefNe -> "!=" [] low \in RefLt -> "<" [] low \in RefLe -> "<="
    [] low \in RefGt -> ">"  [] low \in RefGe -> ">=" [] low \in RefIn -> "in" [] low \in RefNotIn -> "not_in"
    [] low \in RefIsNull -> "is_null" [] low \in RefIsNotNull -> "is_not_null"
    [] low = "between" -> "between" [] OTHER -> "?"

\* Lower(s): Python str.lower() on the finite set of spellings used (trusted platform function).
LowerTab ==
  ("EQ" :> "eq") @@ ("Ne" :> "ne") @@ ("LT" :> "lt") @@ ("Le" :> "le") @@ ("GT" :> "gt") @@ ("gE" :> "ge") @@
  ("IN" :> "in") @@ ("In" :> "in") @@ ("NOT_IN" :> "not_in") @@ ("Not In" :> "not in") @@ ("NOTIN" :> "notin") @@
  ("BETWEEN" :> "between") @@ ("Between" :> "between") @@ ("IS_NULL" :> "is_null") @@ ("IsNull" :> "isnull") @@
  ("IS_NOT_NULL" :> "is_not_null") @@ ("NotNull" :> "notnull") @@ ("ISNOTNULL" :> "isnotnull") @@
  ("GTE" :> "gte") @@ ("Like" :> "like")
Lower(s) == IF s \in DOMAIN LowerTab THEN LowerTab[s] ELSE s

RefCond(c) ==
  IF c.k = "bare" THEN
      IF c.vk \in {"scalar", "strscalar"} THEN WellFormed(<<PE("==", c.xs)>>) ELSE Malformed   \* None, tuples of other lengths, lists
  ELSE IF ~c.opIsStr THEN Malformed
  ELSE LET o == RefOpOf(Lower(c.op)) IN
    CASE o = "?" -> Malformed
      [] o = "between" -> IF c.vk = "seq" /\ Len(c.xs) = 2
                          THEN WellFormed(<<PE(">=", <<c.xs[1]>>), PE("<=", <<c.xs[2]>>)>>) ELSE Malformed
      [] o \in NullOps -> WellFormed(<<PE(o, <<>>)>>)          \* documented form: (op, True); the value carries no meaning
      [] o \in SetOps  -> IF c.vk = "seq" THEN WellFormed(<<PE(o, c.xs)>>) ELSE Malformed
      [] OTHER -> IF c.vk \in {"scalar", "strscalar"} THEN WellFormed(<<PE(o, c.xs)>>)
                  ELSE IF c.vk = "none" THEN WellFormed(<<PE(o, <<NULL>>)>>)   \* comparison with NULL: matches nothing
                  ELSE Malformed

(* ================= transcription: filters.py parser ==================== *)
\* filters.py:137-156
Mapping ==
  ("==" :> "==") @@ ("=" :> "==") @@ ("eq" :> "==") @@ ("!=" :> "!=") @@ ("<>" :> "!=") @@ ("ne" :> "!=") @@
  ("<" :> "<") @@ ("lt" :> "<") @@ ("<=" :> "<=") @@ ("le" :> "<=") @@ (">" :> ">") @@ ("gt" :> ">") @@
  (">=" :> ">=") @@ ("ge" :> ">=") @@ ("in" :> "in") @@ ("not_in" :> "not_in") @@ ("not in" :> "not_in") @@
  ("notin" :> "not_in")

\* filters.py:157-165 : key = op_str.lower() if str; mapping.get(key); None -> ValueError
ParseOp(op, isStr) ==
  LET key == IF isStr THEN Lower(op) ELSE op IN
  IF isStr /\ key \in DOMAIN Mapping THEN Mapping[key] ELSE "Raise"     \* a non-string key is in no str-keyed dict

\* Parser result: [stage, exprs] where an expression also remembers the kind of its value
\* (needed to know what _build_condition / pyarrow do with it).
TE(op, vk, xs) == [op |-> op, vk |-> vk, xs |-> xs]
ElemKind(x) == IF x = NULL THEN "none" ELSE "scalar"

\* filters.py:102-125 _check_value(column, op, value): does it raise ValueError?
CheckValueRaises(o, vk) ==
  IF o \in SetOps                                                   \* 108
  THEN vk = "strscalar"                                             \* 111-115: a str (bytes) operand
       \/ vk \in {"scalar", "none"}                                 \* 116-121: iter(value) raises TypeError
  ELSE vk \in {"seq", "mixed", "hetero", "homog"}                   \* 122-125: a container where a single value belongs

\* ValidateFirst = FALSE removes line 75 and the branch 86-96 (the parser before e9269c1).
ParseCond(c) ==
  IF c.k = "pair" THEN                                              \* 60: isinstance(condition, tuple) and len == 2
    LET low == IF c.opIsStr THEN Lower(c.op) ELSE c.op IN           \* 62
    IF c.opIsStr /\ low = "between" THEN                            \* 64
        IF c.vk = "seq" /\ Len(c.xs) = 2                            \* 66: lo, hi = value (TypeError/ValueError otherwise)
        THEN [stage |-> "ok", exprs |-> <<TE(">=", ElemKind(c.xs[1]), <<c.xs[1]>>),     \* 67
                                          TE("<=", ElemKind(c.xs[2]), <<c.xs[2]>>)>>]   \* 68
        ELSE [stage |-> "parse", exprs |-> <<>>]
    ELSE IF c.opIsStr /\ low \in {"is_null", "isnull"} THEN         \* 69-70
        [stage |-> "ok", exprs |-> <<TE("is_null", "none", <<>>)>>]
    ELSE IF c.opIsStr /\ low \in {"is_not_null", "notnull", "isnotnull"} THEN   \* 71-72
        [stage |-> "ok", exprs |-> <<TE("is_not_null", "none", <<>>)>>]
    ELSE LET o == ParseOp(c.op, c.opIsStr) IN                       \* 74
         IF o = "Raise" THEN [stage |-> "parse", exprs |-> <<>>]
         ELSE IF ValidateFirst /\ CheckValueRaises(o, c.vk)         \* 75 _check_value
              THEN [stage |-> "parse", exprs |-> <<>>]
         ELSE [stage |-> "ok", exprs |-> <<TE(o, c.vk, IF c.vk = "none" THEN <<NULL>> ELSE c.xs)>>]   \* 76
  ELSE IF c.vk = "none" THEN [stage |-> "parse", exprs |-> <<>>]    \* 77-85: {"col": None} -> ValueError
  ELSE IF ValidateFirst /\ c.vk \in {"seq", "hetero", "homog"}      \* 86-96: tuple of another length, list, set, dict
       THEN [stage |-> "parse", exprs |-> <<>>]
  ELSE [stage |-> "ok", exprs |-> <<TE("==", c.vk, c.xs)>>]         \* 97-98: a scalar becomes an equality value
                                                                    \* (before e9269c1: ANY other object did)

\* What _build_condition / pyarrow do with operand shapes the parser let through (reachable only when
\* ~ValidateFirst; with the strict parser the stage of every malformed condition is "parse"):
\* filters.py:178-192: `for v in expr.value` on a non-iterable -> TypeError; a str IS iterable: its characters
\* become the value set (for a one-character str: the singleton of that very value);
\* filters.py:195-200: `field == value` makes pa.scalar(value): a tuple/list mixing str and int cannot be typed
\* (ArrowTypeError, platform).
\* Reachable with the strict parser too: filters.py:183/192 pa.array(values) of a value list with members of
\* different types raises (ArrowInvalid / ArrowTypeError): a malformed filter that only the BUILD stage rejects.
BuildRaises(e) == (e.op \in SetOps /\ e.vk \in {"scalar", "none", "mixed"}) \/ e.vk = "hetero"
\* Evaluating the built expression: there is no compare kernel for (column type, list<...>) (platform).
ExecRaises(e)  == e.op \in CmpOps /\ e.vk \in {"seq", "homog"}

\* The stage at which the pipeline parse -> build -> evaluate raises for a condition ("ok": never).
StageOf(c) ==
  LET p == ParseCond(c) IN
  IF p.stage # "ok" THEN "parse"
  ELSE IF \E i \in 1..Len(p.exprs) : BuildRaises(p.exprs[i]) THEN "build"
  ELSE IF \E i \in 1..Len(p.exprs) : ExecRaises(p.exprs[i]) THEN "exec"
  ELSE "ok"
\* what the code understood, in the reference's notation
Understood(c) ==
  LET p == ParseCond(c) IN
  IF StageOf(c) # "ok" THEN Malformed
  ELSE WellFormed([i \in 1..Len(p.exprs) |-> PE(p.exprs[i].op, p.exprs[i].xs)])

\* Defect D3 (part of ~ValidateFirst, i.e. before e9269c1): a str operand of in / not_in was not rejected but iterated.
StrAsSet(c) == c.k = "pair" /\ c.opIsStr /\ RefOpOf(Lower(c.op)) \in SetOps /\ c.vk = "strscalar"
\* THEOREM (per condition shape): the code accepts exactly the well-formed conditions, with the
\* reference's meaning; every malformed condition raises (now: in the parser, a mixed-type value list at build)
\* (before e9269c1: at some stage when evaluated, except the str operand of a set operator, which was reinterpreted).
ParserConformsAt(c) == Understood(c) = RefCond(c) \/ (~ValidateFirst /\ StrAsSet(c))

\* engine-level expression [col, op, lit] (lit: number/NULL for comparisons, set for in/not_in)
ToExpr(col, pe) ==
  [col |-> col, op |-> pe.op,
   lit |-> IF pe.op \in SetOps THEN Range(pe.xs) ELSE IF pe.op \in NullOps THEN 0 ELSE pe.xs[1]]

(* ============ transcription: filters.py expression engine ============== *)
\* Three-valued (Kleene) values of pyarrow boolean expressions: "T", "F", "N" (null).
B3(b) == IF b THEN "T" ELSE "F"
And3(x, y) == IF x = "F" \/ y = "F" THEN "F" ELSE IF x = "N" \/ y = "N" THEN "N" ELSE "T"   \* Expression & = and_kleene
Not3(x) == CASE x = "T" -> "F" [] x = "F" -> "T" [] OTHER -> "N"                          \* ~ = invert
IsValid3(v) == B3(v # NULL)
IsNull3(v)  == B3(v = NULL)
\* field <op> scalar: null when either side is null; IEEE for NaN
Cmp3(op, v, l) == IF v = NULL \/ l = NULL THEN "N"
                  ELSE IF v = NAN THEN B3(op = "!=") ELSE B3(Cmp(op, v, l))
\* pc.is_in(field, value_set) with a null-free value set: never null, false for a null input
IsIn3(v, values) == B3(v # NULL /\ v \in values)

\* filters.py:168-209 for one row value v
BuildCondition(e, v) ==
  CASE e.op \in CmpOps -> Cmp3(e.op, v, e.lit)                                        \* 195-200
    [] e.op = "in" -> LET values == e.lit \ {NULL} IN                                \* 179
                      IF values = {} THEN "F"                                        \* 180-182 pc.scalar(False)
                      ELSE And3(IsIn3(v, values), IsValid3(v))                       \* 183
    [] e.op = "not_in" -> LET values == e.lit \ {NULL} IN                            \* 186
                      IF values = {} THEN IsValid3(v)                                \* 187-189
                      ELSE And3(Not3(IsIn3(v, values)), IsValid3(v))                 \* 192
    [] e.op = "is_null" -> IsNull3(v)                                                \* 203
    [] e.op = "is_not_null" -> IsValid3(v)                                           \* 204

\* filters.py:225-238: combined = c1 & c2 & ...
RECURSIVE Combine(_, _, _)
Combine(row, exprs, i) ==
  IF i = 1 THEN BuildCondition(exprs[1], row[exprs[1].col])
  ELSE And3(Combine(row, exprs, i - 1), BuildCondition(exprs[i], row[exprs[i].col]))
\* Table.filter keeps a row iff the mask is true (null and false are dropped);
\* no expressions = no filter (compute_expr is None).
EngineKeeps(row, exprs) == exprs = <<>> \/ Combine(row, exprs, Len(exprs)) = "T"

\* THEOREM: the expression the code builds selects a row iff the reference says "T".
EngineMatchesReferenceAt(v, e) == (BuildCondition(e, v) = "T") <=> (RefSat3(v, e.op, e.lit) = "T")
EngineRowMatchesReference(row, exprs) == EngineKeeps(row, exprs) <=> RefRowSat(row, exprs)

(* ================= transcription: transaction.py scans ================== *)
\* Evaluating a filter over a table that lacks a referenced column raises
\* ("No match for FieldRef"); every call site below says which columns are present.
ColsPresent(exprs, cols) == \A i \in 1..Len(exprs) : exprs[i].col \in cols
ProjPresent(proj, cols) == proj = ProjAll \/ Range(proj) \subseteq cols

\* one file's contribution: rows kept by `keep`, projected (an Ok/Raise record)
FileOut(files, f, keep(_), proj) ==
  LET rs == SelectSeq(RowSeq(files[f]), keep) IN Ok([i \in 1..Len(rs) |-> OutRec(files, f, rs[i], proj)])

\* -- _read_datafile_table, verify path (939-955): read ALL columns, filter, THEN project.
ReadVerify(files, f, exprs, proj) ==
  LET present == Range(AllCols) IN                                                  \* 950 pq.read_table(BytesIO(raw))
  IF ~ColsPresent(exprs, present) THEN Raise                                        \* 951-952 table.filter(compute_expr)
  ELSE IF ~ProjPresent(proj, present) THEN Raise                                    \* 953-954 table.select(columns)
  ELSE LET keep(r) == EngineKeeps(files[f][r], exprs) IN FileOut(files, f, keep, proj)

\* parquet row-group statistics of a column: min/max over the non-NULL, non-NaN values
\* (Filter!Bounds without its all-NaN arm: no statistics then).
RGStats(file, cc) == LET b == Bounds(ColVals(file, cc)) IN IF b.has /\ IsNum(b.lo) THEN b ELSE NoBound

\* (Before 2813326) pyarrow's dataset scanner, reached through pq.read_table(filters=...), simplifies the
\* predicate against the guarantee lo <= x <= hi derived from the statistics and skips the row group when the
\* result is "false" (platform behaviour, observed with pyarrow 24; was re-checked by the binding).  The != and
\* not_in arms are the ones that are blind to NaN, the `in` arm mishandles the signed-zero statistics of an
\* all-zero float row group; every other refutation is result-neutral (StatsArmsAt).
\* ZeroPt: the abstract point that is concretised as 0.0 in float/double columns (harness/values.py).
ZeroPt == 2
SignedZeroStats(st, isFloat) == isFloat /\ st.lo = ZeroPt /\ st.hi = ZeroPt     \* written as min = -0.0, max = +0.0
StatsRefutes(e, st, isFloat) ==
  st.has /\
  CASE e.op \in CmpOps /\ e.lit = NULL -> FALSE
    [] e.op = "=="  -> e.lit < st.lo \/ e.lit > st.hi
    [] e.op = "!="  -> st.lo = st.hi /\ e.lit = st.lo
    [] e.op = "<"   -> st.lo >= e.lit
    [] e.op = "<="  -> st.lo > e.lit
    [] e.op = ">"   -> st.hi <= e.lit
    [] e.op = ">="  -> st.hi < e.lit
    [] e.op = "in"  -> IF SignedZeroStats(st, isFloat) THEN TRUE          \* guarantee x == -0.0; is_in(-0.0, S) is bitwise: false
                       ELSE \A x \in e.lit \ {NULL} : x < st.lo \/ x > st.hi
    [] e.op = "not_in" -> st.lo = st.hi /\ st.lo \in e.lit /\ ~SignedZeroStats(st, isFloat)
    [] OTHER -> FALSE
NaNBlindArm(e) == e.op \in {"!=", "not_in"}
Refuted(file, e, floatCols) == StatsRefutes(e, RGStats(file, e.col), e.col \in floatCols)
RowGroupSkipped(file, exprs, floatCols) ==
  StatsPushdown /\ \E i \in 1..Len(exprs) : Refuted(file, exprs[i], floatCols)

\* -- _read_datafile_table, non-verify path (957-972): with a filter, read ALL columns, filter in memory,
\*    THEN project - the same three steps as the verify path.  (StatsPushdown: before 2813326 the predicate
\*    went into pq.read_table(columns=, filters=), which could skip the row group first.)
ReadNoVerify(files, f, exprs, proj, floatCols) ==
  IF exprs # <<>> THEN                                                              \* 959
      IF RowGroupSkipped(files[f], exprs, floatCols) THEN Ok(<<>>)                  \* (only when StatsPushdown)
      ELSE IF ~ColsPresent(exprs, Range(AllCols)) THEN Raise                        \* 967-968 read_table(src); table.filter
      ELSE IF ~ProjPresent(proj, Range(AllCols)) THEN Raise                         \* 969-970 table.select(columns)
      ELSE LET keep(r) == EngineKeeps(files[f][r], exprs) IN FileOut(files, f, keep, proj)   \* 971
  ELSE IF ~ProjPresent(proj, Range(AllCols)) THEN Raise                             \* 972 read_table(src, columns=columns)
  ELSE LET keep(r) == TRUE IN FileOut(files, f, keep, proj)

ReadOne(files, f, exprs, proj, verify, floatCols) ==
  IF verify THEN ReadVerify(files, f, exprs, proj) ELSE ReadNoVerify(files, f, exprs, proj, floatCols)   \* 939 (every file has a checksum)

\* -- prune_files_by_bounds as called at 1008-1011 / 1133-1136: Filter!MayMatch (the != float guard is in
\*    the code: Guard = TRUE).  A None literal makes the comparison raise TypeError -> "cannot prune".
MayMatchSel(file, exprs, floatCols) ==
  \A i \in 1..Len(exprs) :
     (exprs[i].op \in CmpOps /\ exprs[i].lit = NULL)
     \/ MayMatchOne(exprs[i].op, exprs[i].lit, Bounds(ColVals(file, exprs[i].col)), exprs[i].col \in floatCols, TRUE)
KeptFiles(files, exprs, floatCols) ==
  SelectSeq([f \in 1..Len(files) |-> f], LAMBDA f : exprs = <<>> \/ MayMatchSel(files[f], exprs, floatCols))

Collect(parts) == IF \E i \in 1..Len(parts) : parts[i].raise THEN Raise ELSE Ok(Flatten([i \in 1..Len(parts) |-> parts[i].out]))

\* A filter as the scan sees it: flt = [stage, exprs]; stage = where parse/build/evaluate raises.
\* -- _scan_table 974-1027 (scan 1029-1069 adds to_pylist).  `parallel` only changes who calls read_one;
\*    executor.map keeps file order (1020-1025), so it is not a parameter of the model.
ScanTable(files, flt, proj, verify, floatCols) ==
  IF ~ValidateFirst /\ Len(files) = 0 THEN Ok(<<>>)                                 \* (before e9269c1: the emptiness return came first)
  ELSE IF flt.stage = "parse" THEN Raise                                            \* 1000 parse_filter_dict
  ELSE IF flt.stage = "build" THEN Raise                                            \* 1001 to_pyarrow_compute_expression
  ELSE IF Len(files) = 0 THEN Ok(<<>>)                                              \* 1003-1005 `if not data_files: return None`
  ELSE LET kept == KeptFiles(files, flt.exprs, floatCols) IN                        \* 1008-1011
       IF kept = <<>> THEN Ok(<<>>)                                                 \* 1012-1013
       ELSE IF flt.stage = "exec" THEN Raise                                        \* 1017-1025 read_one evaluates the expression
       ELSE Collect([i \in 1..Len(kept) |-> ReadOne(files, kept[i], flt.exprs, proj, verify, floatCols)])   \* 1027 concat_tables

\* -- _iter_file_batches 1147-1193, one file: batches of bs rows, each filtered then projected.
Min(x, y) == IF x <= y THEN x ELSE y
Chunks(s, bs) == [k \in 1..((Len(s) + bs - 1) \div bs) |-> SubSeq(s, (k - 1) * bs + 1, Min(k * bs, Len(s)))]
IterFileBatches(files, f, flt, proj, bs) ==
  LET readCols == IF flt.exprs # <<>> THEN Range(AllCols)                            \* 1166 read_columns = None if filtering
                  ELSE IF proj = ProjAll THEN Range(AllCols) ELSE Range(proj)          \*      else columns
      batches == Chunks(RowSeq(files[f]), bs)                                        \* 1182 pf.iter_batches(batch_size, read_columns)
  IN  IF ~ProjPresent(proj, Range(AllCols)) THEN Raise
      ELSE IF batches = <<>> THEN Ok(<<>>)                                             \* an empty file yields no batch: nothing is evaluated
      ELSE IF flt.stage = "exec" THEN Raise                                          \* 1187-1188 table.filter(compute_expr)
      ELSE IF ~ColsPresent(flt.exprs, readCols) THEN Raise
      ELSE Ok(Flatten([k \in 1..Len(batches) |->
             LET rs == SelectSeq(batches[k], LAMBDA r : EngineKeeps(files[f][r], flt.exprs))   \* 1187-1188
             IN [i \in 1..Len(rs) |-> OutRec(files, f, rs[i], proj)]]))                        \* 1189-1190 select(columns); 1192-1193

\* -- scan_batches 1097-1145 (a generator: everything happens at the first next()).
\*    verify only changes how the bytes are obtained (1169-1180), never the rows.
ScanBatches(files, flt, proj, bs, floatCols) ==
  IF flt.stage = "parse" THEN Raise                                                 \* 1129 parse_filter_dict
  ELSE IF ValidateFirst /\ flt.stage = "build" THEN Raise                           \* 1130 to_pyarrow_compute_expression
  ELSE LET kept == KeptFiles(files, flt.exprs, floatCols) IN                        \* 1132-1136
       IF kept = <<>> THEN Ok(<<>>)                                                 \* 1138-1139
       ELSE IF flt.stage = "build" THEN Raise                                       \* (before e9269c1: built only here)
       ELSE Collect([i \in 1..Len(kept) |-> IterFileBatches(files, kept[i], flt, proj, bs)])   \* 1143-1145

IterRecords(files, flt, proj, floatCols) == ScanBatches(files, flt, proj, 1000, floatCols)     \* 1214-1218

(* ========================= property C12 ================================ *)
\* The distinct read programs.  scan(parallel=...) runs ScanTable (see there); iter_records is
\* ScanBatches with batch_size 1000; verify_checksums does not enter ScanBatches at all.
Apis == {"scan_verify", "scan_noverify", "batches1", "batches2", "batches1000"}
Outcome(api, files, flt, proj, floatCols) ==
  CASE api = "scan_verify"   -> ScanTable(files, flt, proj, TRUE, floatCols)
    [] api = "scan_noverify" -> ScanTable(files, flt, proj, FALSE, floatCols)
    [] api = "batches1"      -> ScanBatches(files, flt, proj, 1, floatCols)
    [] api = "batches2"      -> ScanBatches(files, flt, proj, 2, floatCols)
    [] api = "batches1000"   -> ScanBatches(files, flt, proj, 1000, floatCols)      \* = IterRecords

\* refMalformed: the reference grammar rejects the filter.  exprs: its reference meaning otherwise.
Expected(files, refMalformed, exprs, proj) ==
  IF refMalformed THEN Raise ELSE Ok(ExpectedRows(files, exprs, proj))

\* C12 on one case, for every read program.
\* refExprs: the reference meaning of the filter; flt: what the code made of it.
ApiConformsAt(files, refMalformed, refExprs, flt, proj, floatCols) ==
  LET exp == Expected(files, refMalformed, refExprs, proj) IN
  \A api \in Apis : Outcome(api, files, flt, proj, floatCols) = exp

\* Characterisation of the defects of the code as it WAS (companion configurations only; with
\* StatsPushdown = FALSE and ValidateFirst = TRUE none of D1-D3 can hold and ApiConformsModuloKnown = ApiConforms).
\* D1  rows lost ONLY on scan(verify_checksums=False), ONLY rows of row groups that the statistics
\*     refute (StatsArms says which rows these can be: NaN rows under != / not_in, and zero rows
\*     of an all-zero float row group under in); nothing extra is ever returned.
LostToStats(files, exprs, floatCols) ==
  {<<f, r>> \in Sel(files, exprs) : \E i \in 1..Len(exprs) : Refuted(files[f], exprs[i], floatCols)}
Ids(o) == {<<o.out[i].f, o.out[i].r>> : i \in 1..Len(o.out)}
DefectD1(api, got, exp, files, exprs, floatCols) ==
  /\ StatsPushdown /\ api = "scan_noverify" /\ ~got.raise /\ ~exp.raise
  /\ Ids(got) \subseteq Ids(exp)
  /\ (Ids(exp) \ Ids(got)) # {} /\ (Ids(exp) \ Ids(got)) \subseteq LostToStats(files, exprs, floatCols)
  /\ \A i \in 1..Len(got.out) : \E j \in 1..Len(exp.out) : got.out[i] = exp.out[j]
\* D2  a malformed filter is accepted (empty answer, never rows) only when no file is evaluated.
DefectD2(got, exp) == ~ValidateFirst /\ exp.raise /\ ~got.raise /\ got.out = <<>>

\* D3  a str operand of in / not_in: every read program answers the reinterpreted question
\*     (value set = the characters) instead of raising.
DefectD3(got, exp, strAsSet, files, flt, proj) ==
  ~ValidateFirst /\ strAsSet /\ exp.raise /\ got = Ok(ExpectedRows(files, flt.exprs, proj))

ApiConformsModuloKnownAt(files, refMalformed, refExprs, flt, proj, floatCols, strAsSet) ==
  LET exp == Expected(files, refMalformed, refExprs, proj) IN
  \A api \in Apis :
     LET got == Outcome(api, files, flt, proj, floatCols)
     IN \/ got = exp
        \/ DefectD1(api, got, exp, files, refExprs, floatCols)
        \/ DefectD2(got, exp)
        \/ DefectD3(got, exp, strAsSet, files, flt, proj)

\* What the statistics arms can get wrong: whenever an expression is refuted for a file, a row of that
\* file satisfies it only if (a) the arm is != / not_in and the row's value is NaN, or (b) the arm is
\* the signed-zero `in` arm and the row's value is the zero of an all-zero float row group.
\* Every other refutation is result-neutral.
StatsArmsAt(file, e, floatCols) ==
  Refuted(file, e, floatCols) =>
     \A r \in 1..Len(file) :
        RefSat3(file[r][e.col], e.op, e.lit) = "T" =>
           \/ NaNBlindArm(e) /\ file[r][e.col] = NAN
           \/ e.op = "in" /\ SignedZeroStats(RGStats(file, e.col), e.col \in floatCols) /\ file[r][e.col] = ZeroPt
=============================================================================
