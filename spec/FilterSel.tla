----------------------------- MODULE FilterSel -----------------------------
(***************************************************************************)
(* L2 function-level specification for property C12: "filters mean what    *)
(* SQL says, identically in every scan API".                               *)
(*                                                                         *)
(* Reference (what the property demands, independent of the code):         *)
(*   RefSat3 / RefRowSat / Sel   three-valued row selection (Filter!Sat3,  *)
(*                               extended with a NULL comparison literal), *)
(*   RefCond                     the grammar of well-formed filter         *)
(*                               conditions; everything else is Malformed  *)
(*                               and must raise,                           *)
(*   Expected                    Raise for a malformed filter, otherwise   *)
(*                               the selected rows, projected.             *)
(* Transcriptions of the code (source ranges of /repo/src/datashard):      *)
(*   ParseCond, ParseOp          filters.py:39-88, 91-128                  *)
(*   BuildCondition, Combine     filters.py:131-172, 175-201               *)
(*   ReadVerify, ReadNoVerify    transaction.py:897-943                    *)
(*   ScanTable                   transaction.py:945-996 (+ scan 998-1038)  *)
(*   ScanBatches, IterFileBatches transaction.py:1066-1113, 1115-1161      *)
(*   IterRecords                 transaction.py:1163-1186                  *)
(* Theorems checked by TLC (MC_FilterSel):                                 *)
(*   EngineMatchesReference, ParserConforms, StatsArms,                    *)
(*   ApiConforms (holds on the repaired model, fails on the code as it is) *)
(*   ApiConformsModuloKnown (the code as it is deviates ONLY in the two    *)
(*   characterised defect classes).                                        *)
(*                                                                         *)
(* Two constants model the code as it is versus a repair:                  *)
(*   StatsPushdown = TRUE   the non-verify path of _read_datafile_table    *)
(*       passes the predicate to pq.read_table(filters=...), whose         *)
(*       row-group pruning trusts parquet min/max statistics; these skip   *)
(*       NaN, so a row group {v, NaN} is dropped for  != v  /  not_in{v};  *)
(*       and a float row group whose only value is zero has statistics     *)
(*       (-0.0, +0.0), from which pyarrow concludes "x == -0.0" and folds  *)
(*       is_in(-0.0, S) - a bitwise test - to false: the rows 0.0 are      *)
(*       dropped for  in S  although 0.0 is in S.                          *)
(*   ValidateFirst = FALSE  _scan_table returns before parsing the filter  *)
(*       when the table has no data files, scan_batches builds the         *)
(*       expression only after the "no files left" return, and the parser  *)
(*       turns every condition that is not a 2-tuple (or None) into an     *)
(*       equality value, leaving it to pyarrow to choke on it - which only *)
(*       happens if some file is actually evaluated.                       *)
(*     TRUE models the repair: the parser itself rejects non-scalar        *)
(*       comparison values, non-iterable in/not_in values and container    *)
(*       conditions, and parse + build precede every early return.         *)
(***************************************************************************)
EXTENDS Filter

CONSTANTS StatsPushdown, ValidateFirst

(* ======================= reference semantics ========================== *)
\* Filter!Sat3 takes a number as comparison literal.  A NULL literal (("==", None), a None
\* bound of "between") makes the comparison UNKNOWN for every row (SQL).
RefSat3(v, op, lit) == IF op \in CmpOps /\ lit = NULL THEN "U" ELSE Sat3(v, op, lit)
RefRowSat(row, exprs) == \A i \in 1..Len(exprs) : RefSat3(row[exprs[i].col], exprs[i].op, exprs[i].lit) = "T"
NoNullCmpLit(exprs) == \A i \in 1..Len(exprs) : ~(exprs[i].op \in CmpOps /\ exprs[i].lit = NULL)

\* The rows a scan must return: <<file index, row index>>.  Same as Filter!Select, without its
\* bound of three rows per file (checked equal where Select applies: SelIsSelect).
Sel(files, exprs) ==
  UNION {{<<f, r>> : r \in {x \in 1..Len(files[f]) : RefRowSat(files[f][x], exprs)}} : f \in 1..Len(files)}
SelIsSelect(files, exprs) ==
  ((\A f \in 1..Len(files) : Len(files[f]) <= 3) /\ NoNullCmpLit(exprs)) => Sel(files, exprs) = Select(files, exprs)

DataCols == {"a", "b"}
AllCols  == <<"a", "b", "rid">>          \* "rid" is the unique row id column of the binding = <<f, r>> here
Range(s) == {s[i] : i \in 1..Len(s)}
\* proj = <<"*">> (columns=None) or a sequence of column names
ProjAll == <<"*">>
ProjCols(proj) == IF proj = ProjAll THEN DataCols ELSE Range(proj) \cap DataCols
OutRec(files, f, r, proj) == [f |-> f, r |-> r, vals |-> [cc \in ProjCols(proj) |-> files[f][r][cc]]]

RECURSIVE Flatten(_)
Flatten(ss) == IF ss = <<>> THEN <<>> ELSE Head(ss) \o Flatten(Tail(ss))

Raise == [raise |-> TRUE, out |-> <<>>]
Ok(s) == [raise |-> FALSE, out |-> s]

RowSeq(file) == [r \in 1..Len(file) |-> r]
ExpectedRows(files, exprs, proj) ==
  Flatten([f \in 1..Len(files) |->
     LET keep(r) == RefRowSat(files[f][r], exprs)
         rs == SelectSeq(RowSeq(files[f]), keep)
     IN [i \in 1..Len(rs) |-> OutRec(files, f, rs[i], proj)]])

(* ============== reference grammar of filter conditions ================ *)
\* A condition shape: [k, op, opIsStr, vk, xs]
\*   k  = "bare"  : {"col": value}; vk/xs describe the value
\*        "pair"  : {"col": (op, value)}  (a tuple of length 2)
\*   vk = "scalar" (xs = <<x>>), "none" (Python None), "seq" (list/tuple of scalars/None, xs),
\*        "hetero" (a tuple/list mixing an operator string with values, e.g. (">", 5, 6) or [">", 5]),
\*        "homog"  (a tuple/list of like-typed members used where a scalar belongs: (">",), (), (1,2,3), [1,2])
\*   op = operator spelling (a string, or the printed form of a non-string when opIsStr = FALSE)
Malformed == [stage |-> "malformed", exprs |-> <<>>]
PE(op, xs) == [op |-> op, xs |-> xs]                  \* parsed expression: canonical operator + literal list
WellFormed(es) == [stage |-> "ok", exprs |-> es]

\* Meaning of operator names, written down by meaning (case-insensitive), not copied from the code.
RefEq == {"==", "=", "eq"}      RefNe == {"!=", "<>", "ne"}
RefLt == {"<", "lt"}            RefLe == {"<=", "le"}
RefGt == {">", "gt"}            RefGe == {">=", "ge"}
RefIn == {"in"}                 RefNotIn == {"not_in", "not in", "notin"}
RefIsNull == {"is_null", "isnull"}
RefIsNotNull == {"is_not_null", "isnotnull", "notnull"}
RefOpOf(low) ==
  CASE low \in RefEq -> "==" [] low \in RefNe -> "!=" [] low \in RefLt -> "<" [] low \in RefLe -> "<="
    [] low \in RefGt -> ">"  [] low \in RefGe -> ">=" [] low \in RefIn -> "in" [] low \in RefNotIn -> "not_in"
    [] low \in RefIsNull -> "is_null" [] low \in RefIsNotNull -> "is_not_null"
    [] low = "between" -> "between" [] OTHER -> "?"

\* Lower(s): Python str.lower() on the finite set of spellings used (trusted platform function).
LowerTab ==
  ("EQ" :> "eq") @@ ("Ne" :> "ne") @@ ("LT" :> "lt") @@ ("Le" :> "le") @@ ("GT" :> "gt") @@ ("gE" :> "ge") @@
  ("IN" :> "in") @@ ("In" :> "in") @@ ("NOT_IN" :> "not_in") @@ ("Not In" :> "not in") @@ ("NOTIN" :> "notin") @@
  ("BETWEEN" :> "between") @@ ("Between" :> "between") @@ ("IS_NULL" :> "is_null") @@ ("IsNull" :> "isnull") @@
  ("IS_NOT_NULL" :> "is_not_null") @@ ("NotNull" :> "notnull") @@ ("ISNOTNULL" :> "isnotnull") @@
  ("GTE" :> "gte") @@ ("Like" :> "like")
Lower(s) == IF s \in DOMAIN LowerTab THEN LowerTab[s] ELSE s

RefCond(c) ==
  IF c.k = "bare" THEN
      IF c.vk = "scalar" THEN WellFormed(<<PE("==", c.xs)>>) ELSE Malformed   \* None, tuples of other lengths, lists
  ELSE IF ~c.opIsStr THEN Malformed
  ELSE LET o == RefOpOf(Lower(c.op)) IN
    CASE o = "?" -> Malformed
      [] o = "between" -> IF c.vk = "seq" /\ Len(c.xs) = 2
                          THEN WellFormed(<<PE(">=", <<c.xs[1]>>), PE("<=", <<c.xs[2]>>)>>) ELSE Malformed
      [] o \in NullOps -> WellFormed(<<PE(o, <<>>)>>)          \* documented form: (op, True); the value carries no meaning
      [] o \in SetOps  -> IF c.vk = "seq" THEN WellFormed(<<PE(o, c.xs)>>) ELSE Malformed
      [] OTHER -> IF c.vk = "scalar" THEN WellFormed(<<PE(o, c.xs)>>)
                  ELSE IF c.vk = "none" THEN WellFormed(<<PE(o, <<NULL>>)>>)   \* comparison with NULL: matches nothing
                  ELSE Malformed

(* ================= transcription: filters.py parser ==================== *)
\* filters.py:100-119
Mapping ==
  ("==" :> "==") @@ ("=" :> "==") @@ ("eq" :> "==") @@ ("!=" :> "!=") @@ ("<>" :> "!=") @@ ("ne" :> "!=") @@
  ("<" :> "<") @@ ("lt" :> "<") @@ ("<=" :> "<=") @@ ("le" :> "<=") @@ (">" :> ">") @@ ("gt" :> ">") @@
  (">=" :> ">=") @@ ("ge" :> ">=") @@ ("in" :> "in") @@ ("not_in" :> "not_in") @@ ("not in" :> "not_in") @@
  ("notin" :> "not_in")

\* filters.py:120-128 : key = op_str.lower() if str; mapping.get(key); None -> ValueError
ParseOp(op, isStr) ==
  LET key == IF isStr THEN Lower(op) ELSE op IN
  IF isStr /\ key \in DOMAIN Mapping THEN Mapping[key] ELSE "Raise"     \* a non-string key is in no str-keyed dict

\* Parser result: [stage, exprs] where an expression also remembers the kind of its value
\* (needed to know what _build_condition / pyarrow do with it).
TE(op, vk, xs) == [op |-> op, vk |-> vk, xs |-> xs]
ElemKind(x) == IF x = NULL THEN "none" ELSE "scalar"

ParseCond(c) ==
  IF c.k = "pair" THEN                                              \* 60: isinstance(condition, tuple) and len == 2
    LET low == IF c.opIsStr THEN Lower(c.op) ELSE c.op IN           \* 62
    IF c.opIsStr /\ low = "between" THEN                            \* 64
        IF c.vk = "seq" /\ Len(c.xs) = 2                            \* 66: lo, hi = value (TypeError/ValueError otherwise)
        THEN [stage |-> "ok", exprs |-> <<TE(">=", ElemKind(c.xs[1]), <<c.xs[1]>>),     \* 67
                                          TE("<=", ElemKind(c.xs[2]), <<c.xs[2]>>)>>]   \* 68
        ELSE [stage |-> "parse", exprs |-> <<>>]
    ELSE IF c.opIsStr /\ low \in {"is_null", "isnull"} THEN         \* 69-70
        [stage |-> "ok", exprs |-> <<TE("is_null", "none", <<>>)>>]
    ELSE IF c.opIsStr /\ low \in {"is_not_null", "notnull", "isnotnull"} THEN   \* 71-72
        [stage |-> "ok", exprs |-> <<TE("is_not_null", "none", <<>>)>>]
    ELSE LET o == ParseOp(c.op, c.opIsStr) IN                       \* 74
         IF o = "Raise" THEN [stage |-> "parse", exprs |-> <<>>]
         ELSE IF ValidateFirst /\ ((o \in SetOps /\ c.vk \in {"scalar", "none"}) \/ (o \in CmpOps /\ c.vk \in {"seq", "hetero", "homog"}))
              THEN [stage |-> "parse", exprs |-> <<>>]            \* (repair) value kind checked by the parser
         ELSE [stage |-> "ok", exprs |-> <<TE(o, c.vk, IF c.vk = "none" THEN <<NULL>> ELSE c.xs)>>]   \* 75
  ELSE IF c.vk = "none" THEN [stage |-> "parse", exprs |-> <<>>]    \* 76-84: {"col": None} -> ValueError
  ELSE IF ValidateFirst /\ c.vk \in {"seq", "hetero", "homog"} THEN [stage |-> "parse", exprs |-> <<>>]   \* (repair) container as condition
  ELSE [stage |-> "ok", exprs |-> <<TE("==", c.vk, c.xs)>>]         \* 85-87: ANY other object becomes an equality value

\* filters.py:141-155: `for v in expr.value` on a non-iterable -> TypeError;
\* filters.py:158-163: `field == value` makes pa.scalar(value): a tuple/list mixing str and int cannot be typed
\* (ArrowTypeError, platform).
BuildRaises(e) == (e.op \in SetOps /\ e.vk \in {"scalar", "none"}) \/ e.vk = "hetero"
\* Evaluating the built expression: there is no compare kernel for (column type, list<...>) (platform).
ExecRaises(e)  == e.op \in CmpOps /\ e.vk \in {"seq", "homog"}

\* The stage at which the pipeline parse -> build -> evaluate raises for a condition ("ok": never).
StageOf(c) ==
  LET p == ParseCond(c) IN
  IF p.stage # "ok" THEN "parse"
  ELSE IF \E i \in 1..Len(p.exprs) : BuildRaises(p.exprs[i]) THEN "build"
  ELSE IF \E i \in 1..Len(p.exprs) : ExecRaises(p.exprs[i]) THEN "exec"
  ELSE "ok"
\* what the code understood, in the reference's notation
Understood(c) ==
  LET p == ParseCond(c) IN
  IF StageOf(c) # "ok" THEN Malformed
  ELSE WellFormed([i \in 1..Len(p.exprs) |-> PE(p.exprs[i].op, p.exprs[i].xs)])

\* THEOREM (per condition shape): the code accepts exactly the well-formed conditions, with the
\* reference's meaning; every malformed condition raises at some stage when it is evaluated.
ParserConformsAt(c) == Understood(c) = RefCond(c)

\* engine-level expression [col, op, lit] (lit: number/NULL for comparisons, set for in/not_in)
ToExpr(col, pe) ==
  [col |-> col, op |-> pe.op,
   lit |-> IF pe.op \in SetOps THEN Range(pe.xs) ELSE IF pe.op \in NullOps THEN 0 ELSE pe.xs[1]]

(* ============ transcription: filters.py expression engine ============== *)
\* Three-valued (Kleene) values of pyarrow boolean expressions: "T", "F", "N" (null).
B3(b) == IF b THEN "T" ELSE "F"
And3(x, y) == IF x = "F" \/ y = "F" THEN "F" ELSE IF x = "N" \/ y = "N" THEN "N" ELSE "T"   \* Expression & = and_kleene
Not3(x) == CASE x = "T" -> "F" [] x = "F" -> "T" [] OTHER -> "N"                          \* ~ = invert
IsValid3(v) == B3(v # NULL)
IsNull3(v)  == B3(v = NULL)
\* field <op> scalar: null when either side is null; IEEE for NaN
Cmp3(op, v, l) == IF v = NULL \/ l = NULL THEN "N"
                  ELSE IF v = NAN THEN B3(op = "!=") ELSE B3(Cmp(op, v, l))
\* pc.is_in(field, value_set) with a null-free value set: never null, false for a null input
IsIn3(v, values) == B3(v # NULL /\ v \in values)

\* filters.py:131-172 for one row value v
BuildCondition(e, v) ==
  CASE e.op \in CmpOps -> Cmp3(e.op, v, e.lit)                                        \* 158-163
    [] e.op = "in" -> LET values == e.lit \ {NULL} IN                                \* 142
                      IF values = {} THEN "F"                                        \* 143-145 pc.scalar(False)
                      ELSE And3(IsIn3(v, values), IsValid3(v))                       \* 146
    [] e.op = "not_in" -> LET values == e.lit \ {NULL} IN                            \* 149
                      IF values = {} THEN IsValid3(v)                                \* 150-152
                      ELSE And3(Not3(IsIn3(v, values)), IsValid3(v))                 \* 155
    [] e.op = "is_null" -> IsNull3(v)                                                \* 166
    [] e.op = "is_not_null" -> IsValid3(v)                                           \* 167

\* filters.py:188-201: combined = c1 & c2 & ...
RECURSIVE Combine(_, _, _)
Combine(row, exprs, i) ==
  IF i = 1 THEN BuildCondition(exprs[1], row[exprs[1].col])
  ELSE And3(Combine(row, exprs, i - 1), BuildCondition(exprs[i], row[exprs[i].col]))
\* Table.filter / read_table(filters=) keep a row iff the mask is true (null and false are dropped);
\* no expressions = no filter (compute_expr is None).
EngineKeeps(row, exprs) == exprs = <<>> \/ Combine(row, exprs, Len(exprs)) = "T"

\* THEOREM: the expression the code builds selects a row iff the reference says "T".
EngineMatchesReferenceAt(v, e) == (BuildCondition(e, v) = "T") <=> (RefSat3(v, e.op, e.lit) = "T")
EngineRowMatchesReference(row, exprs) == EngineKeeps(row, exprs) <=> RefRowSat(row, exprs)

(* ================= transcription: transaction.py scans ================== *)
\* Evaluating a filter over a table that lacks a referenced column raises
\* ("No match for FieldRef"); every call site below says which columns are present.
ColsPresent(exprs, cols) == \A i \in 1..Len(exprs) : exprs[i].col \in cols
ProjPresent(proj, cols) == proj = ProjAll \/ Range(proj) \subseteq cols

\* one file's contribution: rows kept by `keep`, projected (an Ok/Raise record)
FileOut(files, f, keep(_), proj) ==
  LET rs == SelectSeq(RowSeq(files[f]), keep) IN Ok([i \in 1..Len(rs) |-> OutRec(files, f, rs[i], proj)])

\* -- _read_datafile_table, verify path (919-935): read ALL columns, filter, THEN project.
ReadVerify(files, f, exprs, proj) ==
  LET present == Range(AllCols) IN                                                  \* 930 pq.read_table(BytesIO(raw))
  IF ~ColsPresent(exprs, present) THEN Raise                                        \* 931-932 table.filter(compute_expr)
  ELSE IF ~ProjPresent(proj, present) THEN Raise                                    \* 933-934 table.select(columns)
  ELSE LET keep(r) == EngineKeeps(files[f][r], exprs) IN FileOut(files, f, keep, proj)

\* parquet row-group statistics of a column: min/max over the non-NULL, non-NaN values
\* (Filter!Bounds without its all-NaN arm: no statistics then).
RGStats(file, cc) == LET b == Bounds(ColVals(file, cc)) IN IF b.has /\ IsNum(b.lo) THEN b ELSE NoBound

\* pyarrow's dataset scanner simplifies the predicate against the guarantee lo <= x <= hi derived
\* from the statistics and skips the row group when the result is "false" (platform behaviour,
\* observed with pyarrow 24; re-checked by the binding).  The != and not_in arms are the ones
\* that are blind to NaN, the `in` arm mishandles the signed-zero statistics of an all-zero float row
\* group; every other refutation is result-neutral (StatsArmsAt).
\* ZeroPt: the abstract point that is concretised as 0.0 in float/double columns (harness/values.py).
ZeroPt == 2
SignedZeroStats(st, isFloat) == isFloat /\ st.lo = ZeroPt /\ st.hi = ZeroPt     \* written as min = -0.0, max = +0.0
StatsRefutes(e, st, isFloat) ==
  st.has /\
  CASE e.op \in CmpOps /\ e.lit = NULL -> FALSE
    [] e.op = "=="  -> e.lit < st.lo \/ e.lit > st.hi
    [] e.op = "!="  -> st.lo = st.hi /\ e.lit = st.lo
    [] e.op = "<"   -> st.lo >= e.lit
    [] e.op = "<="  -> st.lo > e.lit
    [] e.op = ">"   -> st.hi <= e.lit
    [] e.op = ">="  -> st.hi < e.lit
    [] e.op = "in"  -> IF SignedZeroStats(st, isFloat) THEN TRUE          \* guarantee x == -0.0; is_in(-0.0, S) is bitwise: false
                       ELSE \A x \in e.lit \ {NULL} : x < st.lo \/ x > st.hi
    [] e.op = "not_in" -> st.lo = st.hi /\ st.lo \in e.lit /\ ~SignedZeroStats(st, isFloat)
    [] OTHER -> FALSE
NaNBlindArm(e) == e.op \in {"!=", "not_in"}
Refuted(file, e, floatCols) == StatsRefutes(e, RGStats(file, e.col), e.col \in floatCols)
RowGroupSkipped(file, exprs, floatCols) ==
  StatsPushdown /\ \E i \in 1..Len(exprs) : Refuted(file, exprs[i], floatCols)

\* -- _read_datafile_table, non-verify path (937-943): predicate pushdown into pq.read_table.
ReadNoVerify(files, f, exprs, proj, floatCols) ==
  IF ~ProjPresent(proj, Range(AllCols)) THEN Raise
  ELSE IF exprs # <<>> THEN                                                         \* 939-942 read_table(columns=, filters=)
      IF ~ColsPresent(exprs, Range(AllCols)) THEN Raise
      ELSE IF RowGroupSkipped(files[f], exprs, floatCols) THEN Ok(<<>>)
      ELSE LET keep(r) == EngineKeeps(files[f][r], exprs) IN FileOut(files, f, keep, proj)
  ELSE LET keep(r) == TRUE IN FileOut(files, f, keep, proj)                         \* 943

ReadOne(files, f, exprs, proj, verify, floatCols) ==
  IF verify THEN ReadVerify(files, f, exprs, proj) ELSE ReadNoVerify(files, f, exprs, proj, floatCols)   \* 919 (every file has a checksum)

\* -- prune_files_by_bounds as called at 977-980 / 1100-1103: Filter!MayMatch (the != float guard is in
\*    the code: Guard = TRUE).  A None literal makes the comparison raise TypeError -> "cannot prune".
MayMatchSel(file, exprs, floatCols) ==
  \A i \in 1..Len(exprs) :
     (exprs[i].op \in CmpOps /\ exprs[i].lit = NULL)
     \/ MayMatchOne(exprs[i].op, exprs[i].lit, Bounds(ColVals(file, exprs[i].col)), exprs[i].col \in floatCols, TRUE)
KeptFiles(files, exprs, floatCols) ==
  SelectSeq([f \in 1..Len(files) |-> f], LAMBDA f : exprs = <<>> \/ MayMatchSel(files[f], exprs, floatCols))

Collect(parts) == IF \E i \in 1..Len(parts) : parts[i].raise THEN Raise ELSE Ok(Flatten([i \in 1..Len(parts) |-> parts[i].out]))

\* A filter as the scan sees it: flt = [stage, exprs]; stage = where parse/build/evaluate raises.
\* -- _scan_table 945-996 (scan 998-1038 adds to_pylist).  `parallel` only changes who calls read_one;
\*    executor.map keeps file order (989-994), so it is not a parameter of the model.
ScanTable(files, flt, proj, verify, floatCols) ==
  IF ~ValidateFirst /\ Len(files) = 0 THEN Ok(<<>>)                                 \* 969-971 `if not data_files: return None`
  ELSE IF flt.stage = "parse" THEN Raise                                            \* 973 parse_filter_dict
  ELSE IF flt.stage = "build" THEN Raise                                            \* 974 to_pyarrow_compute_expression
  ELSE IF Len(files) = 0 THEN Ok(<<>>)                                              \* (repaired order)
  ELSE LET kept == KeptFiles(files, flt.exprs, floatCols) IN                        \* 977-980
       IF kept = <<>> THEN Ok(<<>>)                                                 \* 981-982
       ELSE IF flt.stage = "exec" THEN Raise                                        \* 986-994 read_one evaluates the expression
       ELSE Collect([i \in 1..Len(kept) |-> ReadOne(files, kept[i], flt.exprs, proj, verify, floatCols)])   \* 996 concat_tables

\* -- _iter_file_batches 1115-1161, one file: batches of bs rows, each filtered then projected.
Min(x, y) == IF x <= y THEN x ELSE y
Chunks(s, bs) == [k \in 1..((Len(s) + bs - 1) \div bs) |-> SubSeq(s, (k - 1) * bs + 1, Min(k * bs, Len(s)))]
IterFileBatches(files, f, flt, proj, bs) ==
  LET readCols == IF flt.exprs # <<>> THEN Range(AllCols)                            \* 1134 read_columns = None if filtering
                  ELSE IF proj = ProjAll THEN Range(AllCols) ELSE Range(proj)          \*      else columns
      batches == Chunks(RowSeq(files[f]), bs)                                        \* 1150 pf.iter_batches(batch_size, read_columns)
  IN  IF ~ProjPresent(proj, Range(AllCols)) THEN Raise
      ELSE IF batches = <<>> THEN Ok(<<>>)                                             \* an empty file yields no batch: nothing is evaluated
      ELSE IF flt.stage = "exec" THEN Raise                                          \* 1155-1156 table.filter(compute_expr)
      ELSE IF ~ColsPresent(flt.exprs, readCols) THEN Raise
      ELSE Ok(Flatten([k \in 1..Len(batches) |->
             LET rs == SelectSeq(batches[k], LAMBDA r : EngineKeeps(files[f][r], flt.exprs))   \* 1155-1156
             IN [i \in 1..Len(rs) |-> OutRec(files, f, rs[i], proj)]]))                        \* 1157-1158 select(columns); 1160-1161

\* -- scan_batches 1066-1113 (a generator: everything happens at the first next()).
\*    verify only changes how the bytes are obtained (1137-1148), never the rows.
ScanBatches(files, flt, proj, bs, floatCols) ==
  IF flt.stage = "parse" THEN Raise                                                 \* 1099 parse_filter_dict
  ELSE LET kept == KeptFiles(files, flt.exprs, floatCols) IN                        \* 1100-1103
       IF ValidateFirst /\ flt.stage = "build" THEN Raise                           \* (repaired order)
       ELSE IF kept = <<>> THEN Ok(<<>>)                                            \* 1105-1106
       ELSE IF flt.stage = "build" THEN Raise                                       \* 1108
       ELSE Collect([i \in 1..Len(kept) |-> IterFileBatches(files, kept[i], flt, proj, bs)])   \* 1111-1113

IterRecords(files, flt, proj, floatCols) == ScanBatches(files, flt, proj, 1000, floatCols)     \* 1182-1186

(* ========================= property C12 ================================ *)
\* The distinct read programs.  scan(parallel=...) runs ScanTable (see there); iter_records is
\* ScanBatches with batch_size 1000; verify_checksums does not enter ScanBatches at all.
Apis == {"scan_verify", "scan_noverify", "batches1", "batches2", "batches1000"}
Outcome(api, files, flt, proj, floatCols) ==
  CASE api = "scan_verify"   -> ScanTable(files, flt, proj, TRUE, floatCols)
    [] api = "scan_noverify" -> ScanTable(files, flt, proj, FALSE, floatCols)
    [] api = "batches1"      -> ScanBatches(files, flt, proj, 1, floatCols)
    [] api = "batches2"      -> ScanBatches(files, flt, proj, 2, floatCols)
    [] api = "batches1000"   -> ScanBatches(files, flt, proj, 1000, floatCols)      \* = IterRecords

\* refMalformed: the reference grammar rejects the filter.  exprs: its reference meaning otherwise.
Expected(files, refMalformed, exprs, proj) ==
  IF refMalformed THEN Raise ELSE Ok(ExpectedRows(files, exprs, proj))

\* C12 on one case, for every read program.
\* refExprs: the reference meaning of the filter; flt: what the code made of it.
ApiConformsAt(files, refMalformed, refExprs, flt, proj, floatCols) ==
  LET exp == Expected(files, refMalformed, refExprs, proj) IN
  \A api \in Apis : Outcome(api, files, flt, proj, floatCols) = exp

\* Characterisation of the defects of the code as it is.
\* D1  rows lost ONLY on scan(verify_checksums=False), ONLY rows of row groups that the statistics
\*     refute (StatsArms says which rows these can be: NaN rows under != / not_in, and zero rows
\*     of an all-zero float row group under in); nothing extra is ever returned.
LostToStats(files, exprs, floatCols) ==
  {<<f, r>> \in Sel(files, exprs) : \E i \in 1..Len(exprs) : Refuted(files[f], exprs[i], floatCols)}
Ids(o) == {<<o.out[i].f, o.out[i].r>> : i \in 1..Len(o.out)}
DefectD1(api, got, exp, files, exprs, floatCols) ==
  /\ StatsPushdown /\ api = "scan_noverify" /\ ~got.raise /\ ~exp.raise
  /\ Ids(got) \subseteq Ids(exp)
  /\ (Ids(exp) \ Ids(got)) # {} /\ (Ids(exp) \ Ids(got)) \subseteq LostToStats(files, exprs, floatCols)
  /\ \A i \in 1..Len(got.out) : \E j \in 1..Len(exp.out) : got.out[i] = exp.out[j]
\* D2  a malformed filter is accepted (empty answer, never rows) only when no file is evaluated.
DefectD2(got, exp) == ~ValidateFirst /\ exp.raise /\ ~got.raise /\ got.out = <<>>

ApiConformsModuloKnownAt(files, refMalformed, refExprs, flt, proj, floatCols) ==
  LET exp == Expected(files, refMalformed, refExprs, proj) IN
  \A api \in Apis :
     LET got == Outcome(api, files, flt, proj, floatCols)
     IN got = exp \/ DefectD1(api, got, exp, files, refExprs, floatCols) \/ DefectD2(got, exp)

\* What the statistics arms can get wrong: whenever an expression is refuted for a file, a row of that
\* file satisfies it only if (a) the arm is != / not_in and the row's value is NaN, or (b) the arm is
\* the signed-zero `in` arm and the row's value is the zero of an all-zero float row group.
\* Every other refutation is result-neutral.
StatsArmsAt(file, e, floatCols) ==
  Refuted(file, e, floatCols) =>
     \A r \in 1..Len(file) :
        RefSat3(file[r][e.col], e.op, e.lit) = "T" =>
           \/ NaNBlindArm(e) /\ file[r][e.col] = NAN
           \/ e.op = "in" /\ SignedZeroStats(RGStats(file, e.col), e.col \in floatCols) /\ file[r][e.col] = ZeroPt
=============================================================================
