------------------------------ MODULE Metadata ------------------------------
(***************************************************************************)
(* Pure operators over DataShard table metadata (no VARIABLES).            *)
(*                                                                         *)
(* PART 1 - TRANSCRIPTIONS: each operator is a line-by-line transcription  *)
(* of one function of /repo/src/datashard (source range in the comment).   *)
(* They model the code AS IT IS.                                           *)
(*                                                                         *)
(* PART 2 - REFERENCE SEMANTICS: what properties C15 / C09 demand, written *)
(* independently of the transcriptions, against a GHOST record of the full *)
(* commit history (which the code does not keep).                          *)
(*                                                                         *)
(* Representation                                                          *)
(*   snapshot id   positive integer; 0 = "no snapshot" (the code's None    *)
(*                 and -1 both project to 0)                               *)
(*   snapshot      [id, parent, seq, ts, list]                             *)
(*   metadata      [uuid, lastUpd, lastSeq, cur, snaps, slog, mlog,        *)
(*                  retention, mlogMax, schemaId]                          *)
(*                 snaps : SEQUENCE of snapshots (order of the JSON list)  *)
(*                 slog  : sequence of snapshot ids (an entry's timestamp  *)
(*                         equals the snapshot's ts)                       *)
(*                 mlog  : sequence of metadata-file names (any values)    *)
(*                 retention : 0 = property datashard.snapshot.retention-  *)
(*                         count unset (or not an integer); else its value *)
(*                 mlogMax   : 0 = write.metadata.previous-versions-max    *)
(*                         unset (or not an integer); else its value       *)
(*   manifest list sequence of manifest ids                                *)
(*   manifest      [id, entries]; entries = sequence of                    *)
(*                 [file, status \in {"ADDED","EXISTING"}, snap, seq]      *)
(*   data files    any values                                              *)
(***************************************************************************)
EXTENDS Integers, Sequences, FiniteSets

NoSnap   == 0
NoCutoff == -1          \* "no expire_snapshots queued" for NewSnapshot's cutoffOrNone

DefaultMlogMax == 100   \* metadata_manager.py:254 DEFAULT_PREVIOUS_VERSIONS_MAX

(* ------------------------------ helpers ------------------------------ *)
SeqRange(s)  == {s[i] : i \in 1..Len(s)}
SnapIds(snaps) == {snaps[i].id : i \in 1..Len(snaps)}
MaxOf(a, b)  == IF a >= b THEN a ELSE b
SetMaxInt(S) == CHOOSE x \in S : \A y \in S : y <= x
SetMinInt(S) == CHOOSE x \in S : \A y \in S : x <= y
LastOf(s)    == s[Len(s)]
DropAt(s, k) == [i \in 1..(Len(s) - 1) |-> IF i < k THEN s[i] ELSE s[i + 1]]

\* Python's sorted(snaps, key=lambda s: s.timestamp_ms): STABLE, ascending.
\* Rank(i) = position of snaps[i] in the sorted list.
TsRank(snaps, i) ==
  1 + Cardinality({j \in 1..Len(snaps) :
                     snaps[j].ts < snaps[i].ts \/ (snaps[j].ts = snaps[i].ts /\ j < i)})
SortByTs(snaps) ==
  [k \in 1..Len(snaps) |-> snaps[CHOOSE i \in 1..Len(snaps) : TsRank(snaps, i) = k]]

\* first snapshot of the list with the given id (for s in snapshots: if s.snapshot_id == x)
HasSnap(snaps, sid) == \E i \in 1..Len(snaps) : snaps[i].id = sid
FirstIdx(snaps, sid) == SetMinInt({i \in 1..Len(snaps) : snaps[i].id = sid})
SnapById(snaps, sid) == snaps[FirstIdx(snaps, sid)]

(***************************************************************************)
(*                       PART 1 - TRANSCRIPTIONS                           *)
(***************************************************************************)

(* ---- snapshot_manager.py:21-47 repoint_parents_to_surviving_ancestors ---- *)
\* :35  parent_of = {s.snapshot_id: s.parent_snapshot_id for s in all_snapshots}
\*      (dict comprehension: the LAST snapshot with a given id wins); .get() of an unknown
\*      id (dangling link) yields None = 0.
ParentOf(allSnaps, p) ==
  LET hits == {i \in 1..Len(allSnaps) : allSnaps[i].id = p} IN
  IF hits = {} THEN NoSnap ELSE allSnaps[SetMaxInt(hits)].parent

\* :39-46 the while loop for one survivor.  `seen` is the cycle guard.
RECURSIVE RepointWalk(_, _, _, _)
RepointWalk(allSnaps, keptIds, parent, seen) ==
  IF parent = NoSnap \/ parent \in keptIds THEN parent     \* :41 loop condition false (None / -1 / kept)
  ELSE IF parent \in seen THEN NoSnap                       \* :42-44 cycle: drop the link
  ELSE RepointWalk(allSnaps, keptIds, ParentOf(allSnaps, parent), seen \cup {parent})   \* :45-46

\* :38-47  returns keptSnaps with every parent rewritten (the code mutates in place; parent_of
\* was computed from the ORIGINAL parents before the loop, so iteration order is irrelevant).
Repoint(allSnaps, keptSnaps) ==
  LET keptIds == SnapIds(keptSnaps) IN                      \* :36
  [i \in 1..Len(keptSnaps) |->
     [keptSnaps[i] EXCEPT !.parent = RepointWalk(allSnaps, keptIds, keptSnaps[i].parent, {})]]

(* ---- transaction.py:601-621 _make_expire_mutator(cutoff_ms) ---- *)
\* (transaction.py line numbers: tree at commit 526391b)
ExpireMutator(m, cutoff) ==
  LET kept    == SelectSeq(m.snaps, LAMBDA s : s.ts >= cutoff \/ s.id = m.cur)   \* :608-612
      keptIds == SnapIds(kept)                                                   \* :613
  IN [m EXCEPT !.snaps = Repoint(m.snaps, kept),                                 \* :615-616
               !.slog  = SelectSeq(m.slog, LAMBDA e : e \in keptIds)]            \* :617-619

\* transaction.py:393-405: several expire_snapshots in one transaction fold to the max cutoff
FoldCutoff(c1, c2) == IF c1 = NoCutoff THEN c2 ELSE IF c2 = NoCutoff THEN c1 ELSE MaxOf(c1, c2)

(* ---- snapshot_manager.py:157-190 _apply_retention ---- *)
ApplyRetention(m) ==
  IF m.retention < 1 \/ Len(m.snaps) <= m.retention THEN m          \* :159-170 (unset / invalid / <1 / few)
  ELSE
  LET sorted  == SortByTs(m.snaps)                                  \* :173 stable sort by timestamp
      n       == Len(sorted)
      kept0   == SubSeq(sorted, n - m.retention + 1, n)             \* :174 sorted[-retention_count:]
      ids0    == SnapIds(kept0)                                     \* :175
      \* :177-183 never drop the current snapshot (current_id -1/None matches no snapshot)
      keptIds == IF m.cur # NoSnap /\ m.cur \notin ids0 /\ HasSnap(m.snaps, m.cur)
                 THEN ids0 \cup {m.cur} ELSE ids0
      surviving == SelectSeq(sorted, LAMBDA s : s.id \in keptIds)   \* :185 in TIMESTAMP order
  IN [m EXCEPT !.snaps = Repoint(m.snaps, surviving),               \* :186-187
               !.slog  = SelectSeq(m.slog, LAMBDA e : e \in keptIds)]  \* :188-190

(* ---- transaction.py:485 / snapshot_manager.py:107-108 ---- *)
NextSeq(base) == base.lastSeq + 1

(* ---- snapshot_manager.py:104-148 create_snapshot: construction of the new metadata ---- *)
\* sid      : transaction.py:481 (fresh random id)
\* seq      : transaction.py:485 = NextSeq(base) of the base the attempt read
\* ts       : snapshot_manager.py:113 clock read
\* listId   : the manifest list written by this attempt
\* cutoffOrNone : NoCutoff, or the folded expire cutoff (metadata_mutator)
\* parent   : transaction.py:590-594 = base.current_snapshot_id (None -> -1; both are 0 here)
NewSnapshot(base, sid, seq, ts, listId, cutoffOrNone) ==
  LET snap == [id |-> sid, parent |-> base.cur, seq |-> seq, ts |-> ts, list |-> listId]  \* :111-122
      m1 == [base EXCEPT !.snaps   = Append(@, snap),                    \* :125-126
                         !.cur     = sid,                                \* :127
                         !.lastSeq = MaxOf(base.lastSeq, seq),           \* :128-130
                         !.slog    = Append(@, sid)]                     \* :133-136
      m2 == IF cutoffOrNone # NoCutoff THEN ExpireMutator(m1, cutoffOrNone) ELSE m1   \* :140-144
  IN ApplyRetention(m2)                                                  \* :148

\* transaction.py:417-423 metadata-only transaction (expire_snapshots alone): no snapshot, no retention
ExpireOnly(base, cutoff) == ExpireMutator(base, cutoff)

(* ---- snapshot_manager.py:303-317 _most_recent_snapshot_id ---- *)
MostRecent(m) ==
  LET ids == SnapIds(m.snaps) IN
  IF ids = {} THEN NoSnap                                               \* :308-309 -> None
  ELSE LET hits == {i \in 1..Len(m.slog) : m.slog[i] \in ids} IN
       IF hits # {} THEN m.slog[SetMaxInt(hits)]                        \* :311-313 latest log entry that exists
       ELSE \* :316 max(snapshots, key=timestamp_ms): the FIRST snapshot with the maximal timestamp
            LET top == SetMaxInt({m.snaps[i].ts : i \in 1..Len(m.snaps)})
            IN m.snaps[SetMinInt({i \in 1..Len(m.snaps) : m.snaps[i].ts = top})].id

(* ---- snapshot_manager.py:258-301 delete_snapshot ---- *)
\* :272-277 found?  (when not found the function returns False and commits nothing)
DeleteSnapshotApplies(base, sid) == HasSnap(base.snaps, sid)
DeleteSnapshot(base, sid) ==
  IF ~HasSnap(base.snaps, sid) THEN base
  ELSE
  LET k    == FirstIdx(base.snaps, sid)                                 \* :272-275 first match
      rest == DropAt(base.snaps, k)                                   \* :282
      m1   == [base EXCEPT !.snaps = Repoint(base.snaps, rest),         \* :284
                           !.slog  = SelectSeq(base.slog, LAMBDA e : e # sid)]   \* :287-289
  IN IF base.cur = sid THEN [m1 EXCEPT !.cur = MostRecent(m1)] ELSE m1  \* :292-295

(* ---- metadata_manager.py:256-291 _append_metadata_log ---- *)
\* (line numbers of metadata_manager.py are those of the tree at commit ea475b4, i.e. after the
\* OCC-stamp fix; the function bodies below line 183 are unchanged, shifted by 8 lines)
\* prevName = name of the metadata file the hint named when this commit read it (:198-209).
\* The entry's timestamp-ms (= base.last_updated_ms) is abstracted away.
MlogBound(m) == IF m.mlogMax = 0 THEN DefaultMlogMax ELSE m.mlogMax    \* :279-287
AppendMetadataLog(new, base, prevName) ==
  IF Len(new.mlog) > 0 /\ LastOf(new.mlog) = prevName THEN new          \* :271-272 dedupe
  ELSE LET log == Append(new.mlog, prevName)                            \* :274-277
           mx  == MlogBound(new)
       IN [new EXCEPT !.mlog = IF mx >= 1 /\ Len(log) > mx              \* :288-289
                               THEN SubSeq(log, Len(log) - mx + 1, Len(log)) ELSE log]

(* ---- the OCC stamp ---- *)
\* the tree BEFORE commit ea475b4 (metadata_manager.py:183 then): last_updated_ms = now.
\* Kept for configurations that model the unrepaired stamp (coarse / frozen clock, C01 scenario S1).
StampCommit(new, now) == [new EXCEPT !.lastUpd = now]
\* the code AS IT IS (metadata_manager.py:188-191): the stamp changes with every commit, also when
\* two commits land in the same millisecond or the clock steps back.  cur = the metadata the commit
\* validated against (metadata_manager.py:161).
StampCommitMono(new, cur, now) ==
  [new EXCEPT !.lastUpd = IF now <= cur.lastUpd THEN cur.lastUpd + 1 ELSE now]

(* ---- metadata_manager.py:161-180 the OCC comparison ---- *)
\* NOTE: the code compares the RAW current_snapshot_id; None and -1 are different there but both
\* are 0 here (a fresh table has -1, a table whose last snapshot was deleted has None).
Validate(base, cur) ==
  IF cur.uuid # base.uuid THEN "uuid_mismatch"          \* :164-165 ValueError
  ELSE IF cur.cur # base.cur THEN "conflict"             \* :168-173 ConcurrentModificationException
  ELSE IF cur.lastUpd # base.lastUpd THEN "conflict"     \* :175-180
  ELSE "ok"

(* ---- metadata-only property commit (no library API; metadata_manager.commit(base, new)) ---- *)
SetRetentionProp(base, k) == [base EXCEPT !.retention = k]
SetMlogMaxProp(base, k)   == [base EXCEPT !.mlogMax = k]

(* ---- transaction.py:470-584 _commit_file_ops, steps 1-4 (manifests) ---- *)
\* baseManifests : sequence of [id, entries] = the manifests of the base's current snapshot, in
\*                 manifest-list order (empty when the base has no current snapshot, :491-495)
\* appends       : sequence of data files (order of the append_data / append_files calls)
\* deletes       : set of data files named by delete_files.  A named path p matches entry f iff
\*                 p = f.file_path or p = f.file_path.lstrip("/") (:543-547); both spellings of a
\*                 file are the same abstract value here.
\* freshIds      : sequence of unused manifest ids, consumed left to right
\* result        : [list |-> sequence of manifest ids of the new manifest list,
\*                  written |-> sequence of newly written manifests [id, entries]]
RECURSIVE FileOpsDeleteLoop(_, _, _, _, _)
FileOpsDeleteLoop(bm, k, deletes, freshIds, acc) ==
  IF k > Len(bm) THEN acc
  ELSE
  LET ents == bm[k].entries                                                \* :536
      surv == SelectSeq(ents, LAMBDA e : e.file \notin deletes)            \* :543-547
  IN IF Len(surv) = Len(ents)                                              \* :549-551 keep
     THEN FileOpsDeleteLoop(bm, k + 1, deletes, freshIds, [acc EXCEPT !.list = Append(@, bm[k].id)])
     ELSE IF Len(surv) > 0                                                 \* :552-564 rewrite
     THEN LET nid == freshIds[Len(acc.written) + 1]
              \* file_manager.py:208-226: carried-over files: status EXISTING, ORIGINAL snapshot id
              \* and sequence number
              nm  == [id |-> nid,
                      entries |-> [i \in 1..Len(surv) |-> [surv[i] EXCEPT !.status = "EXISTING"]]]
          IN FileOpsDeleteLoop(bm, k + 1, deletes, freshIds,
                               [list |-> Append(acc.list, nid), written |-> Append(acc.written, nm)])
     ELSE FileOpsDeleteLoop(bm, k + 1, deletes, freshIds, acc)             \* :565 drop

FileOps(baseManifests, appends, deletes, sid, seq, freshIds) ==
  LET afterDel == IF deletes # {}                                          \* :529
                  THEN FileOpsDeleteLoop(baseManifests, 1, deletes, freshIds, [list |-> <<>>, written |-> <<>>])
                  ELSE [list |-> [i \in 1..Len(baseManifests) |-> baseManifests[i].id],   \* :566-567
                        written |-> <<>>]
  IN IF appends # <<>>                                                     \* :570-579
     THEN LET nid == freshIds[Len(afterDel.written) + 1]
              \* file_manager.py:211-213: ADDED entries carry the committing snapshot id / seq
              nm  == [id |-> nid,
                      entries |-> [i \in 1..Len(appends) |->
                                     [file |-> appends[i], status |-> "ADDED", snap |-> sid, seq |-> seq]]]
          IN [list |-> Append(afterDel.list, nid), written |-> Append(afterDel.written, nm)]
     ELSE afterDel

\* transaction.py:413: file operations (=> a snapshot) iff something is appended or named for deletion
IsFileOp(appends, deletes) == appends # <<>> \/ deletes # {}

(* ---- snapshot_manager.py:208-220 get_snapshot_by_timestamp ---- *)
\* stable sort by timestamp, the LAST one with ts <= t wins; 0 = None
ByTimestamp(m, t) ==
  LET sorted == SortByTs(m.snaps)
      hits   == {i \in 1..Len(sorted) : sorted[i].ts <= t}
  IN IF hits = {} THEN NoSnap ELSE sorted[SetMaxInt(hits)].id

(* ---- metadata_manager.py:342-351 get_snapshot_by_id: first match or None ---- *)
ById(m, sid) == IF HasSnap(m.snaps, sid) THEN SnapById(m.snaps, sid).id ELSE NoSnap

(* ---- a fresh table (metadata_manager.py:67-116 initialize_table) ---- *)
InitMeta(uuid, now, schemaId) ==
  [uuid |-> uuid, lastUpd |-> now, lastSeq |-> 0, cur |-> NoSnap, snaps |-> <<>>, slog |-> <<>>,
   mlog |-> <<>>, retention |-> 0, mlogMax |-> 0, schemaId |-> schemaId]

(***************************************************************************)
(*                    PART 2 - REFERENCE SEMANTICS                         *)
(* ghost = [commits  : sequence of the snapshot records [id,parent,seq,ts, *)
(*                     list] EXACTLY as first committed, in commit order   *)
(*                     (never shrinks),                                    *)
(*          versions : sequence of the names of all metadata versions that *)
(*                     have been superseded by a later committed version]  *)
(***************************************************************************)
EmptyGhost == [commits |-> <<>>, versions |-> <<>>]
GhostCommit(ghost, snap)        == [ghost EXCEPT !.commits = Append(@, snap)]
GhostSupersede(ghost, prevName) == [ghost EXCEPT !.versions = Append(@, prevName)]

Committed(ghost, sid) == \E i \in 1..Len(ghost.commits) : ghost.commits[i].id = sid
\* position in commit order (1 = first committed)
CommitIdx(ghost, sid) == CHOOSE i \in 1..Len(ghost.commits) : ghost.commits[i].id = sid
OrigParent(ghost, sid) == IF Committed(ghost, sid) THEN ghost.commits[CommitIdx(ghost, sid)].parent ELSE NoSnap

\* the snapshots a was derived from: its parent at commit time, that one's parent at ITS commit time, ...
RECURSIVE AncWalk(_, _, _)
AncWalk(ghost, p, fuel) ==
  IF p = NoSnap \/ fuel = 0 THEN {} ELSE {p} \cup AncWalk(ghost, OrigParent(ghost, p), fuel - 1)
TrueAncestors(ghost, sid) == AncWalk(ghost, OrigParent(ghost, sid), Len(ghost.commits))
IsTrueAncestor(ghost, a, sid) == a \in TrueAncestors(ghost, sid)

\* most recently committed among a set of committed snapshot ids
LatestCommitted(ghost, ids) ==
  IF ids = {} THEN NoSnap
  ELSE CHOOSE s \in ids : \A o \in ids : CommitIdx(ghost, o) <= CommitIdx(ghost, s)

\* ---- C15: the state part ----
WfCurrent(m) ==        \* current is retained, or the table is empty
  \/ m.cur # NoSnap /\ m.cur \in SnapIds(m.snaps)
  \/ m.cur = NoSnap /\ m.snaps = <<>>
WfDistinct(m) ==       \* retained snapshot ids are distinct and were really committed
  \A i, j \in 1..Len(m.snaps) : i # j => m.snaps[i].id # m.snaps[j].id
WfCommitted(m, ghost) ==
  \A i \in 1..Len(m.snaps) : Committed(ghost, m.snaps[i].id)
WfParents(m, ghost) == \* every parent link names a retained true ancestor or nothing
  \A i \in 1..Len(m.snaps) :
     LET s == m.snaps[i] IN
     s.parent = NoSnap \/ (s.parent \in SnapIds(m.snaps) /\ IsTrueAncestor(ghost, s.parent, s.id))
WfSeq(m, ghost) ==     \* strictly increasing in commit order, bounded by lastSeq
  /\ \A i \in 1..Len(m.snaps) : m.snaps[i].seq <= m.lastSeq
  /\ \A i, j \in 1..Len(m.snaps) :
        CommitIdx(ghost, m.snaps[i].id) < CommitIdx(ghost, m.snaps[j].id) => m.snaps[i].seq < m.snaps[j].seq
WfSnapLog(m, ghost) == \* only retained snapshots, in commit order
  /\ \A i \in 1..Len(m.slog) : m.slog[i] \in SnapIds(m.snaps)
  /\ \A i, j \in 1..Len(m.slog) : i < j => CommitIdx(ghost, m.slog[i]) < CommitIdx(ghost, m.slog[j])
WfMetaLog(m, ghost) == \* names superseded versions, within the configured bound
  /\ \A i \in 1..Len(m.mlog) : m.mlog[i] \in SeqRange(ghost.versions)
  /\ (MlogBound(m) >= 1 => Len(m.mlog) <= MlogBound(m))

WellFormed(m, ghost) ==
  /\ WfCurrent(m)
  /\ WfDistinct(m)
  /\ WfCommitted(m, ghost)
  /\ WfParents(m, ghost)
  /\ WfSeq(m, ghost)
  /\ WfSnapLog(m, ghost)
  /\ WfMetaLog(m, ghost)

\* ---- C15: the step part (prev = the metadata this commit superseded) ----
WellFormedStep(prev, m) == m.lastSeq >= prev.lastSeq          \* last sequence number never decreases
\* an expiry (alone or folded into a snapshot commit) never removes the snapshot that is current
\* after the commit, and removes only snapshots older than the cutoff
ExpireCorrect(prev, m, cutoff) ==
  /\ m.cur \in SnapIds(m.snaps) \/ (m.cur = NoSnap /\ prev.cur = NoSnap)
  /\ \A i \in 1..Len(prev.snaps) :
        prev.snaps[i].ts >= cutoff => prev.snaps[i].id \in SnapIds(m.snaps)

\* ---- C15: manifests ----
EntriesOf(manifests) ==   \* manifests: sequence of [id, entries]
  UNION {SeqRange(manifests[i].entries) : i \in 1..Len(manifests)}
FilesOf(manifests) == {e.file : e \in EntriesOf(manifests)}
\* files carried through a rewrite keep their original adding snapshot and sequence number;
\* a delete removes exactly the named files; appended files are stamped with the committing snapshot
FileOpsCorrect(baseManifests, newManifests, appends, deletes, sid, seq) ==
  /\ FilesOf(newManifests) = (FilesOf(baseManifests) \ deletes) \cup SeqRange(appends)
  /\ \A e \in EntriesOf(newManifests) :
        IF e.file \in SeqRange(appends) /\ e.file \notin FilesOf(baseManifests)
        THEN e.snap = sid /\ e.seq = seq /\ e.status = "ADDED"
        ELSE \E b \in EntriesOf(baseManifests) : b.file = e.file /\ b.snap = e.snap /\ b.seq = e.seq

\* ---- C09 ----
\* "the most recently committed retained snapshot not newer than t"
RefByTimestamp(m, ghost, t) ==
  LatestCommitted(ghost, {m.snaps[i].id : i \in {j \in 1..Len(m.snaps) : m.snaps[j].ts <= t}})
\* deleting the current snapshot repoints the table to its most recently committed survivor
RefAfterDeleteCurrent(prev, ghost, sid) == LatestCommitted(ghost, SnapIds(prev.snaps) \ {sid})
\* a retained snapshot's record is the one that was committed (parent may have been repointed)
SnapshotUnchanged(m, ghost) ==
  \A i \in 1..Len(m.snaps) :
     LET s == m.snaps[i] IN
     Committed(ghost, s.id) =>
       LET g == ghost.commits[CommitIdx(ghost, s.id)] IN s.seq = g.seq /\ s.ts = g.ts /\ s.list = g.list

\* ---- nearest kept ancestor w.r.t. a parent function given as a snapshot sequence (for Repoint) ----
\* Iter(allSnaps, s, n) = the n-th parent of s following ParentOf; the reference says: the new parent
\* of a survivor is the first kept snapshot on its parent walk, or nothing if the walk ends
\* (root / dangling link) or runs into a cycle before reaching one.
RECURSIVE IterParent(_, _, _)
IterParent(allSnaps, p, n) == IF n = 0 \/ p = NoSnap THEN p ELSE IterParent(allSnaps, ParentOf(allSnaps, p), n - 1)
NearestKept(allSnaps, keptIds, firstParent) ==
  LET N    == Len(allSnaps) + 1
      hits == {n \in 0..N : IterParent(allSnaps, firstParent, n) \in keptIds}
  IN IF hits = {} THEN NoSnap ELSE IterParent(allSnaps, firstParent, SetMinInt(hits))
=============================================================================
