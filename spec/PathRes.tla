------------------------------ MODULE PathRes ------------------------------
(***************************************************************************)
(* L2 function-level specification for property C17 ("No operation         *)
(* escapes the table root").                                               *)
(*                                                                         *)
(*  REFERENCE SEMANTICS (independent of the library)                       *)
(*   - a filesystem is a function  Loc -> Node  (Loc = sequence of names,  *)
(*     <<>> = "/"; nodes: directory, regular file, symbolic link with a    *)
(*     target string)                                                      *)
(*   - KWalk : the kernel's path walk (POSIX path resolution: "." / empty  *)
(*     components, ".." taken AFTER symlinks are followed, relative and    *)
(*     absolute link targets, O_NOFOLLOW-style last component, ENOENT /    *)
(*     ENOTDIR / ELOOP)                                                    *)
(*   - Touched : which nodes a syscall sequence given the final path       *)
(*     string reads / writes / deletes / renames / lists                   *)
(*   - Confined, EscapeRejected : the two sentences of the property        *)
(*                                                                         *)
(*  TRANSCRIPTIONS (the code as it is)                                     *)
(*   - PyRealPath   : posixpath.realpath/_joinrealpath (CPython 3.12,      *)
(*                    strict=False), used by the library                   *)
(*   - ResolvePath  : storage_backend.py:179-212 LocalStorageBackend.      *)
(*                    _resolve_path (+ _real_base_path :167-177)           *)
(*   - ArrowPath    : data_operations.py:405-444 _get_arrow_path (local)   *)
(*   - ListFiles    : storage_backend.py:338-369 list_files (os.walk)      *)
(*   - RootWriteRefused : storage_backend.py:243-251 (write_file),         *)
(*                    data_operations.py:450-465,597,723 (_refuse_table_root)*)
(*   - GcGuard      : garbage_collector.py:237-245                         *)
(*                                                                         *)
(*  Path STRINGS are sequences of tokens: the separator "/" or a name      *)
(*  (a non-empty string without "/"; never two names in a row).  All the   *)
(*  string operations the code uses (startswith("/"), lstrip("/"),         *)
(*  split("/"), os.path.join, isabs, commonpath, relpath, normpath) are    *)
(*  exact on this representation; character-level startswith() (used by    *)
(*  the "containment by string prefix" variant) needs the character        *)
(*  prefix relation between names, given by NamePrefixPairs.               *)
(*                                                                         *)
(*  Variant record V (what the code does; defaults = the code as it is):   *)
(*    realpath  : TRUE  | FALSE = os.path.abspath in _resolve_path         *)
(*    contain   : "commonpath" | "startswith" | "none"                     *)
(*    arrowAbs  : FALSE | TRUE = true absolute paths returned unchanged    *)
(*    listRaw   : FALSE | TRUE = list_files relative to the raw base       *)
(*    follow    : FALSE | TRUE = os.walk(followlinks=True)                 *)
(*    rootGuard : TRUE  | FALSE = behaviour before repo commit 409b145:    *)
(*                a write whose path resolves to the root itself is NOT    *)
(*                refused and its temporary file lands in the root's       *)
(*                parent (finding C17-write-to-root, repaired)             *)
(***************************************************************************)
EXTENDS Integers, Sequences, FiniteSets, TLC

SEP == "/"
Fuel == 8          \* symlink budget of one walk (ELOOP); layouts have no loops, chains <= 3
WalkFuel == 6      \* recursion budget of os.walk in the followlinks variant

\* character-level "a is a proper prefix of b" between the names that occur
NamePrefixPairs == {<<"t", "t2">>, <<"ln_out", "ln_outf">>}
NamePrefix(a, b) == a = b \/ <<a, b>> \in NamePrefixPairs

(* ------------------------- strings (token sequences) ------------------------- *)
StartsWithSep(s) == Len(s) > 0 /\ s[1] = SEP
EndsWithSep(s)   == Len(s) > 0 /\ s[Len(s)] = SEP
IsAbs(s)         == StartsWithSep(s)                      \* posixpath.isabs

RECURSIVE LStripSep(_)
LStripSep(s) == IF StartsWithSep(s) THEN LStripSep(Tail(s)) ELSE s      \* str.lstrip("/")

\* posixpath.join(a, b)
Join2(a, b) == IF StartsWithSep(b) THEN b
               ELSE IF a = <<>> \/ EndsWithSep(a) THEN a \o b
               ELSE a \o <<SEP>> \o b

\* str.split("/") : sequence of components ("" for empty ones)
RECURSIVE SplitAcc(_, _, _)
SplitAcc(s, cur, acc) ==
  IF s = <<>> THEN Append(acc, cur)
  ELSE IF Head(s) = SEP THEN SplitAcc(Tail(s), "", Append(acc, cur))
  ELSE SplitAcc(Tail(s), Head(s), acc)
Split(s) == SplitAcc(s, "", <<>>)

AllButLast(s) == SubSeq(s, 1, Len(s) - 1)
LastOf(s) == s[Len(s)]
Parent(loc) == IF loc = <<>> THEN <<>> ELSE AllButLast(loc)

\* names joined with "/"   ("/".join(names))
JoinNames(names) == [i \in 1..(IF names = <<>> THEN 0 ELSE 2 * Len(names) - 1) |->
                       IF i % 2 = 1 THEN names[(i + 1) \div 2] ELSE SEP]
\* canonical string of a location: "/" + "/".join(loc)
LocStr(loc) == <<SEP>> \o JoinNames(loc)
\* location named by a NORMALISED absolute string
StrLoc(s) == SelectSeq(s, LAMBDA t : t # SEP)

IsPrefixSeq(a, b) == Len(a) <= Len(b) /\ SubSeq(b, 1, Len(a)) = a

\* posixpath.normpath / abspath for an absolute string with ONE leading slash: pure text
RECURSIVE NormAcc(_, _)
NormAcc(comps, acc) ==
  IF comps = <<>> THEN acc
  ELSE LET c == Head(comps) IN
       IF c = "" \/ c = "." THEN NormAcc(Tail(comps), acc)
       ELSE IF c = ".." THEN NormAcc(Tail(comps), IF acc = <<>> THEN acc ELSE AllButLast(acc))
       ELSE NormAcc(Tail(comps), Append(acc, c))
AbsPathLoc(s) == NormAcc(Split(s), <<>>)

\* os.path.dirname / basename (posixpath.split)
LastSepIdx(s) == IF \E i \in 1..Len(s) : s[i] = SEP
                 THEN CHOOSE i \in 1..Len(s) : s[i] = SEP /\ \A j \in (i+1)..Len(s) : s[j] # SEP
                 ELSE 0
RECURSIVE RStripSep(_)
RStripSep(s) == IF EndsWithSep(s) THEN RStripSep(AllButLast(s)) ELSE s
DirName(s) == LET i == LastSepIdx(s)  head == SubSeq(s, 1, i) IN
              IF head # <<>> /\ RStripSep(head) # <<>> THEN RStripSep(head) ELSE head
BaseName(s) == SubSeq(s, LastSepIdx(s) + 1, Len(s))      \* <<>> or <<name>>

(* ------------------------------ filesystem ------------------------------ *)
DirNode     == [k |-> "dir",  tgt |-> <<>>]
FileNode    == [k |-> "file", tgt |-> <<>>]
LinkNode(t) == [k |-> "link", tgt |-> t]

\* a filesystem from a set of <<loc, node>> pairs
FsOf(S) == [l \in {e[1] : e \in S} |-> (CHOOSE e \in S : e[1] = l)[2]]

Has(fs, loc)   == loc \in DOMAIN fs
IsDir(fs, loc) == Has(fs, loc) /\ fs[loc].k = "dir"
Children(fs, loc) == {l \in DOMAIN fs : Len(l) = Len(loc) + 1 /\ SubSeq(l, 1, Len(loc)) = loc}

(* ---------------- REFERENCE: the kernel's path walk ---------------- *)
\* cur: location reached so far; comps: components still to walk; follow: follow a symlink in
\* the LAST component (stat/open) or not (lstat/unlink/rename).
\* Result: st = "ok" (loc = node designated) | "noent" (loc = directory in which `name` is
\* missing; last = no further real component) | "notdir" | "loop".
AllTrivial(comps) == \A i \in 1..Len(comps) : comps[i] = ""
RECURSIVE KWalk(_, _, _, _, _)
KWalk(fs, cur, comps, follow, fuel) ==
  IF comps = <<>> THEN [st |-> "ok", loc |-> cur, name |-> "", rest |-> <<>>, last |-> TRUE]
  ELSE LET c == Head(comps)  r == Tail(comps) IN
    IF ~IsDir(fs, cur) THEN [st |-> "notdir", loc |-> cur, name |-> c, rest |-> r, last |-> FALSE]
    ELSE IF c = "" \/ c = "." THEN KWalk(fs, cur, r, follow, fuel)
    ELSE IF c = ".." THEN KWalk(fs, Parent(cur), r, follow, fuel)
    ELSE LET n == Append(cur, c) IN
      IF ~Has(fs, n) THEN [st |-> "noent", loc |-> cur, name |-> c, rest |-> r, last |-> AllTrivial(r)]
      ELSE IF fs[n].k = "link" /\ (follow \/ r # <<>>) THEN
             IF fuel = 0 THEN [st |-> "loop", loc |-> cur, name |-> c, rest |-> r, last |-> FALSE]
             ELSE LET t == fs[n].tgt IN
                  KWalk(fs, IF IsAbs(t) THEN <<>> ELSE cur, Split(t) \o r, follow, fuel - 1)
      ELSE KWalk(fs, n, r, follow, fuel)

KStr(fs, s, follow) == KWalk(fs, <<>>, Split(s), follow, Fuel)       \* walk an ABSOLUTE string
KExists(fs, s) == KStr(fs, s, TRUE).st = "ok"                        \* os.path.exists

\* where a creating call (makedirs + create) puts its object: missing tail created by name
KCreateLoc(fs, s) ==
  LET w == KStr(fs, s, TRUE) IN
  IF w.st = "ok" THEN [ok |-> TRUE, loc |-> w.loc]
  ELSE IF w.st = "noent" THEN [ok |-> TRUE, loc |-> NormAcc(w.rest, Append(w.loc, w.name))]
  ELSE [ok |-> FALSE, loc |-> w.loc]

(* ---------------- TRANSCRIPTION: posixpath.realpath (strict=False) ---------------- *)
\* posixpath.py:440-500 _joinrealpath(path, rest, strict=False, seen).  `path` is always an
\* absolute, already canonical prefix here (the library's base paths are absolute), so lstat(newpath)
\* is a lookup of exactly that location.  The `seen` cache only matters for symlink loops, which the
\* layouts do not contain (fuel stands in for it).
RECURSIVE PyJoinReal(_, _, _, _)
PyJoinReal(fs, path, rest, fuel) ==
  IF rest = <<>> THEN path
  ELSE LET name == Head(rest)  r == Tail(rest) IN
    IF name = "" \/ name = "." THEN PyJoinReal(fs, path, r, fuel)                  \* :456-458
    ELSE IF name = ".." THEN PyJoinReal(fs, Parent(path), r, fuel)                 \* :459-467 (textual pop)
    ELSE LET newpath == Append(path, name) IN                                      \* :468
      IF Has(fs, newpath) /\ fs[newpath].k = "link" /\ fuel > 0 THEN               \* :469-476 lstat / S_ISLNK
        LET t == fs[newpath].tgt                                                   \* :495 readlink
            p2 == PyJoinReal(fs, IF IsAbs(t) THEN <<>> ELSE path, Split(t), fuel - 1) IN   \* :450-452
        PyJoinReal(fs, p2, r, fuel)
      ELSE PyJoinReal(fs, newpath, r, fuel)                                        \* :477-479
\* realpath(filename) for an absolute filename; abspath() of the result is the identity
PyRealPath(fs, s) == LocStr(PyJoinReal(fs, <<>>, Split(s), Fuel))
PyAbsPath(s)      == LocStr(AbsPathLoc(s))

\* posixpath.commonpath([a, b]) for two absolute strings
Filt(comps) == SelectSeq(comps, LAMBDA c : c # "" /\ c # ".")
CommonLen(a, b) == LET m == IF Len(a) < Len(b) THEN Len(a) ELSE Len(b)
                       ok == {n \in 0..m : SubSeq(a, 1, n) = SubSeq(b, 1, n)} IN
                   CHOOSE n \in ok : \A k \in ok : k <= n
CommonPath(a, b) == LET ca == Filt(Split(a))  cb == Filt(Split(b)) IN
                    <<SEP>> \o JoinNames(SubSeq(ca, 1, CommonLen(ca, cb)))
\* character-level  full.startswith(base)
StrStartsWith(full, base) ==
  /\ Len(base) <= Len(full)
  /\ \A i \in 1..Len(base) :
       IF i < Len(base) \/ base[i] = SEP THEN full[i] = base[i]
       ELSE full[i] # SEP /\ NamePrefix(base[i], full[i])

(* ---------------- TRANSCRIPTION: LocalStorageBackend._resolve_path ---------------- *)
Default == [realpath |-> TRUE, contain |-> "commonpath", arrowAbs |-> FALSE, listRaw |-> FALSE, follow |-> FALSE, rootGuard |-> TRUE]

RealBase(fs, base) == PyRealPath(fs, base)                              \* :167-177 _real_base_path

ResolvePath(fs, base, p, V) ==
  LET joined == IF StartsWithSep(p) THEN Join2(base, LStripSep(p))      \* :187-189
                ELSE IF IsAbs(p) THEN Join2(base, LStripSep(p))         \* :190-193 (unreachable on POSIX)
                ELSE Join2(base, p)                                     \* :194-196
      full   == IF V.realpath THEN PyRealPath(fs, joined) ELSE PyAbsPath(joined)    \* :199
      rbase  == RealBase(fs, base)                                      \* :200
      inside == CASE V.contain = "commonpath" -> CommonPath(rbase, full) = rbase    \* :204-208
                  [] V.contain = "startswith" -> StrStartsWith(full, rbase)
                  [] OTHER -> TRUE
  IN [rej |-> ~inside, full |-> full]                                   \* :209-212

(* ---------------- TRANSCRIPTION: DataFileManager._get_arrow_path (local) ---------------- *)
ArrowPath(fs, base, p, V) ==
  LET rbase == RealBase(fs, base)                                       \* :420
      comps == Split(p)                                                 \* :421
      first == IF StartsWithSep(p) /\ Len(comps) > 1 THEN comps[2] ELSE ""          \* :422
  IN IF ~IsAbs(p) \/ first \in {"data", "metadata"}                     \* :424
     THEN ResolvePath(fs, base, p, V)                                   \* :428
     ELSE IF V.arrowAbs THEN [rej |-> FALSE, full |-> p]                \* pre-#47 behaviour (variant)
     ELSE LET resolved == PyRealPath(fs, p) IN                          \* :434
          [rej |-> CommonPath(rbase, resolved) # rbase, full |-> resolved]          \* :435-444

(* ---------------- TRANSCRIPTION: list_files (os.walk) ---------------- *)
\* os.walk(top): scandir(dir); entry.is_dir() follows symlinks -> a link to a directory goes to
\* `dirs` (not reported as a file); it is descended into only with followlinks.  Everything else
\* (regular files, links to files, dangling links) is reported in `files`.
LinkToDir(fs, n) == fs[n].k = "link" /\ LET w == KWalk(fs, <<>>, n, TRUE, Fuel) IN w.st = "ok" /\ IsDir(fs, w.loc)
IsListedFile(fs, n) == fs[n].k = "file" \/ (fs[n].k = "link" /\ ~LinkToDir(fs, n))

\* set of scanned directories: disp = the path os.walk builds textually, real = the directory read
RECURSIVE WalkFrom(_, _, _, _, _)
WalkFrom(fs, disp, real, V, fuel) ==
  {[disp |-> disp, real |-> real]} \cup
  UNION { IF fs[n].k = "dir" THEN WalkFrom(fs, Append(disp, LastOf(n)), n, V, fuel)
          ELSE IF V.follow /\ fuel > 0 /\ LinkToDir(fs, n)
               THEN WalkFrom(fs, Append(disp, LastOf(n)), KWalk(fs, <<>>, n, TRUE, Fuel).loc, V, fuel - 1)
          ELSE {} : n \in Children(fs, real) }

\* posixpath.relpath(path, start) on locations
RelPath(f, start) ==
  LET i == CommonLen(start, f)
      rel == [j \in 1..(Len(start) - i) |-> ".."] \o SubSeq(f, i + 1, Len(f)) IN
  IF rel = <<>> THEN <<".">> ELSE JoinNames(rel)

DotDotLead(s) == s = <<"..">> \/ (Len(s) >= 2 /\ s[1] = ".." /\ s[2] = SEP)     \* :363 and GC :241
GcGuard(s) == DotDotLead(s)

ListFiles(fs, base, prefix, V) ==
  LET r == ResolvePath(fs, base, prefix, V) IN                          \* :348
  IF r.rej THEN [rej |-> TRUE, out |-> {}, scanned |-> {}]
  ELSE LET w == KStr(fs, r.full, TRUE) IN
    IF w.st # "ok" \/ ~IsDir(fs, w.loc) THEN [rej |-> FALSE, out |-> {}, scanned |-> {}]      \* :349-350; walk of a non-directory yields nothing
    ELSE LET relbase == IF V.listRaw THEN AbsPathLoc(base) ELSE StrLoc(RealBase(fs, base))    \* :352
             dirs  == WalkFrom(fs, AbsPathLoc(r.full), w.loc, V, WalkFuel)                    \* :354
             files == UNION {{Append(d.disp, LastOf(n)) : n \in {m \in Children(fs, d.real) : IsListedFile(fs, m)}} : d \in dirs}
             rels  == {RelPath(f, relbase) : f \in files}                                     \* :358
         IN IF \E x \in rels : DotDotLead(x)                                                   \* :363-367
            THEN [rej |-> TRUE, out |-> {}, scanned |-> {d.real : d \in dirs}]
            ELSE [rej |-> FALSE, out |-> rels, scanned |-> {d.real : d \in dirs}]

(* ---------------- REFERENCE: what an operation touches, the property ---------------- *)
CanonRoot(fs, base) == KStr(fs, base, TRUE).loc          \* the canonical table root (kernel's view)
Inside(fs, base, loc) == IsPrefixSeq(CanonRoot(fs, base), loc)

\* nodes whose content is read / written / deleted / renamed / listed when the library hands
\* the string F to its syscalls.  cls: "read" (open rb) | "stat" | "write" (makedirs(dirname) +
\* temp file in dirname + os.replace onto F: storage_backend.py:243-287, data_operations.py:219-228,308) |
\* "delete" (exists + os.remove) | "mkdirs" | "lock" (makedirs(dirname) + open(O_CREAT|O_RDWR),
\* file_lock.py:81-108) | "list" (os.walk)
CreatedDirs(fs, s) == LET w == KStr(fs, s, TRUE) IN
                      IF w.st = "noent" THEN {Append(w.loc, w.name)} ELSE {}     \* topmost directory makedirs creates
Touched(fs, cls, F, V) ==
  LET w == KStr(fs, F, TRUE)
      d == KStr(fs, DirName(F), TRUE)
      dc == KCreateLoc(fs, DirName(F))
      b == BaseName(F)
  IN CASE cls = "read"   -> IF w.st = "ok" THEN {w.loc} ELSE {}
       [] cls = "stat"   -> {}
       [] cls = "write"  -> IF dc.ok THEN CreatedDirs(fs, DirName(F)) \cup {Append(dc.loc, ".tmp"), dc.loc \o b} ELSE {}
       [] cls = "delete" -> IF w.st = "ok" /\ d.st = "ok" THEN {d.loc \o b} ELSE {}
       [] cls = "mkdirs" -> CreatedDirs(fs, F)
       [] cls = "lock"   -> IF dc.ok THEN CreatedDirs(fs, DirName(F)) \cup
                                          (IF w.st = "ok" THEN {w.loc}
                                           ELSE IF w.st = "noent" /\ w.last THEN {Append(w.loc, w.name)} ELSE {})
                            ELSE {}
       [] cls = "list"   -> IF w.st = "ok" /\ IsDir(fs, w.loc)
                            THEN {x.real : x \in WalkFrom(fs, AbsPathLoc(F), w.loc, V, WalkFuel)} ELSE {}

TouchClasses == {"read", "stat", "write", "delete", "mkdirs", "lock", "list"}

\* first sentence of C17, for one call through resolver result r
\* V.rootGuard: a write whose path resolves to the table root itself is refused (storage_backend.py:244-251,
\* data_operations.py:450-465); without the guard (the code before commit 409b145) its temporary file is
\* created in the root's PARENT - finding C17-write-to-root
ConfinedFor(fs, base, r, cls, V) ==
  LET rej == r.rej \/ (V.rootGuard /\ cls = "write" /\ r.full = RealBase(fs, base)) IN
  ~rej => \A l \in Touched(fs, cls, r.full, V) : Inside(fs, base, l)
\* the (repaired) defect: a write-class call on a path that resolves to the root itself
IsRootWrite(fs, base, r, cls) == cls = "write" /\ ~r.rej /\ r.full = RealBase(fs, base)

\* what the path string designates for the kernel: table-relative reading (leading slashes are
\* the Iceberg spelling of "relative to the table") and, for absolute strings, the absolute reading
RelReading(fs, base, p) == KWalk(fs, <<>>, Split(base) \o Split(LStripSep(p)), TRUE, Fuel)
AbsReading(fs, p)       == KStr(fs, p, TRUE)
\* the reading designates an existing object outside the root, or a creatable name in a directory outside
EscOutcome(fs, base, w) == (w.st = "ok" \/ (w.st = "noent" /\ w.last)) /\ ~Inside(fs, base, w.loc)
LandsInside(fs, base, w) == w.st = "ok" /\ Inside(fs, base, w.loc)

EscapingStorage(fs, base, p) == EscOutcome(fs, base, RelReading(fs, base, p))
\* for the arrow entry a true absolute path may also be honoured: escaping = no reading lands inside
EscapingArrow(fs, base, p) == /\ EscOutcome(fs, base, RelReading(fs, base, p))
                              /\ (IsAbs(p) => ~LandsInside(fs, base, AbsReading(fs, p)))

\* second sentence of C17 (r = ResolvePath(...), a = ArrowPath(...))
EscapeRejectedStorage(fs, base, p, r) == EscapingStorage(fs, base, p) => r.rej
EscapeRejectedArrow(fs, base, p, a)   == EscapingArrow(fs, base, p)   => a.rej

\* an accepted call operates on the object the string designates, not on another existing one
NotMisresolvedStorage(fs, base, p, r) ==
  LET w == RelReading(fs, base, p)  k == KStr(fs, r.full, TRUE) IN
  (~r.rej /\ w.st = "ok") => (k.st = "ok" /\ k.loc = w.loc)
NotMisresolvedArrow(fs, base, p, a) ==
  LET k == KStr(fs, a.full, TRUE)
      readings == {RelReading(fs, base, p)} \cup (IF IsAbs(p) THEN {AbsReading(fs, p)} ELSE {})
      okLocs == {w.loc : w \in {x \in readings : x.st = "ok"}} IN
  (~a.rej /\ okLocs # {}) => (k.st = "ok" /\ k.loc \in okLocs)

\* listings (l = ListFiles(...)): only directories inside the root are read; every reported path is
\* relative to the canonical root, i.e. walking it from the root (without following a final link)
\* gives an entry inside the root, and never trips GC's ".." guard; a non-escaping existing prefix is
\* served (the #45 mechanism)
ListingConfined(fs, base, l) == \A d \in l.scanned : Inside(fs, base, d)
ListingRoundTrip(fs, base, l) ==
  \A x \in l.out : LET w == KWalk(fs, CanonRoot(fs, base), Split(x), FALSE, Fuel) IN
                   w.st = "ok" /\ Inside(fs, base, w.loc) /\ ~GcGuard(x)
ListServes(fs, base, p, l) ==
  LET w == RelReading(fs, base, p) IN
  (w.st = "ok" /\ Inside(fs, base, w.loc)) => ~l.rej
=============================================================================
