-------------------------- MODULE MC_HistoryCases --------------------------
(***************************************************************************)
(* Histories as CASES (like MC_Prune): one TLC state per history; the      *)
(* state after every step is a pure function of the history (RunTrace).    *)
(* Every invariant of History.tla is evaluated after every step, and the   *)
(* expected observable table (metadata with manifests expanded, result of  *)
(* the step, files present, time-travel answers by the REFERENCE) is       *)
(* exported for the replay into the real library.                          *)
(*                                                                         *)
(* Cases = all histories of length ExLen over the alphabet of Mode         *)
(*         (enumerated by TLC; prefixes are covered step by step)          *)
(*       + the histories listed in the file IOEnv.VERIF_IN (a seeded       *)
(*         sample of longer ones / regression histories), one JSON object  *)
(*         {"ops": [...]} per line.                                        *)
(***************************************************************************)
EXTENDS History, Json, IOUtils, SequencesExt, FiniteSetsExt

CONSTANTS Mode, ExLen

VARIABLE c

Alphabet ==
  CASE Mode = "c15"    -> AlphaC15
    [] Mode = "c15neg" -> AlphaC15 \cup {Tick(-1)}
    [] Mode = "c09"    -> AlphaC09
    [] Mode = "gc"     -> AlphaGC
    [] Mode = "all"    -> AlphaC15 \cup AlphaC09 \cup AlphaGC
    [] Mode = "given"  -> {}

Given == ndJsonDeserialize(IOEnv.VERIF_IN)
Exhaustive == IF ExLen = 0 \/ Alphabet = {} THEN {} ELSE [1..ExLen -> Alphabet]
Cases == Exhaustive \cup {Given[i].ops : i \in 1..Len(Given)}

RECURSIVE RunTrace(_)
RunTrace(h) ==
  IF h = <<>> THEN <<>>
  ELSE LET t == RunTrace(Front(h))
           s == IF t = <<>> THEN InitState ELSE t[Len(t)]
       IN Append(t, Step(s, h[Len(h)]))

Init == c \in Cases
Next == UNCHANGED c
Spec == Init /\ [][Next]_c

Every(P(_)) == LET t == RunTrace(c) IN \A k \in 1..Len(t) : P(t[k])

WellFormedInv         == Every(LAMBDA s : InvWellFormed(s) /\ InvMetaLogExists(s))
StepInv               == Every(InvStep)
RetainedImmutable     == Every(InvRetainedImmutable)
ByTimestampMeansMostRecent == Every(InvByTimestamp)
DeleteCurrentRepoints == Every(InvDeleteCurrentRepoints)
GCKeepsReachable      == Every(InvGCKeepsReachable)
GCRemovesOldOrphans   == Every(InvGCRemovesOldOrphans)

(* ---------------- export ---------------- *)
SnapView(s, sn) == [id |-> sn.id, parent |-> sn.parent, seq |-> sn.seq, ts |-> sn.ts, list |-> sn.list,
                    mans |-> Expand(s, sn.list)]
ProbeSeq(s) == SetToSortSeq(ProbeTimes(s), <)
View(s) ==
  [res |-> s.res, clock |-> s.clock, metaName |-> s.metaName,
   meta |-> [lastUpd |-> s.meta.lastUpd, lastSeq |-> s.meta.lastSeq, cur |-> s.meta.cur,
             snaps |-> [i \in 1..Len(s.meta.snaps) |-> SnapView(s, s.meta.snaps[i])],
             slog |-> s.meta.slog, mlog |-> s.meta.mlog,
             retention |-> s.meta.retention, mlogMax |-> s.meta.mlogMax],
   disk |-> [d |-> Cardinality({x \in s.disk : x.k = "d"}), m |-> Cardinality({x \in s.disk : x.k = "m"}),
             l |-> Cardinality({x \in s.disk : x.k = "l"}), markers |-> Cardinality(s.markers)],
   open |-> Len(s.open),
   gc |-> [ran |-> s.gc.ran, aborted |-> s.gc.aborted,
           d |-> Cardinality({k \in s.gc.deleted : k[1] = "d"}),
           m |-> Cardinality({k \in s.gc.deleted : k[1] = "m"}),
           l |-> Cardinality({k \in s.gc.deleted : k[1] = "l"})],
   \* time travel: the REFERENCE answer (most recently committed retained snapshot with ts <= t)
   \* and the transcription's answer, for every probe time
   probes |-> [i \in 1..Len(ProbeSeq(s)) |->
                 [t |-> ProbeSeq(s)[i], ref |-> RefByTimestamp(s.meta, s.ghost, ProbeSeq(s)[i]),
                  model |-> ByTimestamp(s.meta, ProbeSeq(s)[i])]],
   \* C09: the expected successor of the current snapshot if it were deleted now
   survivor |-> IF s.meta.cur = NoSnap THEN NoSnap ELSE RefAfterDeleteCurrent(s.meta, s.ghost, s.meta.cur)]

Out(h) == LET t == RunTrace(h) IN [ops |-> h, steps |-> [k \in 1..Len(h) |-> View(t[k])]]

Export == TLCGet("distinct") >= 0 /\ ndJsonSerialize(IOEnv.VERIF_OUT, SetToSeq({Out(h) : h \in Cases}))
=============================================================================
