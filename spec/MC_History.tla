----------------------------- MODULE MC_History -----------------------------
(***************************************************************************)
(* Exhaustive exploration of all histories up to MaxLen over an alphabet   *)
(* chosen by Mode; every invariant of History.tla is checked in every      *)
(* state (= after every step of every history).                            *)
(***************************************************************************)
EXTENDS History

CONSTANTS Mode,      \* "c15" | "c09" | "gc" | "all" | "c15neg"
          MaxLen

VARIABLE st

Alphabet ==
  CASE Mode = "c15"    -> AlphaC15
    [] Mode = "c15neg" -> AlphaC15 \cup {Tick(-1)}       \* clock regression: out-of-commit-order timestamps
    [] Mode = "c09"    -> AlphaC09
    [] Mode = "gc"     -> AlphaGC
    [] Mode = "all"    -> AlphaC15 \cup AlphaC09 \cup AlphaGC

Init == st = InitState
Next == st.len < MaxLen /\ \E op \in Alphabet : st' = Step(st, op)
Spec == Init /\ [][Next]_st

\* histories that differ only in what the LAST step did but reach the same table are still distinct
\* states (lastOp, prev, tx, gc are part of st), so every step invariant is evaluated on every step.

WellFormedInv        == InvWellFormed(st) /\ InvMetaLogExists(st)
StepInv              == InvStep(st)
RetainedImmutable    == InvRetainedImmutable(st)
ByTimestampMeansMostRecent == InvByTimestamp(st)
DeleteCurrentRepoints == InvDeleteCurrentRepoints(st)
GCKeepsReachable     == InvGCKeepsReachable(st)
GCRemovesOldOrphans  == InvGCRemovesOldOrphans(st)
=============================================================================
