----------------------------- MODULE MC_S3Lock -----------------------------
(***************************************************************************)
(* Model-checking wrapper for S3Lock.tla (C19).                             *)
(*   as is      : EtagPerWrite = FALSE, AtomicRelease = FALSE  -> TLC must  *)
(*                find S10a (TakeoverOnlyAfterLapse) and S10b               *)
(*                (ReleaseDeletesOnlyOwn); SupersededObserves,              *)
(*                TimeoutHonoured, AtMostOneBeliever hold.                  *)
(*   repaired   : both TRUE -> LockSafety holds.                            *)
(* Bounds: clock 0..MaxNow, MaxRounds acquire() calls per client,           *)
(* MaxWrites writes per client (only the repaired body has a counter).      *)
(*                                                                         *)
(* `hist` records who did what (the schedule): it is excluded from the      *)
(* state identity by VIEW View, so the state graph is that of S3Lock!Spec;  *)
(* the last state of a counterexample / of a simulated behaviour carries    *)
(* the schedule that harness/lock_harness.py replays on the real provider.  *)
(***************************************************************************)
EXTENDS S3Lock, Sequences

CONSTANT MaxWrites,
         ExportAt      \* simulation: print hist when a behaviour reaches this length (0 = never)

VARIABLE hist

L(who, what) == hist' = Append(hist, <<who, what>>)

LNext ==
  \/ Tick /\ L("env", "Tick")
  \/ \E c \in Clients :
       \/ StartAcquire(c) /\ L(c, "StartAcquire")
       \/ TryCreate(c) /\ L(c, "TryCreate")
       \/ HeadReq(c) /\ L(c, "Head")
       \/ AgeCheck(c) /\ L(c, "AgeCheck")
       \/ TakeoverPut(c) /\ L(c, "TakeoverPut")
       \/ DeadlineCheck(c) /\ L(c, "DeadlineCheck")
       \/ Sleep(c) /\ L(c, "Sleep")
       \/ IsHeldStart(c) /\ L(c, "IsHeldStart")
       \/ IsHeldGet(c) /\ L(c, "IsHeldGet")
       \/ IsHeldSleep(c) /\ L(c, "IsHeldSleep")
       \/ ReleaseStart(c) /\ L(c, "ReleaseStart")
       \/ ReleaseGet(c) /\ L(c, "ReleaseGet")
       \/ ReleaseDelete(c) /\ L(c, "ReleaseDelete")
       \/ Renew(c) /\ L(c, "Renew")

LSpec == Init /\ hist = <<>> /\ [][LNext]_<<vars, hist>>
View == vars

\* clients are interchangeable (model values in the cfg)
Sym == Permutations(Clients)

Bounded == \A c \in Clients : seq[c] <= MaxWrites

\* simulation export: one line per behaviour of length ExportAt
Export == ExportAt = 0 \/ (TLCGet("level") < ExportAt /\ ENABLED LNext) \/ PrintT(<<"HIST", hist>>)

\* anti-vacuity: states that must be reachable (checked as invariants that must FAIL)
NeverTakenOver == ~(\E c \in Clients : pc[c] = "held" /\ flag[c] /\ Owner(obj) \notin {c, "none"})
NeverTimedOut  == ~(\E c \in Clients : pc[c] = "idle" /\ rounds[c] > 0 /\ ~flag[c] /\ Owner(obj) \notin {c, "none"} /\ now - start[c] >= Timeout)
=============================================================================
