------------------------------ MODULE Trace_L1 ------------------------------
(***************************************************************************)
(* Trace validation of the real library against DataShard.tla.             *)
(*                                                                         *)
(* TRACE_FILE holds a JSON object [traces: <<t1, t2, ...>>], every trace    *)
(* [init: <projected storage>, events: <<e1, ...>>] recorded while the real *)
(* library ran under the deterministic scheduler (harness/l1.py).  All      *)
(* traces of one file share the scenario constants (actors, programs,       *)
(* backend, lock kind, clock mode), which the generated wrapper module      *)
(* supplies.  `tid` selects a trace in the initial state; `l` is the next   *)
(* event.  Each disjunct is  IsEv(kind) /\ <bind logged fields> /\ Action.  *)
(* Every invariant of DataShard.tla is evaluated after every event.         *)
(* Acceptance: POSTCONDITION AllAccepted (every trace consumed entirely).   *)
(***************************************************************************)
EXTENDS DataShard, Json, IOUtils, TLCExt, SequencesExt

CONSTANT TableDamaged   \* TRUE: the scenario starts from a deliberately damaged table (a reachable file is
                        \* missing or unparseable): the invariants that say "everything reachable exists" are
                        \* not evaluated; what the collector does about it is.

VARIABLES tid, l

TraceData == JsonDeserialize(IOEnv.TRACE_FILE)
Traces == TraceData.traces
NT == Len(Traces)

Evs == Traces[tid].events
ev == Evs[l]

tvars == <<vars, tid, l>>

\* ToSet comes from SequencesExt
\* JSON cannot carry functions with non-string keys: they come as sequences of <<key, value>> pairs
FnOfPairs(ps) == [k \in {ps[i][1] : i \in 1..Len(ps)} |-> (CHOOSE i \in 1..Len(ps) : ps[i][1] = k) ]
FnVal(ps) == LET idx == FnOfPairs(ps) IN [k \in DOMAIN idx |-> ps[idx[k]][2]]
EntrySet(es) == {[file |-> e.file, status |-> e.status, snap |-> e.snap, seq |-> e.seq] : e \in ToSet(es)}
Name(n) == [v |-> n.v, u |-> n.u]
Snap(s) == [id |-> s.id, parent |-> s.parent, seq |-> s.seq, ts |-> s.ts, list |-> s.list]
Body(b) == [uuid |-> b.uuid, cur |-> b.cur, lastUpd |-> b.lastUpd, lastSeq |-> b.lastSeq,
            snaps |-> [i \in 1..Len(b.snaps) |-> Snap(b.snaps[i])],
            slog |-> [i \in 1..Len(b.slog) |-> b.slog[i]],
            mlog |-> [i \in 1..Len(b.mlog) |-> Name(b.mlog[i])]]

MetaIdx(o, n) == CHOOSE i \in 1..Len(o.metas) : Name(o.metas[i][1]) = n
ObsMetas(o)    == [n \in {Name(o.metas[i][1]) : i \in 1..Len(o.metas)} |-> Body(o.metas[MetaIdx(o, n)][2])]
ObsMetaTime(o) == [n \in {Name(o.metas[i][1]) : i \in 1..Len(o.metas)} |-> o.metas[MetaIdx(o, n)][3]]
ObsLists(o)    == [k \in {o.lists[i][1] : i \in 1..Len(o.lists)} |->
                     LET i == CHOOSE j \in 1..Len(o.lists) : o.lists[j][1] = k IN
                     [x \in 1..Len(o.lists[i][2]) |-> o.lists[i][2][x]]]
ObsMans(o)     == [k \in {o.mans[i][1] : i \in 1..Len(o.mans)} |->
                     LET i == CHOOSE j \in 1..Len(o.mans) : o.mans[j][1] = k IN EntrySet(o.mans[i][2])]
ObsPresent(o)  == ToSet(o.present)
ObsHint(o)     == [cls |-> o.hint.cls, name |-> Name(o.hint.name)]

(***************************************************************************)
(* Initial state: storage as projected from the real table by the          *)
(* independent reader; everything else as in DataShard!Init.               *)
(***************************************************************************)
InitObs == Traces[tid].init

\* files of the current snapshot of the initial table, its snapshot ids, its timestamps
\* (the initial table's versions are linear: the current one is the highest, whatever the pointer file holds)
InitCurName == IF DOMAIN ObsMetas(InitObs) = {} THEN NoName
               ELSE CHOOSE n \in DOMAIN ObsMetas(InitObs) : \A k \in DOMAIN ObsMetas(InitObs) : k.v <= n.v
InitCurBody == IF InitCurName = NoName THEN NoBody ELSE ObsMetas(InitObs)[InitCurName]
InitFilesOf(lid) ==
  IF lid \notin DOMAIN ObsLists(InitObs) THEN {}
  ELSE UNION {IF ObsLists(InitObs)[lid][j] \in DOMAIN ObsMans(InitObs)
              THEN {e.file : e \in ObsMans(InitObs)[ObsLists(InitObs)[lid][j]]} ELSE {} : j \in 1..Len(ObsLists(InitObs)[lid])}

TraceInit ==
  /\ tid \in 1..NT
  /\ l = 1
  /\ hint = ObsHint(InitObs)
  /\ metas = ObsMetas(InitObs)
  /\ metaTime = ObsMetaTime(InitObs)
  /\ lists = ObsLists(InitObs)
  /\ mans = ObsMans(InitObs)
  /\ present = ObsPresent(InitObs)
  /\ ftime = [f \in ObsPresent(InitObs) |-> InitObs.ftime[CHOOSE i \in 1..Len(InitObs.ftime) : InitObs.ftime[i][1] = f][2]]
  /\ markers = {}
  /\ mtimeM = <<>>
  /\ clock = InitObs.clock
  /\ lockHolder = "none"
  /\ rlock = [h \in {Handle[a] : a \in Actors} |-> "none"]
  /\ pc = [a \in Actors |-> "idle"]
  /\ opi = [a \in Actors |-> 1]
  /\ att = [a \in Actors |-> 0]
  /\ loc = [a \in Actors |-> EmptyLoc]
  /\ faults = 99
  /\ lease = [t |-> 0, lost |-> {}]
  /\ commitLog = <<>>
  /\ LET b == InitCurBody IN
     /\ serial = [files |-> IF b.cur = 0 THEN {} ELSE InitFilesOf(SnapOf(b, b.cur).list),
                  snaps |-> [j \in 1..Len(b.snaps) |-> b.snaps[j].id], cur |-> b.cur]
     /\ tsOf = [s \in {b.snaps[j].id : j \in 1..Len(b.snaps)} |->
                  [ts |-> SnapOf(b, s).ts, files |-> InitFilesOf(SnapOf(b, s).list)]]
  /\ sidOfOp = <<>>
  /\ outcomes = [a \in Actors |-> <<>>]
  /\ reads = <<>>
  /\ deleted = {}
  /\ initBody = InitCurBody
  /\ joined = {}
  /\ scanning = {}

(***************************************************************************)
(* Event binding.                                                          *)
(***************************************************************************)
InCreate(a) == pc[a] \in {"k_open", "k_tlock", "k_dlock", "k_check", "k_stamp", "k_wmeta", "k_whint", "k_unlock", "k_tunlock", "k_done", "k_failed"}

IsEv(k) == l <= Len(Evs) /\ ev.k = k /\ l' = l + 1 /\ UNCHANGED tid
A == ev.a

Stutter == UNCHANGED vars

\* a resolution that the model does not act on (schema lookups, queries): still must return what
\* the specification's storage state allows
NoopResolve(a, name) == HandleFree(a) /\ Resolves(a, name) /\ scanning' = scanning \ {a}
                        /\ UNCHANGED <<storageVars, clock, lockHolder, rlock, actorVars, faults, lease, ghostVars>>

\* the pointer was read and found unusable; the directory scan (the Resolve event) comes later
TrHintUnusable == IsEv("HintUnusable") /\ SeeHintUnusable(A)

TrBegin == IsEv("Begin") /\ IF Role[A] = "committer" THEN Begin(A) ELSE Stutter

TrResolve ==
  /\ IsEv("Resolve")
  /\ ev.ok
  /\ LET n == Name(ev.name) IN
     \* A resolution the model is waiting for at this point is that step; one it is NOT waiting for (an additional look at
     \* the pointer somewhere else in the same function) is accepted as long as it returns what the storage state allows -
     \* the steps the model requires must still all arrive, so a missing or misplaced one is rejected later.
     CASE ev.why = "base" /\ pc[A] = "c_base"         -> ReadBase(A, n)
       [] ev.why = "validate" /\ pc[A] = "c_validate" -> Validate(A, n)
       [] ev.why = "version" /\ pc[A] = "c_readver"   -> ReadVersion(A, n)
       [] ev.why = "ds" /\ pc[A] = "ds_resolve"       -> DsResolve(A, n)
       [] ev.why = "read" /\ Role[A] = "reader" /\ pc[A] = "idle" -> RBegin(A, n)
       [] ev.why = "gc" /\ Role[A] = "collector" /\ pc[A] \in {"g_begin", "idle"} -> GBegin(A, n)
       [] ev.why = "open" /\ pc[A] = "k_open"         -> KOpen(A, n)
       [] ev.why = "init" /\ pc[A] = "k_check"        -> KCheck(A, n)
       [] OTHER                                       -> NoopResolve(A, n)

\* CAS backends: the pointer is read again, with its ETag, right before the new version is written
\* (a pointer that is missing or does not parse yields no version: the code then resolves by scanning,
\*  which arrives as a separate Resolve event)
\* on the in-memory S3 the event carries the requests the call issued: the model's step is atomic, so it must be ONE request
\* (a request that fails may be retried by the storage layer: several requests of the same kind, all failing alike)
OneRequest(op) == "reqs" \in DOMAIN ev => IF ev.ok THEN ev.reqs = <<op>> ELSE \A i \in 1..Len(ev.reqs) : ev.reqs[i] = op

TrReadHintEtag ==
  /\ IsEv("ReadHintEtag")
  /\ OneRequest("get_object")
  /\ IF ~ev.ok THEN hint.cls = "missing" /\ ReadEtag(A)
     ELSE IF Name(ev.name) = NoName THEN hint.cls = "garbage" /\ ReadEtag(A)
     ELSE IF Name(ev.name) \notin DOMAIN metas THEN hint = [cls |-> "name", name |-> Name(ev.name)] /\ ReadEtag(A)   \* dangling: a Resolve follows
     ELSE ReadVersion(A, Name(ev.name))

TrWriteMarker ==
  /\ IsEv("WriteMarker")
  /\ ev.ok
  /\ IF ev.tcls = "data" THEN WriteMarkerD(A, ev.f) ELSE WriteMarkerM(A, ev.f)

TrWriteData == IsEv("WriteData") /\ ev.ok /\ WriteData(A, ev.f, ev.mt)
TrCommitStart == IsEv("CommitStart") /\ CommitStart(A)
TrFinish == IsEv("Finish") /\ Finish(A)

\* an injected fault: the failing branch the model takes must be the one the code takes (the
\* following events are checked against it).  Failures of best-effort steps are swallowed.
TrFault ==
  /\ IsEv("Fault")
  /\ IF Role[A] = "collector"
     THEN CASE ev.cls \in {"list", "man"} /\ ev.op = "exists" -> (GFaultReach(A) \/ Stutter)   \* the probe for a path's reading tolerates errors
            [] ev.cls \in {"list", "man"} /\ ev.op \notin {"get_modified_time", "delete_file"} -> GFaultReach(A)
            [] ev.cls \in {"hint", "meta"} -> GFaultEarly(A)
            [] ev.op = "list_files" /\ ev.path = "metadata/inflight" -> GFaultMarkList(A)
            [] ev.op = "list_files" -> GFaultList(A)
            [] ev.cls = "marker" /\ ev.op = "read_file" -> GMarkUnreadable(A, ev.f)
            [] ev.cls = "marker" /\ ev.op \in {"get_modified_time", "delete_file"} ->
                  (IF ev.f \in loc[A].mseen THEN GMarkUndeletable(A, ev.f) ELSE Stutter)
            [] OTHER -> GSkip(A, ev.f)
     \* a failing write outside the modelled namespace: the caller may propagate it (the model's Fault) or swallow it
     ELSE IF ev.cls \in {"other", "dir"} /\ ev.when # "async" /\ Role[A] = "committer" THEN (Fault(A, ev.when) \/ Stutter)
     ELSE IF Role[A] = "reader" THEN RFault(A)
     ELSE IF InCreate(A) THEN KFault(A)
     ELSE IF pc[A] = "c_wmeta" /\ ev.when = "before" /\ ev.op = "exists" /\ ev.cls = "meta" THEN FaultInVersionProbe(A)
     ELSE IF ev.when = "after" /\ ev.cls = "meta" THEN ev.op = "write_file" /\ AfterMetaWriteFail(A)
     ELSE IF ev.when = "after" THEN ev.cls = "hint" /\ ev.op \in {"write_file", "write_file_cas"} /\ AmbiguousAfterFlip(A)
     ELSE IF pc[A] \in {"rollback", "c_cleanup"} /\ ev.when # "async"
     THEN IF ev.cls = "marker" THEN SkipMarker(A, ev.f) ELSE SkipRollbackData(A, ev.f)
     ELSE Fault(A, ev.when)

\* existence probes: a positive answer is a stutter that must agree with the model's storage;
\* during validate_data_files it is the CheckData step; a negative answer takes the failing branch.
TrExists ==
  /\ IsEv("Exists")
  /\ ev.ok
  /\ (ev.f \in present) = ev.res
  /\ IF pc[A] = "c_checkdata" /\ loc[A].chk < Len(AppendFiles(A)) /\ ev.f = AppendFiles(A)[loc[A].chk + 1]
     THEN CheckData(A)
     ELSE IF pc[A] = "tx_check" /\ IsPre(A) /\ Len(loc[A].files) < Len(AppendFiles(A)) /\ ev.f = NextAppend(A)
     THEN QueuePrebuilt(A, ev.f)
     ELSE IF ev.res THEN Stutter
     ELSE CASE pc[A] = "c_readlist" -> ReadBaseList(A)
            [] pc[A] = "c_readman"  -> ReadManifest(A)
            [] pc[A] = "r_list"     -> RReadList(A)
            [] pc[A] = "r_man"      -> RReadManifest(A)
            [] OTHER                -> Stutter

\* a reachable list / manifest exists but cannot be read (unparseable, transient): the collector aborts
TrReadFailed == IsEv("Read") /\ ~ev.ok /\ Role[A] = "collector" /\ GFaultReach(A)

TrRead ==
  /\ IsEv("Read")
  /\ ev.ok
  /\ ev.f \in present
  /\ CASE pc[A] = "c_readlist" /\ ev.cls = "list" -> ReadBaseList(A) /\ ev.f = SnapOf(loc[A].base, loc[A].base.cur).list
       [] pc[A] = "c_readman" /\ ev.cls = "man"   -> ReadManifest(A) /\ ev.f = Head(loc[A].todo)
       [] pc[A] = "r_list" /\ ev.cls = "list"     -> RReadList(A) /\ ev.f = SnapOf(loc[A].body, loc[A].body.cur).list
       [] pc[A] = "r_man" /\ ev.cls = "man"       -> RReadManifest(A) /\ ev.f = Head(loc[A].todo)
       [] pc[A] = "r_data" /\ ev.cls = "data"     -> RReadData(A, ev.f)
       [] OTHER -> Stutter

TrWriteMan ==
  /\ IsEv("WriteMan")
  /\ ev.ok
  /\ IF pc[A] = "c_rew" THEN RewriteManifest(A, ev.f, ev.mt)
     ELSE WriteManifest(A, ev.f, IF Len(ev.entries) = 0 THEN loc[A].sid ELSE ev.entries[1].snap, ev.mt)
  /\ mans'[ev.f] = EntrySet(ev.entries)            \* what was written is what the model computes

TrWriteList ==
  /\ IsEv("WriteList")
  /\ ev.ok
  /\ WriteList(A, ev.f, ev.sid, ev.mt)
  /\ lists'[ev.f] = [i \in 1..Len(ev.mans) |-> ev.mans[i]]

TrNow ==
  /\ IsEv("Now")
  /\ CASE ev.why = "ts"  -> StampSnapshot(A, ev.val)
       [] ev.why = "upd" -> StampUpdate(A, ev.val)
       [] ev.why = "upd0" -> KStamp(A, ev.val)
       [] ev.why = "gcm" -> GStampM(A, ev.val)
       [] ev.why = "gcc" -> GStamp(A, ev.val)
       [] OTHER -> Stutter

TrTLock   == IsEv("TLock") /\ IF InCreate(A) THEN KTLock(A) ELSE TLock(A)
TrTUnlock == IsEv("TUnlock") /\ IF InCreate(A) THEN KTUnlock(A) ELSE IF pc[A] = "c_dlock" THEN LockTimeout(A) ELSE TUnlock(A)
TrLockTry == IsEv("LockTry") /\ IF ev.ok THEN (IF InCreate(A) THEN KDLock(A) ELSE DLock(A)) ELSE ((Backend = "local" => lockHolder \notin {"none", A}) /\ Stutter)     \* (S3: an attempt is several requests; a failed one changes nothing)
TrDUnlock == IsEv("DUnlock") /\ (IF InCreate(A) THEN KDUnlock(A) ELSE DUnlock(A))
             /\ (("wiped" \in DOMAIN ev /\ ev.wiped) <=> (lockHolder \notin {A, "none"} /\ lockHolder' = "none"))

TrWriteMeta ==
  /\ IsEv("WriteMeta")
  /\ ev.ok
  /\ IF InCreate(A) THEN KWriteMeta(A, Name(ev.name), ev.body.uuid) ELSE WriteMeta(A, Name(ev.name))
  /\ metas'[Name(ev.name)] = Body(ev.body)         \* the metadata the code wrote = the model's draft

TrFence == IsEv("Fence") /\ Fence(A) /\ (ev.ok <=> pc'[A] = "c_flip")

TrFlipHint ==
  /\ IsEv("FlipHint")
  /\ Name(ev.name) = MyMetaName(A)
  /\ IF InCreate(A)
     THEN KWriteHint(A) /\ (ev.ok <=> hint' = [cls |-> "name", name |-> MyMetaName(A)])
     ELSE /\ FlipHint(A)
          /\ ev.cas => OneRequest("put_object")
          /\ ev.cas => Name(ev.ifmatch) = loc[A].etagName       \* the conditional PUT is keyed to the read the model recorded
          /\ ev.ok <=> (hint' = [cls |-> "name", name |-> MyMetaName(A)] /\ loc'[A].after \in {"c_finish", "c_cleanup"})

\* a write outside the modelled namespace (not pointer, metadata, manifest, list, marker or data file): no effect on the model
TrWriteOther == IsEv("WriteOther") /\ ev.cls \in {"other", "dir"} /\ Stutter

TrBackoff == IsEv("Backoff") /\ Backoff(A)
\* (loc.target = 0: the metadata write itself failed, the handler's removal attempt finds nothing)
TrDiscardMeta == IsEv("DiscardMeta") /\ (Name(ev.name) = MyMetaName(A) \/ loc[A].target = 0) /\ (IF ev.ok THEN DiscardMeta(A) ELSE DiscardMetaFails(A))
TrCrash == IsEv("Crash") /\ Crash(ev.who)
TrHeartbeat == IsEv("Heartbeat") /\ IF ev.ok THEN (IF lease.t = clock THEN lockHolder = ev.who /\ Stutter ELSE Heartbeat(ev.who))
                                               ELSE (lockHolder # ev.who /\ Stutter)

\* collector: listings must show exactly what the model's storage holds
TrList ==
  /\ IsEv("List")
  /\ ev.ok
  /\ IF ev.dir = "metadata/inflight" THEN GLoadMarkers(A) /\ ToSet(ev.res) = markers
     ELSE IF ev.esc THEN GListEscaping(A)
     ELSE GList(A) /\ ToSet(ev.res) \subseteq loc'[A].cand /\ (loc'[A].cand \ ToSet(ev.res)) \subseteq loc[A].cand
                   /\ \A f \in ToSet(ev.res) : IsDataFile(f) <=> ev.dir = "data"
TrStat == (IsEv("Stat") \/ IsEv("StatMarker") \/ IsEv("ReadMarker")) /\ Stutter

TrDeleteMarker ==
  /\ IsEv("DeleteMarker")
  /\ ev.ok
  /\ IF Role[A] = "collector" THEN GSweepMarker(A, ev.f)
     ELSE IF pc[A] = "c_cleanup" THEN DeleteMarker(A, ev.f) ELSE RollbackDeleteMarker(A, ev.f)

TrDeleteFile == IsEv("DeleteFile") /\ ev.ok /\ IF Role[A] = "collector" THEN (IF ev.f \in present THEN GDelete(A, ev.f) ELSE GDeleteGone(A, ev.f))
                                                 ELSE RollbackDeleteData(A, ev.f)

TrRet ==
  /\ IsEv("Ret")
  /\ IF Role[A] = "collector" THEN GReturn(A) /\ (ev.res \in {"aborted", "error"} <=> (pc[A] = "g_abort" \/ loc[A].esc))
     ELSE IF Role[A] = "reader"
     THEN /\ RReturn(A)
          /\ ev.res = "ok" <=> loc[A].err = "none"
          /\ ev.res = "ok" => IF WantsData(A) THEN ToSet(ev.files) = loc[A].got     \* rows returned = files the model read
                                               ELSE ev.count = Cardinality(loc[A].rfiles)
     ELSE IF pc[A] = "k_failed" THEN KReturnErr(A) /\ ev.res = "error"
     ELSE IF InCreate(A) THEN KReturn(A) /\ ev.res = "ok" /\ ev.uuid = ResolvedBody.uuid
     ELSE IF ev.res = "ok" THEN ReturnOk(A)
     ELSE IF ev.res = "false" THEN Stutter      \* delete_snapshot of an absent snapshot: DsResolve already returned
     ELSE (IF pc[A] = "rollback" THEN ReturnErrLeaving(A) ELSE ReturnErr(A)) /\ ev.res = loc[A].err

TrDamage == IsEv("Damage") /\ DamageHint(ev.cls, Name(ev.name)) /\ UNCHANGED <<>>
TrTick == IsEv("Tick") /\ clock' = ev.val /\ ev.val >= clock
          /\ UNCHANGED <<storageVars, lockHolder, rlock, actorVars, faults, lease, ghostVars, scanning>>

\* the independent reader's projection of the real storage must equal the model's storage
TrObserve ==
  /\ IsEv("Observe")
  /\ hint = ObsHint(ev.obs)
  /\ metas = ObsMetas(ev.obs)
  /\ {f \in present : TRUE} = ObsPresent(ev.obs)
  /\ [k \in DOMAIN lists \cap present |-> lists[k]] = ObsLists(ev.obs)
  /\ [k \in DOMAIN mans \cap present |-> mans[k]] = ObsMans(ev.obs)
  /\ markers = ToSet(ev.obs.markers)
  /\ Stutter

TraceNext ==
  \/ TrCommitStart \/ TrFinish \/ TrFault \/ TrReadHintEtag
  \/ TrBegin \/ TrResolve \/ TrHintUnusable \/ TrWriteOther \/ TrWriteMarker \/ TrWriteData \/ TrExists \/ TrRead \/ TrWriteMan \/ TrWriteList
  \/ TrNow \/ TrTLock \/ TrTUnlock \/ TrLockTry \/ TrDUnlock \/ TrWriteMeta \/ TrFence \/ TrFlipHint
  \/ TrDiscardMeta \/ TrCrash \/ TrDamage \/ TrReadFailed \/ TrBackoff \/ TrHeartbeat \/ TrList \/ TrStat \/ TrDeleteMarker \/ TrDeleteFile \/ TrRet \/ TrTick \/ TrObserve

TraceSpec == TraceInit /\ [][TraceNext]_tvars

(***************************************************************************)
(* Verdict bookkeeping (-workers 1).  Register 2 = furthest event reached   *)
(* per trace, register 3 = first violated invariant per trace (position and *)
(* name).  The invariants are evaluated here, in every state of every       *)
(* trace, instead of as TLC INVARIANTs, so that one violating trace does    *)
(* not hide the verdicts of the others; a trace is not explored past a      *)
(* violating state.                                                         *)
(***************************************************************************)
InvTable == << <<"TypeOK", TypeOK>>, <<"Serializable", TableDamaged \/ Serializable>>, <<"LinearChain", LinearChain>>,
               <<"AckedOnce", AckedOnce>>, <<"NoDoubleCommit", NoDoubleCommit>>,
               <<"ReachablePresent", TableDamaged \/ ReachablePresent>>, <<"FlipReplacesValidated", FlipReplacesValidated>>, <<"LostLockNeverAcks", LostLockNeverAcks>>, <<"SingleInit", SingleInit>>, <<"NeverReinitialised", NeverReinitialised>>,
               <<"ResolveLatestCommitted", TableDamaged \/ ResolveLatestCommitted>>,
               <<"NoLiveDelete", NoLiveDelete>>, <<"NoDeleteOnAmbiguous", NoDeleteOnAmbiguous>>,
               <<"OnlyOrphansDeleted", OnlyOrphansDeleted>>, <<"AbortDeletesNothing", AbortDeletesNothing>>, <<"InflightPresent", InflightPresent>>, <<"ReadIsSnapshot", TableDamaged \/ ReadIsSnapshot>>, <<"ReadsMonotone", TableDamaged \/ ReadsMonotone>> >>
ViolatedNow == {i \in 1..Len(InvTable) : ~InvTable[i][2]}

ASSUME TLCSet(2, [t \in 1..NT |-> 0]) /\ TLCSet(3, [t \in 1..NT |-> <<0, "">>])

Progress ==
  /\ TLCSet(2, [TLCGet(2) EXCEPT ![tid] = IF l > @ THEN l ELSE @])
  /\ IF ViolatedNow # {} /\ TLCGet(3)[tid][1] = 0
     THEN TLCSet(3, [TLCGet(3) EXCEPT ![tid] = <<l, InvTable[CHOOSE i \in ViolatedNow : TRUE][1]>>])
     ELSE TRUE
  /\ ViolatedNow = {}

Verdicts ==
  /\ PrintT(<<"REACHED", TLCGet(2)>>)
  /\ PrintT(<<"VIOLATED", TLCGet(3)>>)
=============================================================================
