------------------------------- MODULE Filter -------------------------------
(***************************************************************************)
(* L2 function-level specification of DataShard's filter semantics and     *)
(* file pruning (properties C12, C13).                                     *)
(*                                                                         *)
(*  - Sat3 / RowSat : the REFERENCE semantics (SQL three-valued logic;     *)
(*    IEEE semantics for NaN, which is what the scan engine implements     *)
(*    and what "the same answer with and without pruning" is measured      *)
(*    against).  Independent of the code.                                  *)
(*  - Bounds        : per-column [min,max] as computed at write time        *)
(*    (data_operations.py:593-653: pyarrow min/max skip NULL and NaN;      *)
(*    all-NULL => no bound; all-NaN => the bound is NaN).                  *)
(*  - MayMatch      : line-by-line transcription of                        *)
(*    filters.py:243-327 _file_may_match.                                  *)
(*  - PruneSound    : the C13 theorem, checked by TLC on every case.       *)
(*                                                                         *)
(* Abstract values: ordered points are the EVEN numbers 0,2,4,6; literals  *)
(* range over -1..7 so that a literal can fall strictly between, below or  *)
(* above the points.  NULL and NaN are the out-of-band integers below      *)
(* (TLC cannot compare integers with strings).                             *)
(***************************************************************************)
EXTENDS Integers, Sequences, FiniteSets, TLC

NULL == 100
NAN  == 200

Points   == {0, 2, 4, 6}
Literals == -1..7

CmpOps  == {"==", "!=", "<", "<=", ">", ">="}
SetOps  == {"in", "not_in"}
NullOps == {"is_null", "is_not_null"}

IsNum(v) == v # NULL /\ v # NAN

(* ---------- reference semantics: "T", "F" or "U" (unknown) ---------- *)
Cmp(op, v, l) ==
  CASE op = "==" -> v = l
    [] op = "!=" -> v # l
    [] op = "<"  -> v < l
    [] op = "<=" -> v <= l
    [] op = ">"  -> v > l
    [] op = ">=" -> v >= l

\* lit is a number for CmpOps, a set of numbers (possibly containing NULL) for SetOps,
\* ignored for NullOps.
Sat3(v, op, lit) ==
  IF op \in NullOps THEN
      IF op = "is_null" THEN (IF v = NULL THEN "T" ELSE "F")
                        ELSE (IF v = NULL THEN "F" ELSE "T")
  ELSE IF v = NULL THEN "U"
  ELSE IF op \in CmpOps THEN
      IF v = NAN \/ lit = NAN THEN (IF op = "!=" THEN "T" ELSE "F")     \* IEEE: every comparison with NaN (stored or literal) is false, != is true
      ELSE IF Cmp(op, v, lit) THEN "T" ELSE "F"
  ELSE \* set operators: NULL members of the value set match nothing
      LET s == lit \ {NULL} IN
      \* (set membership as the engine evaluates it, pc.is_in: a NaN member of the value set matches NaN rows)
      IF op = "in" THEN (IF v \in s THEN "T" ELSE "F")
                   ELSE (IF v \in s THEN "F" ELSE "T")

\* An expression is [col, op, lit]; a row is a function col -> value.
RowSat(row, exprs) == \A i \in 1..Len(exprs) : Sat3(row[exprs[i].col], exprs[i].op, exprs[i].lit) = "T"

(* ---------- bounds as written (min/max skipping NULL and NaN) ---------- *)
SetMin(S) == CHOOSE x \in S : \A y \in S : x <= y
SetMax(S) == CHOOSE x \in S : \A y \in S : x >= y

NoBound == [has |-> FALSE, lo |-> 0, hi |-> 0]

\* vals: the set of values of one column in one file
Bounds(vals) ==
  LET nums == {v \in vals : IsNum(v)} IN
  IF nums # {} THEN [has |-> TRUE, lo |-> SetMin(nums), hi |-> SetMax(nums)]
  ELSE IF NAN \in vals THEN [has |-> TRUE, lo |-> NAN, hi |-> NAN]
  ELSE NoBound

(* ---------- transcription of _file_may_match for ONE expression ---------- *)
\* Python comparisons with a NaN bound are all False; comparisons with None raise TypeError,
\* which the code catches and treats as "cannot prune".
PyLt(a, b) == IF a = NAN \/ b = NAN THEN FALSE ELSE a < b
PyLe(a, b) == IF a = NAN \/ b = NAN THEN FALSE ELSE a <= b
PyEq(a, b) == IF a = NAN \/ b = NAN THEN FALSE ELSE a = b

\* NeFloatGuard models the repaired arms (fixes for the NaN findings): when TRUE, the != arm does not prune a column
\* whose bounds are floats, and the in arm does not prune when the value set contains NaN - NaN rows are invisible
\* to min/max.
MayMatchOne(op, lit, b, isFloat, NeFloatGuard) ==
  IF ~b.has THEN TRUE
  ELSE
  CASE op = "=="  -> ~(PyLt(lit, b.lo) \/ PyLt(b.hi, lit))
    [] op = "!="  -> IF NeFloatGuard /\ isFloat THEN TRUE
                     ELSE ~(PyEq(b.lo, b.hi) /\ PyEq(b.hi, lit))
    [] op = ">"   -> ~PyLe(b.hi, lit)
    [] op = ">="  -> ~PyLt(b.hi, lit)
    [] op = "<"   -> ~PyLe(lit, b.lo)      \* file_min >= value
    [] op = "<="  -> ~PyLt(lit, b.lo)      \* file_min > value
    [] op = "in"  -> IF lit = {} THEN TRUE
                     ELSE IF NULL \in lit THEN TRUE          \* TypeError -> cannot prune
                     ELSE IF NeFloatGuard /\ NAN \in lit THEN TRUE    \* repaired: NaN rows are invisible to min/max
                     ELSE \E v \in lit : PyLe(b.lo, v) /\ PyLe(v, b.hi)
    [] OTHER      -> TRUE                   \* not_in, is_null, is_not_null: never pruned

\* A file is a sequence of rows; bounds are kept per column under that column's field id.
ColVals(file, c) == {file[i][c] : i \in 1..Len(file)}

MayMatch(file, exprs, floatCols, guard) ==
  \A i \in 1..Len(exprs) :
     MayMatchOne(exprs[i].op, exprs[i].lit, Bounds(ColVals(file, exprs[i].col)),
                 exprs[i].col \in floatCols, guard)

FileHasMatch(file, exprs) == \E i \in 1..Len(file) : RowSat(file[i], exprs)

\* C13: a file is skipped only when no row in it can satisfy the predicate.
PruneSoundAt(file, exprs, floatCols, guard) ==
  FileHasMatch(file, exprs) => MayMatch(file, exprs, floatCols, guard)

(* ---------- selection (C12): which rows a scan must return ---------- *)
\* files: sequence of files; result = sequence of <<fileIndex,rowIndex>> of satisfying rows
Select(files, exprs) ==
  {<<f, r>> \in (1..Len(files)) \X (1..3) : r <= Len(files[f]) /\ RowSat(files[f][r], exprs)}

\* The same selection when files are first pruned by MayMatch (what the code does).
SelectPruned(files, exprs, floatCols, guard) ==
  {<<f, r>> \in Select(files, exprs) : MayMatch(files[f], exprs, floatCols, guard)}

=============================================================================
