"""Concretisation of the abstract value domain of Filter.tla / SchemaAccept.tla (DESIGN App. C).

Abstract literals are the integers -1..7 (points 0,2,4,6 are the values stored in files; odd
numbers fall strictly between / outside them), NULL = 100, NaN = 200.  For every supported
column type we give nine concrete values in strictly increasing order, chosen at the type's
boundaries, so that an abstract case maps to a concrete table + filter with the same order
relations.
"""
from __future__ import annotations

import struct
from datetime import date, datetime, time
from typing import Any, Dict, List, Optional

NULL = 100
NAN = 200


def f32(x: float) -> float:
    return struct.unpack("f", struct.pack("f", x))[0]


TYPE_VALUES: Dict[str, List[Any]] = {
    # index 0 <-> abstract -1, index 8 <-> abstract 7
    "long": [-(2 ** 63), -(2 ** 53) - 1, -1, 0, 1, 2 ** 53, 2 ** 53 + 1, 2 ** 63 - 2, 2 ** 63 - 1],
    "int": [-(2 ** 31), -65537, -1, 0, 1, 7, 65536, 2 ** 31 - 2, 2 ** 31 - 1],
    "double": [float("-inf"), -1.5e308, -0.5, 0.0, 5e-324, 0.1, 2.0 ** 53 + 2.0, 1.5e308, float("inf")],
    "float": [float("-inf"), f32(-3.0e38), f32(-0.5), 0.0, f32(1e-45), f32(0.1), f32(16777216.0), f32(3.0e38), float("inf")],
    "string": ["", " ", "10", "9", "A", "a", "é", "中", "\U0001F600"],
    "date": [date(1, 1, 1), date(1582, 10, 4), date(1969, 12, 31), date(1970, 1, 1), date(1970, 1, 2),
             date(2000, 2, 29), date(2038, 1, 19), date(9999, 12, 30), date(9999, 12, 31)],
    "timestamp": [datetime(1, 1, 1), datetime(1677, 9, 21, 0, 12, 43, 145225), datetime(1969, 12, 31, 23, 59, 59, 999999),
                  datetime(1970, 1, 1), datetime(1970, 1, 1, 0, 0, 0, 1), datetime(2000, 2, 29, 12), datetime(2038, 1, 19, 3, 14, 8),
                  datetime(9999, 12, 31, 23, 59, 59, 999998), datetime(9999, 12, 31, 23, 59, 59, 999999)],
    "time": [time(0, 0, 0), time(0, 0, 0, 1), time(0, 0, 1), time(1, 0, 0), time(11, 59, 59, 999999), time(12, 0, 0),
             time(12, 0, 0, 1), time(23, 59, 59, 999998), time(23, 59, 59, 999999)],
    # boolean has two points only: abstract 0 -> False, 2 -> True (other literals are not concretisable)
    "boolean": [None, False, None, True, None, None, None, None, None],
}

# the decimal a user would write for the stored float32 value at the same index: as a double it is a DIFFERENT
# number than the stored one (0.1 < f32(0.1)); literals of this form are what users pass to filters on float columns
FLOAT_DECIMALS: List[float] = [float("-inf"), -3.0e38, -0.5, 0.0, 1e-45, 0.1, 16777216.0, 3.0e38, float("inf")]

FLOAT_TYPES = ("double", "float")
ALL_TYPES = list(TYPE_VALUES)

# pseudo-types: further concretisations of a schema type (not part of ALL_TYPES; users opt in)
_P16 = "s3://bucket/ev/p"          # 16 characters shared by all values: the order is decided beyond any 16-character prefix
SCHEMA_TYPE = {"longstring": "string"}
TYPE_VALUES["longstring"] = [_P16, _P16 + " ", _P16 + "10", _P16 + "9", _P16 + "A", _P16 + "a", _P16 + "\u00e9", _P16 + "\u4e2d", _P16 + "\U0001F600"]
# ... and a second family sharing a 300-character prefix: a cap at any usual width (16/32/64/128/256) cuts the upper bound below real values
_P300 = "datashard-verif-" * 19
SCHEMA_TYPE["verylongstring"] = "string"
TYPE_VALUES["verylongstring"] = [_P300[:300] + x[len(_P16):] for x in TYPE_VALUES["longstring"]]


def conc(t: str, a: int) -> Any:
    """Concrete value of abstract value `a` for column type `t` (None for NULL)."""
    if a == NULL:
        return None
    if a == NAN:
        if t not in FLOAT_TYPES:
            raise KeyError("NaN only exists in float columns")
        return float("nan")
    v = TYPE_VALUES[t][a + 1]
    if v is None and t == "boolean":
        raise KeyError("not concretisable for boolean")
    return v


def concretisable(t: str, values: List[int]) -> bool:
    for a in values:
        if a == NULL:
            continue
        if a == NAN:
            if t not in FLOAT_TYPES:
                return False
            continue
        if not (-1 <= a <= 7):
            return False
        if t == "boolean" and a not in (0, 2):
            return False
    return True


def same(a: Any, b: Any) -> bool:
    """Equality that treats NaN as equal to NaN and distinguishes bool from int."""
    if isinstance(a, float) and isinstance(b, float) and a != a and b != b:
        return True
    if type(a) is not type(b):
        return False
    return a == b


def row_key(row: Dict[str, Any]) -> str:
    def k(v: Any) -> str:
        if isinstance(v, float) and v != v:
            return "NaN"
        return f"{type(v).__name__}:{v!r}"

    return "|".join(f"{c}={k(row[c])}" for c in sorted(row))
