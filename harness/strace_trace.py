"""L0 traces of the real library for Trace_FS.tla.

Two sources produce the same *records* (one dict per successful system call, absolute paths):

* `run_strace()` + `parse_strace()`: an UNPATCHED child interpreter running real DataShard
  operations under `strace -f -y` (C16).  Nothing in the library or in `os` is wrapped there.
* the step log written by harness/crash_child.py (C03), which already is a list of records.

`build_trace()` turns records into the uniform event records FSDurable!Apply consumes: paths are
made relative to the table root, classified (hint / meta / list / manifest / data / marker / temp /
lock), and every write of pointer content gets the reachable set of the version it names, computed by
the INDEPENDENT READER (harness/project.py) from the directory as it is after the run.  That is
sound because every file other than the pointer is write-once (unique random names, never rewritten),
and the traced phases that compute reachability contain no deletion of lists, manifests or data
files (garbage collection is traced in a separate phase whose initial state is the projection of the
directory before it).
"""
from __future__ import annotations

import json
import os
import re
import subprocess
from typing import Any, Callable, Dict, Iterable, List, Optional, Tuple

from . import project
from .common import MachineryError

HINT = project.HINT
SYSCALLS = ("openat,open,creat,write,writev,pwrite64,pwritev,pwritev2,fsync,fdatasync,sync_file_range,rename,renameat,renameat2,"
            "unlink,unlinkat,rmdir,close,flock,mkdir,mkdirat,ftruncate,truncate,dup,dup2,dup3,link,linkat,symlink,symlinkat")

# ------------------------------------------------------------------------------------------------
# workloads run under strace (plain use of the public API; nothing is patched)
# ------------------------------------------------------------------------------------------------
_PRELUDE = r'''
import os, sys, time, threading, fcntl
root = sys.argv[1]; nrows = int(sys.argv[2]); extra = int(sys.argv[3])
def mark(kind, label, commit=0):
    os.write(2, ("MARK %s %s %d\n" % (kind, label, commit)).encode())
from datashard import create_table, load_table, Schema
sch = Schema(schema_id=1, fields=[{"id": 1, "name": "k", "type": "long", "required": True},
                                  {"id": 2, "name": "v", "type": "string", "required": False}])
def rows(a, n):
    return [{"k": a * 100000 + i, "v": "r%d" % (a * 100000 + i)} for i in range(n)]
def tick():
    time.sleep(0.003)
'''

WORKLOAD_A = _PRELUDE + r'''
mark("begin", "create"); t = create_table(root, sch); mark("ack", "create", 1); tick()
mark("begin", "append"); t.append_records(rows(1, nrows)); mark("ack", "append", 1); tick()
mark("begin", "multi")
tx = t.new_transaction().begin()
for j in range(2 + extra):
    tx.append_data(rows(2 + j, nrows))
tx.commit(); mark("ack", "multi", 1); tick()
for j in range(extra):
    mark("begin", "append"); t.append_records(rows(20 + j, nrows * (j + 2))); mark("ack", "append", 1); tick()
files = [df.file_path for df in t._get_all_data_files()]
mark("begin", "delete")
tx = t.new_transaction().begin(); tx.delete_files([files[2]]); tx.commit(); mark("ack", "delete", 1); tick()
snaps = t.snapshots()
mark("begin", "expire")
tx = t.new_transaction().begin(); tx.expire_snapshots(older_than_ms=snaps[1]["timestamp_ms"]); tx.commit()
mark("ack", "expire", 1); tick()
snaps = t.snapshots()
mark("begin", "deletesnap"); t.snapshot_manager.delete_snapshot(snaps[0]["snapshot_id"]); mark("ack", "deletesnap", 1); tick()
# optimistic-concurrency retry: two committers prepare their commits while this thread holds the
# table's flock; when it is released one wins and the other must retry on the new base.
mark("begin", "occ")
for rnd in range(1 + extra):
    mdir = os.path.join(root, "metadata", "manifests")
    before = len([f for f in os.listdir(mdir) if f.startswith("manifest_list_")])
    fd = os.open(os.path.join(root, ".locks", "metadata.lock"), os.O_RDWR | os.O_CREAT)
    fcntl.flock(fd, fcntl.LOCK_EX)
    ta, tb = load_table(root), load_table(root)
    errs = []
    def w(tbl, a):
        try:
            tbl.append_records(rows(a, 2))
        except BaseException as e:
            errs.append(repr(e))
    A = threading.Thread(target=w, args=(ta, 70 + 2 * rnd)); B = threading.Thread(target=w, args=(tb, 71 + 2 * rnd))
    A.start(); B.start()
    deadline = time.time() + 20
    while time.time() < deadline:
        if len([f for f in os.listdir(mdir) if f.startswith("manifest_list_")]) >= before + 2:
            break
        time.sleep(0.01)
    time.sleep(0.08)
    fcntl.flock(fd, fcntl.LOCK_UN); os.close(fd)
    A.join(); B.join()
    if errs:
        os.write(2, ("WORKLOAD-ERROR %s\n" % errs).encode()); sys.exit(3)
mark("ack", "occ", 1)
'''

WORKLOAD_B = _PRELUDE + r'''
t = load_table(root)
mark("begin", "gc"); stats = t.garbage_collect(grace_period_ms=0); mark("ack", "gc", 0)
os.write(2, ("GCSTATS %d %d\n" % (stats["data_files"], stats["manifest_files"])).encode())
tick()
mark("begin", "append"); t.append_records(rows(9, 2)); mark("ack", "append", 1)
'''


def run_strace(script: str, args: List[str], src: Optional[str] = None, timeout_s: int = 120) -> Tuple[List[str], str]:
    """Run `script` in a fresh interpreter under strace; returns (strace lines, child's stderr)."""
    src = src or os.environ.get("DATASHARD_SRC", "/repo/src")
    out = os.path.join(os.path.dirname(args[0].rstrip("/")), "strace-%d.txt" % os.getpid())
    env = dict(os.environ)
    env["PYTHONPATH"] = src
    env["PYTHONDONTWRITEBYTECODE"] = "1"
    cmd = ["strace", "-f", "-y", "-s", "256", "-o", out, "-e", "trace=" + SYSCALLS,
           "/venv/bin/python", "-c", script] + args
    p = subprocess.run(cmd, env=env, stdout=subprocess.PIPE, stderr=subprocess.PIPE, timeout=timeout_s, text=True)
    if p.returncode != 0:
        raise MachineryError(f"traced workload failed (exit {p.returncode}): {p.stderr[-1500:]}")
    with open(out, errors="replace") as f:
        lines = f.read().splitlines()
    os.unlink(out)
    return lines, p.stderr


# ------------------------------------------------------------------------------------------------
# strace output -> records
# ------------------------------------------------------------------------------------------------
_LINE = re.compile(r"^(\d+)\s+(.*)$")
_CALL = re.compile(r"^(\w+)\((.*)\)\s+=\s+(-?\d+|\?)(<[^>]*>)?(.*)$")
_RESUMED = re.compile(r"^<\.\.\. (\w+) resumed>(.*)$")
_FDDEC = re.compile(r"^(-?\d+|AT_FDCWD)<(.*)>$")


def _split_args(s: str) -> List[str]:
    """Split a syscall argument list at top-level commas (quotes, <...>, [...] and {...} nest)."""
    out: List[str] = []
    buf: List[str] = []
    depth = 0
    i = 0
    instr = False
    while i < len(s):
        c = s[i]
        if instr:
            buf.append(c)
            if c == "\\" and i + 1 < len(s):
                buf.append(s[i + 1])
                i += 1
            elif c == '"':
                instr = False
        elif c == '"':
            instr = True
            buf.append(c)
        elif c in "<[{(":
            depth += 1
            buf.append(c)
        elif c in ">]})":
            depth -= 1
            buf.append(c)
        elif c == "," and depth == 0:
            out.append("".join(buf).strip())
            buf = []
        else:
            buf.append(c)
        i += 1
    if buf:
        out.append("".join(buf).strip())
    return out


def _unquote(a: str) -> str:
    """strace string literal -> text (octal and C escapes decoded; a trailing ... is dropped)."""
    a = a.strip()
    if a.endswith("..."):
        a = a[:-3]
    if not (a.startswith('"') and a.endswith('"')):
        return a
    body = a[1:-1]
    out = bytearray()
    i = 0
    while i < len(body):
        c = body[i]
        if c == "\\" and i + 1 < len(body):
            d = body[i + 1]
            if d in "01234567":
                j = i + 1
                while j < len(body) and j < i + 4 and body[j] in "01234567":
                    j += 1
                out.append(int(body[i + 1:j], 8) & 0xFF)
                i = j
                continue
            out += {"n": b"\n", "t": b"\t", "r": b"\r", "\\": b"\\", '"': b'"', "v": b"\v", "f": b"\f"}.get(d, d.encode())
            i += 2
            continue
        out += c.encode("utf-8", "replace")
        i += 1
    return out.decode("utf-8", "replace")


def _fd(a: str) -> Tuple[Optional[int], str]:
    m = _FDDEC.match(a.strip())
    if not m:
        try:
            return int(a), ""
        except ValueError:
            return None, ""
    p = m.group(2)
    if p.endswith(" (deleted)"):
        p = p[: -len(" (deleted)")]
    return (None if m.group(1) == "AT_FDCWD" else int(m.group(1))), p


def _join(dirpath: str, p: str) -> str:
    return os.path.normpath(p if os.path.isabs(p) else os.path.join(dirpath, p))


def parse_strace(lines: Iterable[str]) -> List[Dict[str, Any]]:
    """Successful system calls, in completion order, as records with absolute paths."""
    pending: Dict[str, str] = {}
    recs: List[Dict[str, Any]] = []
    for raw in lines:
        m = _LINE.match(raw)
        if not m:
            continue
        pid, rest = m.group(1), m.group(2)
        if rest.startswith(("+++", "---")):
            continue
        if rest.endswith("<unfinished ...>"):
            pending[pid] = rest[: -len("<unfinished ...>")].rstrip()
            continue
        r = _RESUMED.match(rest)
        if r:
            if pid not in pending:
                raise MachineryError(f"strace: resumed without unfinished: {raw[:200]}")
            rest = pending.pop(pid) + r.group(2)
        c = _CALL.match(rest)
        if not c:
            if "exited with" in rest or "killed by" in rest:
                continue
            raise MachineryError(f"strace: cannot parse line: {raw[:300]}")
        name, argstr, ret, retdec = c.group(1), c.group(2), c.group(3), c.group(4)
        if ret == "?" or int(ret) < 0:
            continue
        a = _split_args(argstr)
        rv = int(ret)
        rec: Optional[Dict[str, Any]] = None
        if name in ("openat", "open", "creat"):
            if name == "openat":
                _d, dpath = _fd(a[0])
                path, flags = _join(dpath, _unquote(a[1])), a[2] if len(a) > 2 else ""
            elif name == "open":
                path, flags = os.path.normpath(_unquote(a[0])), a[1] if len(a) > 1 else ""
            else:
                path, flags = os.path.normpath(_unquote(a[0])), "O_CREAT|O_WRONLY|O_TRUNC"
            fl = set(flags.split("|"))
            rec = {"op": "open", "path": path, "fd": rv, "creat": "O_CREAT" in fl, "trunc": "O_TRUNC" in fl,
                   "wr": bool(fl & {"O_WRONLY", "O_RDWR"}), "excl": "O_EXCL" in fl}
        elif name in ("write", "writev", "pwrite64", "pwritev", "pwritev2"):
            fd, fpath = _fd(a[0])
            if name == "write" and fd == 2:
                text = _unquote(a[1])
                if text.startswith("MARK "):
                    parts = text.split()
                    rec = {"op": "mark", "kind": parts[1], "label": parts[2], "commit": parts[3] == "1"}
                    recs.append(rec)
                continue
            rec = {"op": "write", "fd": fd, "fdpath": fpath, "n": rv, "data": _unquote(a[1]) if name in ("write", "pwrite64") else ""}
            if name == "pwrite64":
                rec["op"], rec["off"] = "pwrite", int(a[3])
            elif name in ("pwritev", "pwritev2"):
                rec["op"], rec["off"] = "pwrite", int(a[3])
        elif name in ("fsync", "fdatasync"):
            fd, fpath = _fd(a[0])
            rec = {"op": "fsync", "fd": fd, "fdpath": fpath}
        elif name == "ftruncate":
            fd, fpath = _fd(a[0])
            rec = {"op": "trunc", "fd": fd, "fdpath": fpath, "n": int(a[1])}
        elif name == "close":
            fd, fpath = _fd(a[0])
            rec = {"op": "close", "fd": fd, "fdpath": fpath}
        elif name == "flock":
            fd, fpath = _fd(a[0])
            rec = {"op": "flock", "fd": fd, "fdpath": fpath, "how": "un" if "LOCK_UN" in a[1] else ("ex" if "LOCK_EX" in a[1] else "sh")}
        elif name == "rename":
            rec = {"op": "rename", "src": os.path.normpath(_unquote(a[0])), "dst": os.path.normpath(_unquote(a[1]))}
        elif name in ("renameat", "renameat2"):
            rec = {"op": "rename", "src": _join(_fd(a[0])[1], _unquote(a[1])), "dst": _join(_fd(a[2])[1], _unquote(a[3]))}
        elif name == "unlink":
            rec = {"op": "unlink", "path": os.path.normpath(_unquote(a[0]))}
        elif name == "unlinkat":
            rec = {"op": "rmdir" if "AT_REMOVEDIR" in (a[2] if len(a) > 2 else "") else "unlink",
                   "path": _join(_fd(a[0])[1], _unquote(a[1]))}
        elif name == "rmdir":
            rec = {"op": "rmdir", "path": os.path.normpath(_unquote(a[0]))}
        elif name == "mkdir":
            rec = {"op": "mkdir", "path": os.path.normpath(_unquote(a[0]))}
        elif name == "mkdirat":
            rec = {"op": "mkdir", "path": _join(_fd(a[0])[1], _unquote(a[1]))}
        elif name in ("dup", "dup2", "dup3"):
            fd, fpath = _fd(a[0])
            rec = {"op": "unsupported", "what": name, "fdpath": fpath}
        elif name in ("truncate", "link", "linkat", "symlink", "symlinkat", "sync_file_range"):
            rec = {"op": "unsupported", "what": name, "path": " ".join(_unquote(x) for x in a[:4]), "fdpath": _fd(a[0])[1]}
        if rec is not None:
            recs.append(rec)
    return recs


def causal_repair(recs: List[Dict[str, Any]]) -> Tuple[List[Dict[str, Any]], int]:
    """strace -f serialises the calls of several threads in the order it happened to collect their
    exits, which for calls a few microseconds apart need not be the order in which the kernel ran
    them.  Two kernel guarantees fix the order where it matters to the model: a descriptor number
    is handed out only after its previous owner closed it, and an exclusive flock is granted only
    after the previous holder unlocked (or closed).  A close / unlock that is logged AFTER the call
    it must precede is moved in front of it.  Single-threaded traces are never changed."""
    recs = list(recs)
    moved = 0
    open_fds: set = set()
    holder: Optional[int] = None
    i = 0
    while i < len(recs):
        r = recs[i]
        need: Optional[int] = None      # index of a later record that must come first
        if r["op"] == "open" and r["fd"] in open_fds:
            need = next((j for j in range(i + 1, min(len(recs), i + 400)) if recs[j]["op"] == "close" and recs[j]["fd"] == r["fd"]), None)
        elif r["op"] == "flock" and r["how"] == "ex" and holder is not None and holder != r["fd"]:
            need = next((j for j in range(i + 1, min(len(recs), i + 400))
                         if (recs[j]["op"] == "flock" and recs[j]["how"] == "un" and recs[j]["fd"] == holder)
                         or (recs[j]["op"] == "close" and recs[j]["fd"] == holder)), None)
        if need is not None:
            recs.insert(i, recs.pop(need))
            moved += 1
            continue                     # re-examine position i (now the moved record)
        if r["op"] == "open":
            open_fds.add(r["fd"])
        elif r["op"] == "close":
            open_fds.discard(r["fd"])
            if holder == r["fd"]:
                holder = None
        elif r["op"] == "flock":
            if r["how"] == "ex":
                holder = r["fd"]
            elif holder == r["fd"]:
                holder = None
        i += 1
    return recs, moved


# ------------------------------------------------------------------------------------------------
# records -> Trace_FS events
# ------------------------------------------------------------------------------------------------
E0: Dict[str, Any] = {"op": "", "path": "", "dir": "", "cls": "", "fd": 0, "n": 0, "off": 0, "creat": False, "trunc": False,
                      "wr": False, "size": -1, "src": "", "dst": "", "how": "", "target": "", "reach": [], "files": [],
                      "hintChanged": False, "commit": False, "ph": ""}


def classify(rel: str) -> str:
    """Class of a table-relative path (same rules as the independent reader's read_state)."""
    base = rel.rsplit("/", 1)[-1]
    if rel == HINT:
        return "hint"
    if base.startswith(".tmp.") or (rel.startswith("data/") and base.startswith("tmp")):
        return "temp"
    if rel.startswith("metadata/inflight/"):
        return "marker"
    if rel.startswith("metadata/manifests/"):
        return "list" if base.startswith("manifest_list_") else "manifest"
    if rel.startswith("metadata/") and rel.count("/") == 1 and project.META_RE.match(base):
        return "meta"
    if rel.startswith("data/"):
        return "data"
    if rel.startswith(".locks/"):
        return "lock"
    return "other"


def is_pointer_name(rel: str) -> bool:
    base = rel.rsplit("/", 1)[-1]
    return rel == HINT or (base.startswith(".tmp.") and base.endswith("." + HINT) and "/" not in rel)


def parent(rel: str) -> str:
    if rel == ".":
        return ""
    d = os.path.dirname(rel)
    return d if d else "."


class Reach:
    """Reachable set (paths + sizes) of a metadata version, by the independent reader."""

    def __init__(self, root: str) -> None:
        self.root = root
        self.reader = project.LocalReader(root)
        self.st = project.read_state(self.reader)

    def of(self, target_rel: str) -> List[Dict[str, Any]]:
        base = target_rel.rsplit("/", 1)[-1]
        paths = [target_rel]
        meta = self.st["metas"].get(base)
        if meta is not None:
            r = project.reachable(self.st, meta)
            paths += r["lists"] + r["manifests"] + r["data"]
        out = []
        for p in dict.fromkeys(paths):
            full = os.path.join(self.root, p)
            out.append({"path": p, "size": os.path.getsize(full) if os.path.isfile(full) else 1})
        return out


def project_init(root: str) -> Dict[str, Any]:
    """The directory as it is (everything durable and complete) as an FSDurable initial state."""
    ents: List[Dict[str, Any]] = []
    if not os.path.isdir(root):
        return {"entries": [], "reach": []}
    rch = Reach(root)
    target = ""
    for d, dirs, files in os.walk(root):
        reld = os.path.relpath(d, root)
        ents.append({"path": reld, "dir": parent(reld), "cls": "dir", "kind": "dir", "size": 0, "target": ""})
        dirs.sort()
        for f in sorted(files):
            rel = f if reld == "." else f"{reld}/{f}"
            tgt = ""
            if rel == HINT:
                h = project.parse_hint(rch.reader.read(rel))
                tgt = f"metadata/{h['name']}" if h["name"] else ""
                target = tgt
            ents.append({"path": rel, "dir": parent(rel), "cls": classify(rel), "kind": "file",
                         "size": os.path.getsize(os.path.join(d, f)), "target": tgt})
    reach = [{"target": target, "files": rch.of(target)}] if target else []
    return {"entries": ents, "reach": reach}


def build_trace(records: List[Dict[str, Any]], root: str, reach: Optional[Reach], init: Dict[str, Any],
                loss: bool, maxflips: int = -1) -> Dict[str, Any]:
    """Uniform event records for Trace_FS.  `reach` may be None when no pointer write can occur."""
    root = os.path.normpath(root)
    pre = root + "/"
    events: List[Dict[str, Any]] = []
    opname = ""

    def under(p: str) -> bool:
        return p == root or p.startswith(pre)

    def rel(p: str) -> str:
        return "." if p == root else p[len(pre):]

    ptr_fds: Dict[int, str] = {}   # descriptors open on a pointer (or pointer temp) file -> content so far
    dirs = {x["path"] for x in init.get("entries", []) if x["kind"] == "dir"}
    fdinfo: Dict[int, Tuple[str, str]] = {}   # informational only (the model tracks descriptors itself)
    for r in records:
        op = r["op"]
        e = dict(E0)
        e["ph"] = opname
        if op == "mark":
            if r["kind"] == "begin":
                opname = r["label"]
                continue
            e.update(op="ack", commit=bool(r["commit"]), ph=r["label"])
        elif op in ("crash", "observe"):
            e.update(op=op, files=r.get("files", []), hintChanged=bool(r.get("hintChanged", False)))
        elif op == "open":
            if not under(r["path"]):
                continue
            p = rel(r["path"])
            e.update(op="open", path=p, dir=parent(p), cls="dir" if p in dirs else classify(p), fd=r["fd"], creat=r["creat"],
                     trunc=r["trunc"], wr=r["wr"], size=int(r.get("size", -1)))
            fdinfo[r["fd"]] = (p, e["cls"])
            if is_pointer_name(p) and r["wr"]:
                ptr_fds[r["fd"]] = ""
            else:
                ptr_fds.pop(r["fd"], None)
        elif op in ("write", "pwrite", "trunc", "fsync", "close", "flock"):
            if not under(r.get("fdpath", "")):
                continue
            e.update(op=op, fd=r["fd"], n=int(r.get("n", 0)), off=int(r.get("off", 0)), how=r.get("how", ""))
            e["path"], e["cls"] = fdinfo.get(r["fd"], ("", ""))
            if op == "write" and r["fd"] in ptr_fds:
                ptr_fds[r["fd"]] += r.get("data", "")
                h = project.parse_hint(ptr_fds[r["fd"]].encode("utf-8", "replace"))
                if h["name"]:
                    tgt = f"metadata/{h['name']}"
                    e["target"] = tgt
                    if reach is None:
                        raise MachineryError("pointer write in a trace built without a reachability source")
                    e["reach"] = reach.of(tgt)
            if op == "close":
                ptr_fds.pop(r["fd"], None)
        elif op == "rename":
            if not (under(r["src"]) or under(r["dst"])):
                continue
            if not (under(r["src"]) and under(r["dst"])):
                raise MachineryError(f"rename across the table root: {r}")
            s, d = rel(r["src"]), rel(r["dst"])
            if parent(s) != parent(d):
                raise MachineryError(f"rename across directories is not modelled: {s} -> {d}")
            e.update(op="rename", src=s, dst=d, dir=parent(d), cls=classify(d))
        elif op in ("unlink", "mkdir"):
            if not under(r["path"]):
                continue
            p = rel(r["path"])
            e.update(op=op, path=p, dir=parent(p), cls=classify(p) if op == "unlink" else "dir")
            if op == "mkdir":
                dirs.add(p)
        elif op in ("rmdir", "unsupported"):
            if under(r.get("path", "")) or under(r.get("fdpath", "")):
                raise MachineryError(f"system call not modelled inside the table root: {r}")
            continue
        else:
            raise MachineryError(f"unknown record {r}")
        events.append(e)
    return {"init": init, "loss": loss, "maxflips": maxflips, "events": events}


def describe(e: Dict[str, Any]) -> str:
    """Short human-readable form of an event (for violation texts)."""
    keep = {k: v for k, v in e.items() if k in ("op", "path", "fd", "n", "src", "dst", "how", "target", "ph", "commit") and v not in ("", 0, False)}
    return json.dumps(keep, sort_keys=True)
