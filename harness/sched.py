"""Deterministic cooperative ("baton") scheduler for real library threads.

Every actor is a thread running real library calls.  Instrumentation (harness/instrument.py) turns
each storage operation, lock attempt, sleep and stored clock read into a *gate*: the thread parks
there and the scheduler - the only thing that decides who moves - resumes exactly one actor at a
time.  An execution is therefore a deterministic function of the schedule (a sequence of
decisions), replayable from the recorded decision list.

Events are appended to `trace` by the single running thread, so their order is the real order (no
wall-clock merging).
"""
from __future__ import annotations

import threading
import traceback
from typing import Any, Callable, Dict, List, Optional, Sequence, Tuple


class Crashed(BaseException):
    """Raised inside an actor thread to unwind it when the scheduler 'kills' the actor."""


class Deadlock(Exception):
    pass


class Clock:
    """Virtual millisecond clock.  mode: strict (every read is later than all earlier reads),
    coarse (advances only when the scheduler ticks it / on sleeps), frozen (never advances)."""

    def __init__(self, mode: str = "strict", start_ms: int = 1_000_000_000) -> None:
        self.mode = mode
        self.ms = start_ms
        self.base = start_ms

    def read_ms(self) -> int:
        if self.mode == "strict":
            self.ms += 1
        return self.ms

    def peek_ms(self) -> int:
        return self.ms

    def advance(self, ms: int) -> None:
        if self.mode != "frozen" and ms > 0:
            self.ms += int(ms)

    def rel(self, ms: int) -> int:
        """Small integers for the trace (TLC integers are 32 bit)."""
        return int(ms - self.base)


class Actor:
    def __init__(self, name: str, fn: Callable[[], Any], role: str = "committer", handle: str = "") -> None:
        self.name = name
        self.fn = fn
        self.role = role
        self.handle = handle or name
        self.thread: Optional[threading.Thread] = None
        self.go = threading.Event()
        self.state = "new"           # new | parked | running | done | crashed
        self.pending: Dict[str, Any] = {}
        self.directive: Any = None
        self.result: Any = None
        self.error: Optional[BaseException] = None
        self.steps = 0
        self.kill = False


class Scheduler:
    def __init__(self, clock: Optional[Clock] = None) -> None:
        self.clock = clock or Clock()
        self.actors: Dict[str, Actor] = {}
        self.order: List[str] = []
        self.trace: List[Dict[str, Any]] = []
        self.raw: List[Dict[str, Any]] = []          # every gate passed (debug / replay)
        self.decisions: List[Any] = []
        self._cv = threading.Condition()
        self._tls = threading.local()
        self.current: Optional[Actor] = None
        self.seq = 0
        self.max_steps = 20000
        self.env_hooks: Dict[str, Callable[[], None]] = {}   # named environment steps (tick, heartbeat, ...)
        self.on_step: Optional[Callable[["Scheduler", Optional[Actor]], None]] = None

    # ---- actor side ------------------------------------------------------------------------
    def me(self) -> Optional[Actor]:
        return getattr(self._tls, "actor", None)

    def spawn(self, name: str, fn: Callable[[], Any], role: str = "committer", handle: str = "") -> Actor:
        a = Actor(name, fn, role, handle)
        self.actors[name] = a
        self.order.append(name)

        def body() -> None:
            self._tls.actor = a
            a.go.wait()
            a.go.clear()
            try:
                if a.kill:
                    raise Crashed()
                a.result = a.fn()
            except Crashed:
                a.state = "crashed"
            except BaseException as e:  # noqa: BLE001 - outcome of the actor's program, recorded
                a.error = e
                a.tb = traceback.format_exc()
            finally:
                with self._cv:
                    if a.state != "crashed":
                        a.state = "done"
                    self._cv.notify_all()

        a.thread = threading.Thread(target=body, name=f"actor-{name}", daemon=True)
        a.state = "parked"
        a.pending = {"kind": "start"}
        a.thread.start()
        return a

    def gate(self, kind: str, **info: Any) -> Any:
        """Called from an actor thread before an observable step.  Parks until scheduled; returns
        the scheduler's directive for this step (None, or a fault description)."""
        a = self.me()
        if a is None:
            return None            # not an actor thread (pool worker, setup code): run through
        with self._cv:
            a.pending = dict(info, kind=kind)
            a.state = "parked"
            self._cv.notify_all()
        a.go.wait()
        a.go.clear()
        if a.kill:
            raise Crashed()
        d, a.directive = a.directive, None
        return d

    def emit(self, ev: Dict[str, Any]) -> None:
        """Append a spec-level event (called by the running actor, or by the scheduler for env steps)."""
        a = self.me()
        if a is None and "a" not in ev:
            return                      # setup code / helper threads: not part of the scheduled execution
        self.seq += 1
        e = {k: v for k, v in ev.items() if v is not None}
        e.setdefault("a", a.name if a else "env")
        e["n"] = self.seq
        e.setdefault("t", self.clock.rel(self.clock.peek_ms()))
        self.trace.append(e)

    def reserve(self, ev: Dict[str, Any]) -> Dict[str, Any]:
        """Reserve the event's position now (at the linearisation point); fields may be filled in
        later by the same actor before it reaches its next gate."""
        n = len(self.trace)
        self.emit(ev)
        return self.trace[-1] if len(self.trace) > n else dict(ev)

    # ---- scheduler side --------------------------------------------------------------------
    def _blocked(self, a: Actor) -> bool:
        b = a.pending.get("blocked")
        try:
            return bool(b()) if callable(b) else False
        except Exception:  # noqa: BLE001
            return False

    def enabled(self) -> List[Actor]:
        return [self.actors[n] for n in self.order if self.actors[n].state == "parked" and not self._blocked(self.actors[n])]

    def alive(self) -> List[Actor]:
        return [self.actors[n] for n in self.order if self.actors[n].state in ("parked", "running")]

    def step(self, a: Actor, directive: Any = None) -> None:
        """Resume one actor until it parks again or finishes."""
        with self._cv:
            a.directive = directive
            a.state = "running"
            a.steps += 1
            self.current = a
            self.raw.append({"a": a.name, "pending": {k: v for k, v in a.pending.items() if k != "blocked"}, "directive": repr(directive) if directive else None})
            a.go.set()
            self._cv.wait_for(lambda: a.state != "running", timeout=120)
            if a.state == "running":
                raise Deadlock(f"actor {a.name} did not reach a gate within 120 s (pending={a.pending})")
        if self.on_step:
            self.on_step(self, a)

    def crash(self, a: Actor) -> None:
        """Kill an actor at its current gate: its thread unwinds without running any library code
        (no except/finally of the library may run: Crashed derives from BaseException, and library
        'finally' blocks would run - so instead the thread is simply never resumed)."""
        a.state = "crashed"
        a.kill = True
        # the thread stays parked forever (daemon); resources it 'held' are released by the caller
        # (instrument.release_process_resources) to model the kernel cleaning up after a dead process.

    def run(self, policy: "Policy") -> None:
        n = 0
        while True:
            alive = self.alive()
            if not alive:
                return
            en = self.enabled()
            choice = policy.choose(self, en)
            if choice is None:
                if not en:
                    # nobody can move: let the policy advance the environment (e.g. clock) or fail
                    if policy.unblock(self):
                        continue
                    raise Deadlock("no enabled actor: " + ", ".join(f"{a.name}@{a.pending.get('kind')}" for a in alive))
                return
            n += 1
            if n > self.max_steps:
                raise Deadlock(f"more than {self.max_steps} steps")
            kind, arg = choice[0], choice[1]
            self.decisions.append(choice if kind != "actor" else ("actor", arg.name) + tuple(choice[2:]))
            if kind == "actor":
                directive = choice[2] if len(choice) > 2 else None
                self.step(arg, directive)
            elif kind == "env":
                self.current = None
                self.env_hooks[arg]()
                if self.on_step:
                    self.on_step(self, None)
            elif kind == "crash":
                self.crash(arg)
            else:
                raise ValueError(choice)


class Policy:
    def choose(self, s: Scheduler, enabled: List[Actor]) -> Optional[Tuple[Any, ...]]:
        raise NotImplementedError

    def unblock(self, s: Scheduler) -> bool:
        return False


class ListPolicy(Policy):
    """Follow an explicit schedule: a list of actor names / ("env", name) / ("fault", actor, spec).
    When the list is exhausted (or names a disabled actor) fall back to lowest-index enabled actor,
    so every schedule prefix extends to a complete execution."""

    def __init__(self, schedule: Sequence[Any], strict: bool = False) -> None:
        self.schedule = list(schedule)
        self.i = 0
        self.strict = strict
        self.skipped = 0

    def choose(self, s: Scheduler, enabled: List[Actor]) -> Optional[Tuple[Any, ...]]:
        while self.i < len(self.schedule):
            d = self.schedule[self.i]
            self.i += 1
            if isinstance(d, str):
                a = s.actors.get(d)
                if a is not None and a in enabled:
                    return ("actor", a)
                self.skipped += 1
                if self.strict:
                    raise Deadlock(f"schedule names {d} which is not enabled")
                continue
            if d[0] == "until":
                # keep running `actor` until it has returned from k of its operations (Ret events)
                a = s.actors.get(d[1])
                done = sum(1 for e in s.trace if e.get("a") == d[1] and e.get("k") == "Ret")
                if a is not None and a in enabled and done < int(d[2]):
                    self.i -= 1
                    return ("actor", a)
                continue
            if d[0] == "env":
                return ("env", d[1])
            if d[0] == "crash":
                a = s.actors[d[1]]
                if a.state == "parked":
                    return ("crash", a)
                continue
            if d[0] == "fault":
                a = s.actors[d[1]]
                if a in enabled:
                    return ("actor", a, d[2])
                continue
        if enabled:
            return ("actor", enabled[0])
        return None


class RandomPolicy(Policy):
    """Seeded random walk with a small number of priority change points (PCT-like): mostly run one
    actor to completion, switch at random points; optional env steps with given probabilities."""

    def __init__(self, rng: Any, switch_p: float = 0.25, env_p: Optional[Dict[str, float]] = None) -> None:
        self.rng = rng
        self.switch_p = switch_p
        self.env_p = env_p or {}
        self.cur: Optional[str] = None

    def choose(self, s: Scheduler, enabled: List[Actor]) -> Optional[Tuple[Any, ...]]:
        for name, p in self.env_p.items():
            if self.rng.random() < p:
                return ("env", name)
        if not enabled:
            return None
        names = [a.name for a in enabled]
        if self.cur not in names or self.rng.random() < self.switch_p:
            self.cur = self.rng.choice(names)
        return ("actor", s.actors[self.cur])
