"""Child program of the C03 crash harness.  Always run as a script in a FRESH interpreter:

    python crash_child.py prepare <root> <prior>
        build a table with <prior> committed snapshots (plain use of the public API, no hooks)
    python crash_child.py run <root> <op> <k> <log>
        perform ONE operation on the table at <root>; every storage-level entry point the library uses
        (os.open/write/fsync/close/replace/rename/remove/unlink/mkdir via makedirs, tempfile.mkstemp,
        tempfile.NamedTemporaryFile, fcntl.flock, pyarrow's ParquetWriter open/write/close, builtin
        open() for writing) is wrapped BEFORE datashard is imported.  Before the k-th wrapped call that
        touches the table (0-based) the process dies with os._exit(137) - no cleanup handler, no
        finally block, no buffered flush runs.  k = -1: never die (dry run).  The log gets one JSON
        line per intended call (before it runs) and one per completed call (the Trace_FS record),
        written with the real os.write to a descriptor that is not counted.
    python crash_child.py reopen <jobs.json> <out.json>
        for every crashed directory: reopen with the library and report what it sees, append, collect
        garbage twice; observations of the directory are taken with the independent reader.

The wrappers only observe and count; they call the real function with unchanged arguments.
"""
from __future__ import annotations

import json
import os
import sys

SCHEMA_FIELDS = [{"id": 1, "name": "k", "type": "long", "required": True},
                 {"id": 2, "name": "v", "type": "string", "required": False}]


def rows(a: int, n: int):
    return [{"k": a * 1000 + i, "v": "r%d" % (a * 1000 + i)} for i in range(n)]


# rows appended by the operation under test (the parent knows them too)
OP_ROWS = {"append": [rows(50, 3)], "multi": [rows(51, 2), rows(52, 2)]}
FOLLOWUP_ROWS = rows(99, 2)


# ------------------------------------------------------------------------------------------------
# interception
# ------------------------------------------------------------------------------------------------
class Hooks:
    def __init__(self, root: str, k: int, log_path: str) -> None:
        import builtins
        import fcntl
        import tempfile

        self.root = os.path.realpath(root)
        self.pre = self.root + os.sep
        self.k = k
        self.count = 0
        self.armed = False
        self.inside = 0
        self.fds = {}          # fd -> absolute path (descriptors open on table files)
        self.synth = 1000      # descriptor numbers for writers that do not expose one (pyarrow)
        self.real = {n: getattr(os, n) for n in ("open", "write", "fsync", "fdatasync", "close", "replace", "rename",
                                                 "remove", "unlink", "makedirs", "mkdir", "ftruncate")}
        self.real_mkstemp = tempfile.mkstemp
        self.real_ntf = tempfile.NamedTemporaryFile
        self.real_flock = fcntl.flock
        self.real_bopen = builtins.open
        self.logfd = self.real["open"](log_path, os.O_WRONLY | os.O_CREAT | os.O_APPEND, 0o600)

    # -- plumbing ---------------------------------------------------------------------------
    def under(self, p) -> bool:
        try:
            p = os.path.abspath(os.fspath(p))
        except TypeError:
            return False
        if isinstance(p, bytes):
            p = p.decode("utf-8", "replace")
        return p == self.root or p.startswith(self.pre)

    def log(self, obj) -> None:
        self.real["write"](self.logfd, (json.dumps(obj) + "\n").encode())

    def step(self, intent) -> None:
        """Count one call that is about to touch the table; die here if it is the k-th."""
        if not self.armed:
            return
        self.log({"i": self.count, "intent": intent})
        if self.count == self.k:
            os._exit(137)
        self.count += 1

    def done(self, rec) -> None:
        if self.armed:
            self.log({"rec": rec})

    def track(self, fd: int, path: str) -> None:
        if fd in self.fds:
            # the number was closed by code we do not wrap (a file object's own close) and reused
            self.done({"op": "close", "fd": fd, "fdpath": self.fds[fd], "synthetic": True})
        self.fds[fd] = path

    # -- wrappers ---------------------------------------------------------------------------
    def install(self) -> None:
        import builtins
        import fcntl
        import tempfile

        H = self

        def w_open(path, flags, mode=0o777, *, dir_fd=None):
            if H.inside or dir_fd is not None or not H.under(path):
                return H.real["open"](path, flags, mode, dir_fd=dir_fd)
            p = os.path.abspath(os.fspath(path))
            wr = bool(flags & (os.O_WRONLY | os.O_RDWR))
            isdir = os.path.isdir(p)
            H.step({"op": "open", "path": p, "creat": bool(flags & os.O_CREAT), "wr": wr, "dir": isdir})
            fd = H.real["open"](path, flags, mode)
            H.track(fd, p)
            H.done({"op": "open", "path": p, "fd": fd, "creat": bool(flags & os.O_CREAT), "trunc": bool(flags & os.O_TRUNC),
                    "wr": wr, "excl": bool(flags & os.O_EXCL), "size": -1 if isdir or (flags & os.O_TRUNC) else os.fstat(fd).st_size})
            return fd

        def w_write(fd, data):
            if H.inside or fd not in H.fds:
                return H.real["write"](fd, data)
            H.step({"op": "write", "path": H.fds[fd]})
            n = H.real["write"](fd, data)
            H.done({"op": "write", "fd": fd, "fdpath": H.fds[fd], "n": n, "data": bytes(data[:256]).decode("utf-8", "replace")})
            return n

        def w_fsync(fd):
            if H.inside or fd not in H.fds:
                return H.real["fsync"](fd)
            H.step({"op": "fsync", "path": H.fds[fd], "dir": os.path.isdir(H.fds[fd])})
            r = H.real["fsync"](fd)
            H.done({"op": "fsync", "fd": fd, "fdpath": H.fds[fd]})
            return r

        def w_fdatasync(fd):
            if H.inside or fd not in H.fds:
                return H.real["fdatasync"](fd)
            H.step({"op": "fsync", "path": H.fds[fd], "dir": False})
            r = H.real["fdatasync"](fd)
            H.done({"op": "fsync", "fd": fd, "fdpath": H.fds[fd]})
            return r

        def w_ftruncate(fd, length):
            if H.inside or fd not in H.fds:
                return H.real["ftruncate"](fd, length)
            H.step({"op": "write", "path": H.fds[fd]})
            r = H.real["ftruncate"](fd, length)
            H.done({"op": "trunc", "fd": fd, "fdpath": H.fds[fd], "n": int(length)})
            return r

        def w_close(fd):
            if H.inside or fd not in H.fds:
                return H.real["close"](fd)
            p = H.fds[fd]
            H.step({"op": "close", "path": p, "dir": os.path.isdir(p)})
            r = H.real["close"](fd)
            del H.fds[fd]
            H.done({"op": "close", "fd": fd, "fdpath": p})
            return r

        def mk_rename(name):
            def w_rename(src, dst, *a, **kw):
                if H.inside or a or kw or not (H.under(src) or H.under(dst)):
                    return H.real[name](src, dst, *a, **kw)
                s, d = os.path.abspath(os.fspath(src)), os.path.abspath(os.fspath(dst))
                H.step({"op": "rename", "path": d, "src": s})
                r = H.real[name](src, dst)
                for fd, p in list(H.fds.items()):
                    if p == s:
                        H.fds[fd] = d
                H.done({"op": "rename", "src": s, "dst": d})
                return r
            return w_rename

        def mk_unlink(name):
            def w_unlink(path, *a, **kw):
                if H.inside or a or kw or not H.under(path):
                    return H.real[name](path, *a, **kw)
                p = os.path.abspath(os.fspath(path))
                H.step({"op": "unlink", "path": p})
                r = H.real[name](path)
                H.done({"op": "unlink", "path": p})
                return r
            return w_unlink

        def w_makedirs(name, mode=0o777, exist_ok=False):
            if H.inside or not H.under(name):
                return H.real["makedirs"](name, mode, exist_ok)
            p = os.path.abspath(os.fspath(name))
            missing = []
            q = p
            while not os.path.isdir(q) and (q == H.root or q.startswith(H.pre)):
                missing.append(q)
                q = os.path.dirname(q)
            if not os.path.isdir(q):
                # ancestors above the table root: not the table's business, create them uncounted
                H.real["makedirs"](q, mode, True)
            for q in reversed(missing):          # one mkdir system call per missing component
                H.step({"op": "mkdir", "path": q})
                H.real["mkdir"](q, mode)
                H.done({"op": "mkdir", "path": q})
            if not missing and not exist_ok:
                raise FileExistsError(p)

        def w_mkstemp(suffix=None, prefix=None, dir=None, text=False):
            if H.inside or dir is None or not H.under(dir):
                return H.real_mkstemp(suffix, prefix, dir, text)
            H.step({"op": "open", "path": os.path.join(os.path.abspath(dir), (prefix or "tmp") + "?" + (suffix or "")),
                    "creat": True, "wr": True, "dir": False})
            H.inside += 1
            try:
                fd, name = H.real_mkstemp(suffix, prefix, dir, text)
            finally:
                H.inside -= 1
            name = os.path.abspath(name)
            H.track(fd, name)
            H.done({"op": "open", "path": name, "fd": fd, "creat": True, "trunc": False, "wr": True, "excl": True, "size": 0})
            return fd, name

        def w_ntf(*a, **kw):
            d = kw.get("dir")
            if H.inside or d is None or not H.under(d):
                return H.real_ntf(*a, **kw)
            H.step({"op": "open", "path": os.path.join(os.path.abspath(d), (kw.get("prefix") or "tmp") + "?" + (kw.get("suffix") or "")),
                    "creat": True, "wr": True, "dir": False})
            H.inside += 1
            try:
                f = H.real_ntf(*a, **kw)
            finally:
                H.inside -= 1
            name = os.path.abspath(f.name)
            H.track(f.fileno(), name)
            H.done({"op": "open", "path": name, "fd": f.fileno(), "creat": True, "trunc": False, "wr": True, "excl": True, "size": 0})
            return f

        def w_flock(fd, op):
            n = fd if isinstance(fd, int) else fd.fileno()
            if H.inside or n not in H.fds:
                return H.real_flock(fd, op)
            how = "un" if op & fcntl.LOCK_UN else "ex"
            H.step({"op": "flock", "path": H.fds[n], "how": how})
            r = H.real_flock(fd, op)          # raises when the lock is busy: then no record
            H.done({"op": "flock", "fd": n, "fdpath": H.fds[n], "how": how})
            return r

        class WFile:
            """Builtin open() for writing inside the table (the library itself never does that; a
            changed library might): every write is flushed so that it is one counted step."""

            def __init__(self, f, path):
                self._f, self._p = f, path

            def write(self, data):
                H.step({"op": "write", "path": self._p})
                n = self._f.write(data)
                self._f.flush()
                H.done({"op": "write", "fd": self._f.fileno(), "fdpath": self._p, "n": len(data) if isinstance(data, (bytes, bytearray)) else len(str(data).encode()),
                        "data": (bytes(data[:256]).decode("utf-8", "replace") if isinstance(data, (bytes, bytearray)) else str(data)[:256])})
                return n

            def close(self):
                if self._f.closed:
                    return
                fd = self._f.fileno()
                H.step({"op": "close", "path": self._p, "dir": False})
                self._f.close()
                H.fds.pop(fd, None)
                H.done({"op": "close", "fd": fd, "fdpath": self._p})

            def __enter__(self):
                return self

            def __exit__(self, *a):
                self.close()

            def __getattr__(self, n):
                return getattr(self._f, n)

        def w_bopen(file, mode="r", *a, **kw):
            if H.inside or not isinstance(file, (str, bytes, os.PathLike)) or not any(c in mode for c in "wax+") or not H.under(file):
                return H.real_bopen(file, mode, *a, **kw)
            p = os.path.abspath(os.fspath(file))
            existed = os.path.exists(p)
            H.step({"op": "open", "path": p, "creat": True, "wr": True, "dir": False})
            H.inside += 1
            try:
                f = H.real_bopen(file, mode, *a, **kw)
            finally:
                H.inside -= 1
            H.track(f.fileno(), p)
            H.done({"op": "open", "path": p, "fd": f.fileno(), "creat": not existed or "w" in mode or "x" in mode, "trunc": "w" in mode, "wr": True,
                    "excl": "x" in mode, "size": -1})
            return WFile(f, p)

        os.open, os.write, os.fsync, os.fdatasync, os.close, os.ftruncate = w_open, w_write, w_fsync, w_fdatasync, w_close, w_ftruncate
        os.replace, os.rename = mk_rename("replace"), mk_rename("rename")
        os.remove, os.unlink = mk_unlink("remove"), mk_unlink("unlink")
        os.makedirs = w_makedirs
        tempfile.mkstemp = w_mkstemp
        tempfile.NamedTemporaryFile = w_ntf
        fcntl.flock = w_flock
        builtins.open = w_bopen

        # pyarrow's parquet writer works on its own C++ file handle: open / write / close are the steps
        import pyarrow.parquet as pq

        RealWriter = pq.ParquetWriter

        class CountingWriter(RealWriter):
            def __init__(self, where, *a, **kw):
                self._h_path = None
                self._h_nest = 0
                if isinstance(where, str) and kw.get("filesystem") is None and H.under(where):
                    p = os.path.abspath(where)
                    existed = os.path.exists(p)
                    H.step({"op": "open", "path": p, "creat": True, "wr": True, "dir": False, "via": "pyarrow"})
                    super().__init__(where, *a, **kw)
                    self._h_path, self._h_fd, self._h_len = p, H.synth, 0
                    H.synth += 1
                    H.done({"op": "open", "path": p, "fd": self._h_fd, "creat": True, "trunc": True, "wr": True, "excl": False,
                            "size": -1, "existed": existed})
                    self._h_grow()
                else:
                    super().__init__(where, *a, **kw)

            def _h_grow(self):
                try:
                    size = os.path.getsize(self._h_path)
                except OSError:
                    size = self._h_len
                H.done({"op": "write", "fd": self._h_fd, "fdpath": self._h_path, "n": max(0, size - self._h_len), "data": ""})
                self._h_len = max(size, self._h_len)

            def _h_wrap(self, name, *a, **kw):
                if self._h_path is None or self._h_nest:
                    return getattr(super(), name)(*a, **kw)
                H.step({"op": "write", "path": self._h_path, "via": "pyarrow"})
                self._h_nest += 1
                try:
                    r = getattr(super(), name)(*a, **kw)
                finally:
                    self._h_nest -= 1
                self._h_grow()
                return r

            def write_batch(self, *a, **kw):
                return self._h_wrap("write_batch", *a, **kw)

            def write_table(self, *a, **kw):
                return self._h_wrap("write_table", *a, **kw)

            def write(self, *a, **kw):
                return self._h_wrap("write", *a, **kw)

            def close(self):
                if self._h_path is None or not getattr(self, "is_open", False) or self._h_nest:
                    return super().close()
                H.step({"op": "close", "path": self._h_path, "dir": False, "via": "pyarrow"})
                r = super().close()
                self._h_grow()
                H.done({"op": "close", "fd": self._h_fd, "fdpath": self._h_path})
                return r

        pq.ParquetWriter = CountingWriter


# ------------------------------------------------------------------------------------------------
# operations
# ------------------------------------------------------------------------------------------------
def schema():
    from datashard import Schema

    return Schema(schema_id=1, fields=SCHEMA_FIELDS)


def prepare(root: str, prior: int) -> None:
    import time

    from datashard import create_table

    t = create_table(root, schema())
    if prior >= 1:      # snapshot 1: two data files in one manifest (so delete_files rewrites it)
        tx = t.new_transaction().begin()
        tx.append_data(rows(1, 3))
        tx.append_data(rows(2, 3))
        tx.commit()
        time.sleep(0.003)
    for j in range(2, prior + 1):
        t.append_records(rows(10 + j, 2))
        time.sleep(0.003)


def perform(root: str, op: str, hooks) -> None:
    from datashard import create_table, load_table

    if op == "create":
        hooks.armed = True
        create_table(root, schema())
        hooks.armed = False
        return
    t = load_table(root)
    if op == "append":
        hooks.armed = True
        t.append_records(OP_ROWS["append"][0])
    elif op == "multi":
        hooks.armed = True
        tx = t.new_transaction().begin()
        for r in OP_ROWS["multi"]:
            tx.append_data(r)
        tx.commit()
    elif op == "delete":
        files = [df.file_path for df in t._get_all_data_files()]
        hooks.armed = True
        tx = t.new_transaction().begin()
        tx.delete_files([files[0]])
        tx.commit()
    elif op == "replace":       # delete_files + append in ONE transaction: one snapshot, one pointer flip
        files = [df.file_path for df in t._get_all_data_files()]
        hooks.armed = True
        tx = t.new_transaction().begin()
        tx.delete_files([files[0]])
        tx.append_data(rows(53, 2))
        tx.commit()
    elif op == "expire":
        cur = t.current_snapshot()
        hooks.armed = True
        tx = t.new_transaction().begin()
        tx.expire_snapshots(older_than_ms=cur.timestamp_ms)
        tx.commit()
    elif op == "deletesnap":
        sid = t.snapshots()[0]["snapshot_id"]
        hooks.armed = True
        t.snapshot_manager.delete_snapshot(sid)
    elif op == "gc":
        hooks.armed = True
        t.garbage_collect(grace_period_ms=0)
    else:
        raise SystemExit(f"unknown op {op}")
    hooks.armed = False


# ------------------------------------------------------------------------------------------------
# reopen checks (library view + independent reader view of the same directory)
# ------------------------------------------------------------------------------------------------
def _reader_view(root: str):
    from harness import project

    rd = project.LocalReader(root)
    st = project.read_state(rd)
    name = project.current_meta_name(st)
    out = {"files": st["files"], "broken": st["broken"], "meta": name, "missing": None, "snapshots": None, "reachable": None}
    if name is None:
        return out
    meta = st["metas"][name]
    out["missing"] = project.missing_reachable(st, meta)
    r = project.reachable(st, meta)
    out["reachable"] = sorted(r["lists"] + r["manifests"] + r["data"])
    snaps = []
    for s in meta.get("snapshots", []):
        rws, problems = project.snapshot_rows(rd, st, s)
        snaps.append({"id": s["snapshot_id"], "rows": sorted(map(lambda x: [x["k"], x["v"]], rws)) if rws is not None else None,
                      "problems": problems})
    out["snapshots"] = snaps
    out["current"] = meta.get("current_snapshot_id")
    return out


def _library_snapshot_rows(t, snap) -> list:
    """Rows of one retained snapshot, read through the library's own manifest and data readers."""
    fm = t.file_manager
    out = []
    seen = set()
    for m in fm.read_manifest_list_file(snap.manifest_list.lstrip("/")):
        for df in fm.read_manifest_file(m.manifest_path.lstrip("/")):
            p = df.file_path.lstrip("/")
            if p in seen:
                continue
            seen.add(p)
            with fm.data_file_manager.open_parquet_source(df.file_path) as src:
                import pyarrow.parquet as pq

                out += [[r["k"], r["v"]] for r in pq.read_table(src).to_pylist()]
    return sorted(out)


def reopen_one(root: str) -> dict:
    from datashard import load_table
    from datashard.garbage_collector import GarbageCollector

    rep: dict = {"root": root, "steps": []}

    def guarded(name, fn):
        try:
            rep[name] = fn()
        except BaseException as e:  # noqa: BLE001 - everything the library raises is an observation
            rep[name] = None
            rep["steps"].append(f"{name}: {type(e).__name__}: {e}")
            return False
        return True

    rep["reader0"] = _reader_view(root)
    try:
        t = load_table(root)
    except ValueError as e:
        rep["loaded"] = False
        rep["load_error"] = str(e)
        # no table: creating one must work
        from datashard import create_table

        guarded("create_after", lambda: bool(create_table(root, schema())) or True)
        if rep.get("create_after"):
            t = load_table(root)
            guarded("append_ok", lambda: t.append_records(FOLLOWUP_ROWS))
            guarded("scan_after_append", lambda: sorted([r["k"], r["v"]] for r in t.scan()))
        return rep
    except BaseException as e:  # noqa: BLE001
        rep["loaded"] = None
        rep["steps"].append(f"load: {type(e).__name__}: {e}")
        return rep
    rep["loaded"] = True
    guarded("uuid", lambda: t.metadata_manager.refresh().table_uuid)
    guarded("snapshots", lambda: [s["snapshot_id"] for s in t.snapshots()])
    guarded("current", lambda: (t.current_snapshot().snapshot_id if t.current_snapshot() else None))
    guarded("scan", lambda: sorted([r["k"], r["v"]] for r in t.scan()))
    guarded("snapshot_rows", lambda: [_library_snapshot_rows(t, s) for s in t.snapshot_manager.get_all_snapshots()])
    guarded("append_ok", lambda: t.append_records(FOLLOWUP_ROWS))
    guarded("scan_after_append", lambda: sorted([r["k"], r["v"]] for r in t.scan()))
    rep["reader1"] = _reader_view(root)
    guarded("gc1", lambda: t.garbage_collect(grace_period_ms=0))
    rep["reader2"] = _reader_view(root)
    # after the in-flight abandonment window: markers of the dead transaction no longer protect
    guarded("gc2", lambda: GarbageCollector(t.table_path, t.metadata_manager, t.file_manager).collect(0, 0))
    rep["reader3"] = _reader_view(root)
    guarded("scan_final", lambda: sorted([r["k"], r["v"]] for r in load_table(root).scan()))
    return rep


def main() -> None:
    mode = sys.argv[1]
    if mode == "prepare":
        prepare(sys.argv[2], int(sys.argv[3]))
    elif mode == "run":
        root, op, k, log = sys.argv[2], sys.argv[3], int(sys.argv[4]), sys.argv[5]
        h = Hooks(root, k, log)
        h.install()
        try:
            perform(root, op, h)
        except BaseException as e:  # noqa: BLE001
            h.log({"error": f"{type(e).__name__}: {e}"})
            os._exit(3)
        h.log({"done": h.count})
        os._exit(0)
    elif mode == "reopen":
        sys.path.insert(0, os.path.dirname(os.path.dirname(os.path.abspath(__file__))))
        with open(sys.argv[2]) as f:
            jobs = json.load(f)
        out = [reopen_one(j) for j in jobs]
        with open(sys.argv[3], "w") as f:
            json.dump(out, f)
            f.flush()
            os.fsync(f.fileno())
        os._exit(0)      # skip interpreter teardown (pyarrow worker threads abort in it now and then)
    else:
        raise SystemExit("usage: crash_child.py prepare|run|reopen ...")


if __name__ == "__main__":
    main()
