"""C06 - Garbage collection is safe against concurrently committing transactions.

Specification: spec/DataShard.tla with a collector actor (GStampM, GLoadMarkers, GBegin, GList,
GStamp, GDelete, GReturn - one action per storage call of GarbageCollector.collect) racing
committers.  File ages are explicit: data files written by a transaction before the collection run
began may be arbitrarily old (OldFiles: "already older than the grace period when they commit"),
files written during the run are younger than the grace period (the proviso "grace > duration").
Invariants: ReachablePresent (every file of every snapshot of the current metadata exists, in every
state), OnlyOrphansDeleted (nothing the collector deleted is referenced by any metadata version that
was current from its metadata read onwards), InflightPresent.

TLC: all interleavings of one collector with an appending / deleting / expiring committer and with
two committers (retry), with anti-vacuity companion: the pre-repair order (metadata read before the
marker read) must violate ReachablePresent.
Binding: collector and committers as actors on the real library (old data files are back-dated),
every single-pause schedule in both directions plus seeded double-pause/random schedules and a
rolled-back transaction; each trace validated by TLC against the same actions: a delete is accepted
only if the model's decision rule allows it, listings must equal the model's storage, every
invariant evaluated after every event.
"""
from __future__ import annotations

from typing import Any, Dict, List, Tuple

from .. import l1
from ..common import Ctx
from ..l1 import ActorSpec as A, Scenario
from ..tlc import Raw
from . import c01

LEVEL = "model_checking"
INV = ["TypeOK", "Serializable", "ReachablePresent", "OnlyOrphansDeleted", "InflightPresent", "AbortDeletesNothing", "AckedOnce"]
G1 = dict(Actors=Raw("<- AG"), Role=Raw("<- Role_G"), Idx=Raw("<- Idx_G"), Handle=Raw("<- Sep_G"), FixInterrupt=True,
          ClockMode="coarse", MaxClock=3, OldFiles=True, FixGCOrder=True, FixGCFail=True)
G2 = dict(G1, Actors=Raw("<- AG2"), Role=Raw("<- Role_G2"), Idx=Raw("<- Idx_G2"), Handle=Raw("<- Sep_G2"))


def mc_configs(quick: bool) -> List[Tuple[str, Dict[str, Any], bool]]:
    b = c01.mc_base
    c = [
        ("collector || append (old data file)", b(Prog=Raw("<- Prog_GApp"), **G1), True),
        ("collector || delete (manifest rewrite)", b(Prog=Raw("<- Prog_GDel"), **G1), True),
        ("collector || expire then append", b(Prog=Raw("<- Prog_GExp"), **G1), True),
        ("[must fail] metadata read before marker read", b(Prog=Raw("<- Prog_GApp"), **dict(G1, FixGCOrder=False, FixGCFail=False)), False),
        ("[known finding, must fail] collector || Table.append_data(files) of a file built beforehand (no marker is written for it)",
         b(Prog=Raw("<- Prog_GPre"), PreFiles={971}, **G1), False),
    ]
    if True:
        c += [("two collectors || append", b(Prog=Raw("<- Prog_GG"), **dict(G1, Actors=Raw("<- AGG"), Role=Raw("<- Role_GG"), Idx=Raw("<- Idx_GG"), Handle=Raw("<- Sep_GG"), MaxClock=2)), True)]
    if not quick:
        c += [("collector || two appenders (retry)", b(Prog=Raw("<- Prog_G2"), **dict(G2, MaxClock=2)), True),
              ("collector || append, one committer fault", b(Prog=Raw("<- Prog_GApp"), FaultKinds={"before", "async"}, FaultBudget=1, **G1), True)]
    return c


def scenarios(quick: bool) -> List[Scenario]:
    gc = A("g1", "collector", [{"t": "gc", "grace": 1000}])
    kw = dict(data_age_ms=10000, orphans=1)
    s = [
        Scenario("gc-vs-append", [A("c1", "committer", [{"t": "append"}]), gc], **kw),
        Scenario("gc-vs-delete", [A("c1", "committer", [{"t": "delete", "refs": [("init", 1)]}]), gc], **kw),
        Scenario("gc-vs-expire-append", [A("c1", "committer", [{"t": "expire", "cutoff": 8}, {"t": "append"}]), gc], **kw),
    ]
    # a transaction that loses the commit race and retries while the collector runs: its data-file markers must survive the retry
    s.append(Scenario("gc-vs-2tx-retry", [A("c1", "committer", [{"t": "append"}]), A("c2", "committer", [{"t": "append", "n": 2}]), gc], **kw))
    # collection takes no lock: two collectors at once (each may find its candidates already removed by the other)
    s.append(Scenario("2gc-vs-append", [A("c1", "committer", [{"t": "append"}]), gc, A("g2", "collector", [{"t": "gc", "grace": 1000}])], **kw))
    if not quick:
        s += [
            Scenario("gc-twice-vs-multi", [A("c1", "committer", [{"t": "multi", "n": 1, "refs": [("init", 1)], "cutoff": 8}]),
                                           A("g1", "collector", [{"t": "gc", "grace": 1000}, {"t": "gc", "grace": 1000}])], **kw),
            Scenario("gc-vs-delsnap", [A("c1", "committer", [{"t": "delsnap", "who": ("init", 1)}, {"t": "append"}]), gc], init_snaps=3, **kw),
        ]
    return s


KNOWN_PRE = ("prebuilt-append-unprotected",
             "Table.append_data(files)/Transaction.append_files of a data file built beforehand writes no in-flight marker: a collection run that read the metadata "
             "before the commit deletes the (old, unreferenced) file after the commit's existence check, and the committed snapshot references a deleted file")


def prebuilt_finding(ctx: Ctx, quick: bool) -> None:
    """The open known finding S14, reproduced on the real code each run under its fixed signature; anything else these
    executions show (nonconformance, another invariant) is reported as an ordinary violation."""
    scn = Scenario("gc-vs-prebuilt-append", [A("c1", "committer", [{"t": "append", "pre": 1}]), A("g1", "collector", [{"t": "gc", "grace": 1000}])],
                   data_age_ms=10000, prebuilt=1)
    steps = l1.solo_steps(scn)
    jobs = [("list", s_) for s_ in l1.single_pause_schedules(scn, steps, stride=2 if quick else 1)]
    traces = l1.run_many(scn, jobs)
    v = l1.validate(scn, traces)
    ctx.add_tlc(v.res)
    hit = 0
    for i, t in enumerate(traces):
        ctx.count_case((scn.name, [(e["a"], e["k"]) for e in t["events"]]), nontrivial=True)
        ctx.count_traces(1)
        if v.accepted[i]:
            continue
        replay = {"scenario": scn.name, "schedule": t["schedule"], "outcomes": t["outcomes"], "errors": t["errors"]}
        if v.violated[i] is not None and v.violated[i][1] in ("ReachablePresent", "InflightPresent", "OnlyOrphansDeleted", "NoLiveDelete"):
            pos = v.violated[i][0]
            replay["events"] = t["events"][max(0, pos - 12):pos]
            hit += 1
            ctx.violation(KNOWN_PRE[0], KNOWN_PRE[1], replay)
        elif v.violated[i] is not None:
            pos, inv = v.violated[i]
            replay["events"] = t["events"][max(0, pos - 12):pos]
            ctx.violation(f"{inv}:{scn.name}", f"invariant {inv} violated by a real execution of {scn.name} (outcomes {t['outcomes']})", replay)
        else:
            pos = v.reached[i]
            bad = t["events"][pos - 1] if 0 < pos <= len(t["events"]) else {}
            replay["events"] = t["events"][max(0, pos - 12):pos + 1]
            ctx.violation(f"nonconformance:{scn.name}:{bad.get('k')}", f"real execution of {scn.name} is not a behaviour of DataShard.tla: event {pos} "
                          f"{ {k: x for k, x in bad.items() if k not in ('obs', 'body')} }", replay)
    ctx.cov["known_finding_prebuilt_reproduced_in"] = hit


def run(ctx: Ctx) -> None:
    quick = ctx.tier == "quick"
    try:
        c01.run_mc(ctx, mc_configs(quick), INV)
        c01.conformance(ctx, scenarios(quick), n_random=15 if quick else 300, n_double=25 if quick else 500, stride=1)
        prebuilt_finding(ctx, quick)
    finally:
        l1.close_pool()
    ctx.rule("model: all interleavings of the collector's storage calls with transaction steps; implementation: every single-pause schedule (each actor paused at each "
             "of its scheduling points while the other runs to completion), seeded double-pause and random schedules, old (back-dated) data files; "
             "non-trivial = collector and committer steps interleave; distinct by event sequence")
    ctx.assume("the grace period exceeds the duration of the collection run (the property's proviso): files written during the run are younger than grace",
               "data files may be arbitrarily old when their transaction commits (back-dated by 10 s with grace = 1 s in the real executions)",
               "one collector at a time",
               "open known finding: files appended through the file-level API (built beforehand, possibly older than the grace period) are not protected by a marker")
