"""C17 - No operation escapes the table root.

Specification: spec/PathRes.tla (reference: kernel path walk KWalk over a node graph of directories,
files and symlinks, Touched, Confined / EscapeRejected; transcriptions: posixpath.realpath,
LocalStorageBackend._resolve_path, DataFileManager._get_arrow_path, list_files/os.walk, GC's '..' guard)
and spec/MC_PathRes.tla (four layouts x path grammar; two TLC states per case).

1. TLC checks Confined, EscapeRejected, NotMisresolved and
   the listing theorems on the whole grammar and exports every case with the model's verdicts.
   Companion (CompSpec): without the root-write guard (the code before /repo 409b145, finding
   C17-write-to-root) the strict Confined must FAIL, exactly on writes resolving to the root itself;
   each code variant (abspath, startswith, no containment, absolute arrow paths unchanged,
   followlinks, raw-base listing) must FAIL a theorem.
2. Binding, spec -> code: every layout is built in a real scratch directory with sentinel trees
   OUTSIDE the root; every exported case is executed against every real entry point with
   builtins.open / os.open / listdir / scandir / remove / replace / rename / mkdir ... wrapped in the
   harness process.  Verdict by the PROPERTY oracle only: (a) nothing outside the canonical root is
   opened, listed, created, deleted or renamed (recorder + fingerprint of everything outside before
   vs after + identity of returned content), (b) a path that designates an object or a creatable name
   outside the root (reference reading by the kernel walk) must raise.  Disagreement with the
   transcription that does not break (a)/(b) is counted as model drift.
3. End to end: a real table inside each layout; manifest entries, manifest-list paths in the
   snapshot, manifest paths in the manifest list, marker payloads and storage listings are tampered
   with exported path strings, then scan / scan_batches / garbage_collect / append / delete_files run.
"""
from __future__ import annotations

import builtins
import hashlib
import io
import json
import logging
import os
import shutil
import signal
import sys
import time
from concurrent.futures import ThreadPoolExecutor
from typing import Any, Callable, Dict, List, Optional, Set, Tuple

from .. import tlc
from ..common import Ctx, MachineryError, rng, scratch_dir

LEVEL = "model_checking"

ALPHABET = ["..", ".", "", "data", "metadata", "f", "ln_out", "ln_outf", "ln_in", "t2"]
LAYOUTS = ["A", "B", "C", "D"]
REL_PRES = ["rel", "slash"]
ABS_PRES = ["base", "canon", "out", "sib", "ws"]
AS_IS = {"VRealpath": True, "VContain": "commonpath", "VArrowAbs": False, "VListRaw": False,
         "VFollow": False, "VRootGuard": True, "DeepTrail": True}
MAIN_INVARIANTS = ["Confined", "EscapeRejected", "NotMisresolved", "ListingRoundTrip1", "ListServes1", "Exported"]
KNOWN_ROOT_WRITE = "resolves-to-root"

# names the grammar can spell directly under the real filesystem root (true absolute readings such
# as "/f"): under a mutated library a write could land there, so anything we did not find at start
# is removed at the end
_SYSROOT_NAMES = ["f", "t2", "ln_out", "ln_outf", "ln_in", "data", "metadata", "p1"]


# ------------------------------------------------------------------------------------------------
# TLC
# ------------------------------------------------------------------------------------------------

def _tlc(label: str, consts: Dict[str, Any], invariants: List[str], sample_file: str,
         layouts_file: Optional[str] = None, workers: Any = "auto", timeout_s: int = 900) -> tlc.TLCResult:
    cfg = tlc.make_cfg(spec="Spec", constants=consts, invariants=invariants,
                       postcondition="ExportLayouts" if layouts_file else None, check_deadlock=False)
    env = {"VERIF_SAMPLE": sample_file}
    if layouts_file:
        env["VERIF_LAYOUTS"] = layouts_file
    return tlc.run_tlc("MC_PathRes", cfg, env=env, timeout_s=timeout_s, label=label, workers=workers)


def _parse_export(stdout: str) -> List[Dict[str, Any]]:
    out = []
    for line in stdout.splitlines():
        if line.startswith('"{'):
            out.append(json.loads(json.loads(line)))
    return out


def _sample_cases(seed: int, n: int, min_depth: int, max_depth: int) -> List[Dict[str, Any]]:
    r = rng(seed, "c17-sample", n, min_depth, max_depth)
    seen: Set[str] = set()
    out: List[Dict[str, Any]] = []
    while len(out) < n:
        pre = r.choice(REL_PRES * 3 + ABS_PRES)
        k = r.randint(min_depth, max_depth)
        case = {"lay": r.choice(LAYOUTS), "pre": pre, "comps": [r.choice(ALPHABET) for _ in range(k)],
                "trail": r.random() < 0.3}
        key = json.dumps(case, sort_keys=True)
        if key not in seen:
            seen.add(key)
            out.append(case)
    return out


# ------------------------------------------------------------------------------------------------
# recorder: every path handed to a content / namespace syscall wrapper, classified BEFORE the call
# ------------------------------------------------------------------------------------------------

class Recorder:
    FOLLOW = "follow"      # the object the path designates after following links (open, listdir, scandir)
    ENTRY = "entry"        # the directory entry itself (remove, rename, mkdir, symlink, O_NOFOLLOW|O_EXCL creation)

    def __init__(self) -> None:
        self.active = False
        self.events: List[Tuple[str, str, bool, bool]] = []      # (kind, location, existed_before, may_create)
        self._orig: Dict[Tuple[Any, str], Any] = {}
        self._realpath = os.path.realpath
        self._lexists = os.path.lexists

    def _loc(self, path: Any, mode: str) -> Optional[str]:
        if isinstance(path, int) or path is None:
            return None
        try:
            p = os.fspath(path)
        except TypeError:
            return None
        if isinstance(p, bytes):
            p = os.fsdecode(p)
        p = os.path.abspath(p)
        if mode == self.FOLLOW:
            return self._realpath(p)
        head, tail = os.path.split(p.rstrip("/") or "/")
        return os.path.join(self._realpath(head), tail) if tail else self._realpath(head)

    def note(self, kind: str, path: Any, mode: str, mutating: bool) -> None:
        if not self.active:
            return
        self.active = False
        try:
            loc = self._loc(path, mode)
            if loc is not None:
                self.events.append((kind, loc, self._lexists(loc), mutating))
        finally:
            self.active = True

    def install(self) -> None:
        rec = self

        def wrap(mod: Any, name: str, maker: Callable[[Any], Any]) -> None:
            orig = getattr(mod, name)
            rec._orig[(mod, name)] = orig
            setattr(mod, name, maker(orig))

        def mk_open(orig: Any) -> Any:
            def w_open(file: Any, mode: str = "r", *a: Any, **k: Any) -> Any:
                writing = any(c in mode for c in "wax+")
                rec.note("open:" + mode, file, rec.FOLLOW, writing)
                return orig(file, mode, *a, **k)
            return w_open

        def mk_os_open(orig: Any) -> Any:
            def w_os_open(path: Any, flags: int, *a: Any, **k: Any) -> Any:
                creating = bool(flags & os.O_CREAT)
                nofollow = bool(flags & os.O_NOFOLLOW) or (flags & os.O_CREAT and flags & os.O_EXCL)
                rec.note("os.open", path, rec.ENTRY if nofollow else rec.FOLLOW, creating)
                return orig(path, flags, *a, **k)
            return w_os_open

        def mk1(kind: str, mode: str, mutating: bool) -> Callable[[Any], Any]:
            def maker(orig: Any) -> Any:
                def w(path: Any = ".", *a: Any, **k: Any) -> Any:
                    rec.note(kind, path, mode, mutating)
                    return orig(path, *a, **k)
                return w
            return maker

        def mk2(kind: str) -> Callable[[Any], Any]:
            def maker(orig: Any) -> Any:
                def w(src: Any, dst: Any, *a: Any, **k: Any) -> Any:
                    rec.note(kind + ":src", src, rec.ENTRY, False)
                    rec.note(kind + ":dst", dst, rec.ENTRY, True)
                    return orig(src, dst, *a, **k)
                return w
            return maker

        wrap(builtins, "open", mk_open)
        io.open = builtins.open  # type: ignore[assignment]
        wrap(os, "open", mk_os_open)
        wrap(os, "listdir", mk1("listdir", self.FOLLOW, False))
        wrap(os, "scandir", mk1("scandir", self.FOLLOW, False))
        for nm in ("remove", "unlink", "rmdir"):
            wrap(os, nm, mk1(nm, self.ENTRY, False))
        wrap(os, "mkdir", mk1("mkdir", self.ENTRY, True))
        for nm in ("truncate", "chmod", "utime"):
            wrap(os, nm, mk1(nm, self.FOLLOW, False))
        for nm in ("rename", "replace", "link"):
            wrap(os, nm, mk2(nm))

        def mk_symlink(orig: Any) -> Any:
            def w(src: Any, dst: Any, *a: Any, **k: Any) -> Any:
                rec.note("symlink", dst, rec.ENTRY, True)
                return orig(src, dst, *a, **k)
            return w
        wrap(os, "symlink", mk_symlink)

    def uninstall(self) -> None:
        for (mod, name), orig in self._orig.items():
            setattr(mod, name, orig)
        io.open = builtins.open  # type: ignore[assignment]
        self._orig.clear()


# ------------------------------------------------------------------------------------------------
# the world: one layout built under <top>/p1/p2/p3/w  (abstract "/w"), canonical root = .../w/t
# ------------------------------------------------------------------------------------------------

_PARQUET_CACHE: Dict[str, bytes] = {}
_CONTENT_LOC: Dict[bytes, str] = {}


def _parquet_bytes(loc: str) -> bytes:
    if loc not in _PARQUET_CACHE:
        import pyarrow as pa
        import pyarrow.parquet as pq

        schema = pa.schema([pa.field("id", pa.int64(), nullable=False), pa.field("loc", pa.string())])
        buf = io.BytesIO()
        ident = int(hashlib.sha256(loc.encode()).hexdigest()[:8], 16)
        pq.write_table(pa.Table.from_pylist([{"id": ident, "loc": loc}], schema=schema), buf)
        _PARQUET_CACHE[loc] = buf.getvalue()
        _CONTENT_LOC[_PARQUET_CACHE[loc]] = loc
    return _PARQUET_CACHE[loc]


class World:
    def __init__(self, lay: Dict[str, Any], top: str) -> None:
        self.lay = lay
        self.name = lay["lay"]
        self.top = top
        self.fence = os.path.join(top, "p1")                      # everything reachable by <= 4 '..' stays below
        self.ws = os.path.join(self.fence, "p2", "p3", "w")
        self.wsa = "/p1/p2/p3/w"                                  # the workspace in the abstract world ("/" = top)
        self.base = self.conc("".join(lay["base"]))
        self.root = self.conc("".join(lay["root"]))
        self.nodes: Dict[str, Tuple[str, str]] = {}
        for n in lay["nodes"]:
            self.nodes["".join(n["loc"])] = (n["k"], "".join(n["tgt"]))
        self.expected: Dict[str, Tuple[str, Any]] = {}             # inside the root: rel -> (kind, bytes|target|None)
        self.sig: Dict[str, Tuple[int, int]] = {}
        self.build()

    # abstract <-> concrete
    def conc(self, s: str) -> str:
        if s == "/p1" or s.startswith("/p1/"):
            return self.top + s
        return s

    def abstract(self, path: str) -> str:
        if path == self.top or path.startswith(self.top + "/"):
            return path[len(self.top):] or "/"
        return path

    def inside(self, path: str) -> bool:
        return path == self.root or path.startswith(self.root + "/")

    def build(self) -> None:
        shutil.rmtree(self.fence, ignore_errors=True)
        self.expected = {}
        for loc in sorted(self.nodes, key=lambda s: (s.count("/"), s)):
            if loc == "/":
                continue
            if not loc.startswith("/p1"):
                raise MachineryError(f"layout node outside the fence: {loc}")
            kind, tgt = self.nodes[loc]
            path = self.conc(loc)
            if kind == "dir":
                os.makedirs(path, exist_ok=True)
                content: Any = None
            elif kind == "file":
                content = _parquet_bytes(loc)
                with open(path, "wb") as f:
                    f.write(content)
            else:
                content = self.conc(tgt)
                os.symlink(content, path)
            if self.inside(path) and path != self.root:
                self.expected[os.path.relpath(path, self.root)] = (kind, content)
        real = os.path.realpath(self.base)
        if real != self.root:
            raise MachineryError(f"layout {self.name}: base {self.base} resolves to {real}, expected {self.root}")
        self._resign()
        self.baseline = self.fingerprint()

    def adopt_inside(self) -> None:
        """Record whatever is inside the root now (e.g. a freshly created table) as the state to restore."""
        self.expected = {}
        for dirpath, dirnames, filenames in os.walk(self.root):
            for nm in dirnames + filenames:
                p = os.path.join(dirpath, nm)
                rel = os.path.relpath(p, self.root)
                if os.path.islink(p):
                    self.expected[rel] = ("link", os.readlink(p))
                elif os.path.isdir(p):
                    self.expected[rel] = ("dir", None)
                else:
                    with open(p, "rb") as f:
                        self.expected[rel] = ("file", f.read())
        self._resign()

    def _resign(self) -> None:
        self.sig = {}
        for rel, (kind, _c) in self.expected.items():
            if kind == "file":
                st = os.lstat(os.path.join(self.root, rel))
                self.sig[rel] = (st.st_size, st.st_mtime_ns)

    def _make(self, rel: str) -> None:
        kind, content = self.expected[rel]
        p = os.path.join(self.root, rel)
        if kind == "dir":
            os.makedirs(p, exist_ok=True)
        elif kind == "file":
            os.makedirs(os.path.dirname(p), exist_ok=True)
            with open(p, "wb") as f:
                f.write(content)
            st = os.lstat(p)
            self.sig[rel] = (st.st_size, st.st_mtime_ns)
        else:
            os.makedirs(os.path.dirname(p), exist_ok=True)
            os.symlink(content, p)

    @staticmethod
    def _rm(p: str) -> None:
        if os.path.islink(p) or not os.path.isdir(p):
            os.unlink(p)
        else:
            shutil.rmtree(p)

    def repair(self) -> int:
        """Restore the inside of the root to the recorded state; returns the number of repairs."""
        fixed = 0
        seen: Set[str] = set()
        if os.path.islink(self.root) or not os.path.isdir(self.root):
            if os.path.lexists(self.root):
                self._rm(self.root)
            os.mkdir(self.root)
            fixed += 1
        stack = [""]
        while stack:
            rel = stack.pop()
            d = os.path.join(self.root, rel) if rel else self.root
            with os.scandir(d) as it:
                entries = list(it)
            for e in entries:
                r = rel + "/" + e.name if rel else e.name
                exp = self.expected.get(r)
                if exp is None:
                    self._rm(e.path)
                    fixed += 1
                    continue
                kind = "link" if e.is_symlink() else ("dir" if e.is_dir(follow_symlinks=False) else "file")
                if kind != exp[0] or (kind == "link" and os.readlink(e.path) != exp[1]):
                    self._rm(e.path)
                    fixed += 1
                    continue                      # recreated below (not marked seen)
                seen.add(r)
                if kind == "file":
                    st = e.stat(follow_symlinks=False)
                    if (st.st_size, st.st_mtime_ns) != self.sig.get(r):
                        with open(e.path, "wb") as f:
                            f.write(exp[1])
                        st = os.lstat(e.path)
                        self.sig[r] = (st.st_size, st.st_mtime_ns)
                        fixed += 1
                elif kind == "dir":
                    stack.append(r)
        for r in sorted(set(self.expected) - seen, key=lambda s: (s.count("/"), s)):
            self._make(r)
            fixed += 1
        return fixed

    def fingerprint(self, deep: bool = False) -> Tuple[Any, ...]:
        """Everything below the fence that is NOT inside the canonical root: existence, type, size,
        mtime, inode, link target, directory listing (deep: content hash as well)."""
        out: List[Any] = []
        stack = [self.fence]
        while stack:
            d = stack.pop()
            with os.scandir(d) as it:
                entries = sorted(it, key=lambda e: e.name)
            out.append((d, tuple(e.name for e in entries)))
            for e in entries:
                if e.path == self.root:
                    continue
                st = e.stat(follow_symlinks=False)
                if e.is_symlink():
                    out.append((e.path, "l", os.readlink(e.path), st.st_ino))
                elif e.is_dir(follow_symlinks=False):
                    out.append((e.path, "d", st.st_mtime_ns, st.st_ino))
                    stack.append(e.path)
                else:
                    h = ""
                    if deep:
                        with open(e.path, "rb") as f:
                            h = hashlib.sha256(f.read()).hexdigest()
                    out.append((e.path, "f", st.st_size, st.st_mtime_ns, st.st_ino, h))
        return tuple(out)

    def outside_intact(self) -> bool:
        """Structure and content of the outside equal to what was built (ignores directory mtimes)."""
        for loc, (kind, tgt) in self.nodes.items():
            if loc == "/":
                continue
            p = self.conc(loc)
            if self.inside(p):
                continue
            if kind == "dir":
                if os.path.islink(p) or not os.path.isdir(p):
                    return False
                want = {os.path.basename(self.conc(l)) for l in self.nodes if l.rsplit("/", 1)[0] == loc}
                if set(os.listdir(p)) != want:
                    return False
            elif kind == "file":
                if os.path.islink(p) or not os.path.isfile(p):
                    return False
                with open(p, "rb") as f:
                    if f.read() != _parquet_bytes(loc):
                        return False
            else:
                if not os.path.islink(p) or os.readlink(p) != self.conc(tgt):
                    return False
        return True


# ------------------------------------------------------------------------------------------------
# replay of one call under the oracle
# ------------------------------------------------------------------------------------------------

def _benign_prefixes() -> Tuple[str, ...]:
    pref = {os.path.realpath(sys.prefix), os.path.realpath(sys.base_prefix), "/usr", "/lib", "/lib64", "/etc", "/proc", "/sys", "/dev/null",
            "/dev/urandom", "/dev/random"}
    src = os.environ.get("DATASHARD_SRC")
    if src:
        pref.add(os.path.realpath(src))
    return tuple(sorted(pref))


class _ReplayAborted(Exception):
    """Library calls keep hanging (watchdog fired repeatedly): the rest of the replay is skipped."""


class _CallTimeout(BaseException):
    """Raised by the watchdog inside a library call that does not come back (e.g. a walk following link cycles)."""


def _on_alarm(signum: int, frame: Any) -> None:
    raise _CallTimeout()


CALL_TIMEOUT_S = 10.0


class Oracle:
    """Runs one call with the recorder active and decides the property verdict."""

    def __init__(self, ctx: Ctx, world: World, rec: Recorder) -> None:
        self.ctx = ctx
        self.world = world
        self.rec = rec
        self.benign = _benign_prefixes()
        self.calls = 0
        self.since_fp = 0

    def _outside_events(self) -> List[Tuple[str, str]]:
        bad = []
        for kind, loc, existed, creating in self.rec.events:
            if self.world.inside(loc):
                continue
            if any(loc == b or loc.startswith(b + "/") for b in self.benign):
                continue
            # an existing outside object is opened / listed / removed / renamed / modified, or a new one is created
            # (mkdir of an existing directory - makedirs(exist_ok) walking up - changes nothing)
            if (existed and kind != "mkdir") or (creating and not existed):
                bad.append((kind, loc))
        return bad

    def call(self, fn: Callable[[], Any], mutating: bool) -> Dict[str, Any]:
        """Execute fn; returns {raised, exc, result, outside:[...], fp_changed}."""
        rec = self.rec
        rec.events = []
        out: Dict[str, Any] = {"raised": False, "exc": "", "msg": "", "result": None}
        rec.active = True
        signal.setitimer(signal.ITIMER_REAL, CALL_TIMEOUT_S)
        try:
            out["result"] = fn()
        except _CallTimeout:
            out["raised"] = True
            out["exc"] = "WatchdogTimeout"
            out["msg"] = f"call did not return within {CALL_TIMEOUT_S}s"
        except Exception as e:  # the library's verdict on the path, not ours
            out["raised"] = True
            out["exc"] = type(e).__name__
            out["msg"] = str(e)[:200]
        finally:
            signal.setitimer(signal.ITIMER_REAL, 0)
            rec.active = False
        out["outside"] = self._outside_events()
        self.calls += 1
        self.since_fp += 1
        out["fp_changed"] = False
        if mutating or out["outside"] or self.since_fp >= 200:
            self.since_fp = 0
            fp = self.world.fingerprint()
            if fp != self.world.baseline:
                out["fp_changed"] = True
                out["fp_diff"] = _fp_diff(self.world.baseline, fp, self.world)
        return out

    def recover(self, had_violation: bool) -> None:
        """After a mutating call / a violation: restore the inside, rebuild the world if the outside was damaged."""
        w = self.world
        if had_violation:
            if not w.outside_intact():
                exp = w.expected
                w.build()
                if exp.keys() != w.expected.keys():           # a table had been adopted: restore it
                    w.expected = exp
                    w.repair()
                    w._resign()
            w.repair()
            w.baseline = w.fingerprint()
        else:
            w.repair()


def _fp_diff(a: Tuple[Any, ...], b: Tuple[Any, ...], world: World) -> List[str]:
    sa, sb = set(a), set(b)
    return sorted({world.abstract(str(x[0])) for x in (sa ^ sb)})[:8]


def _identify(result: Any) -> Optional[str]:
    """Which sentinel's content a read returned (abstract location), if any."""
    if isinstance(result, (bytes, bytearray)):
        return _CONTENT_LOC.get(bytes(result))
    if isinstance(result, list) and result and isinstance(result[0], dict) and "loc" in result[0]:
        return str(result[0]["loc"])
    return None


def _path_class(world: World, case: Dict[str, Any], arrow: bool) -> str:
    p = world.conc("".join(case["p"]))
    joined = os.path.join(world.base, p.lstrip("/"))
    if os.path.realpath(joined) == world.root or (arrow and p.startswith("/") and os.path.realpath(p) == world.root):
        return KNOWN_ROOT_WRITE
    comps = case["comps"]
    feats = []
    if case["pre"] in ABS_PRES:
        feats.append("absolute-" + case["pre"])
    if any(c.startswith("ln_") for c in comps):
        feats.append("symlink")
    if ".." in comps:
        feats.append("dotdot")
    return "+".join(feats) or "plain"


def _layout_class(name: str) -> str:
    return {"A": "direct", "B": "symlinked-root", "C": "direct-chains", "D": "symlinked-root-abs"}[name]


def _read_close(f: Any) -> bytes:
    try:
        return f.read()
    finally:
        f.close()


def _lock_cycle(lp: Any) -> bool:
    got = lp.acquire()
    lp.release()
    return bool(got)


def _entries(world: World) -> Dict[str, Tuple[str, str, bool, Callable[[str], Any]]]:
    """name -> (resolver: res|arr, touch class, mutating, callable(path))."""
    from datashard import Schema
    from datashard.data_operations import DataFileManager
    from datashard.storage_backend import LocalStorageBackend

    sb = LocalStorageBackend(world.base)
    dfm = DataFileManager(None, sb)  # type: ignore[arg-type]
    schema = Schema(schema_id=1, fields=[{"id": 1, "name": "id", "type": "long", "required": True},
                                         {"id": 2, "name": "loc", "type": "string", "required": False}])
    rows = [{"id": 7, "loc": "written-by-c17"}]
    return {
        "_resolve_path": ("res", "stat", False, lambda p: sb._resolve_path(p)),
        "read_file": ("res", "read", False, lambda p: sb.read_file(p)),
        "open_file": ("res", "read", False, lambda p: _read_close(sb.open_file(p))),
        "open_seekable": ("res", "read", False, lambda p: _read_close(sb.open_seekable(p))),
        "read_json": ("res", "read", False, lambda p: sb.read_json(p)),
        "exists": ("res", "stat", False, lambda p: sb.exists(p)),
        "get_size": ("res", "stat", False, lambda p: sb.get_size(p)),
        "get_modified_time": ("res", "stat", False, lambda p: sb.get_modified_time(p)),
        "list_files": ("res", "list", False, lambda p: sb.list_files(p)),
        "write_file": ("res", "write", True, lambda p: sb.write_file(p, b"written-by-c17")),
        "write_json": ("res", "write", True, lambda p: sb.write_json(p, {"written": "by-c17"})),
        "delete_file": ("res", "delete", True, lambda p: sb.delete_file(p)),
        "makedirs": ("res", "mkdirs", True, lambda p: sb.makedirs(p)),
        "create_lock": ("res", "lock", True, lambda p: _lock_cycle(sb.create_lock(p, timeout=0.0))),
        "_get_arrow_path": ("arr", "stat", False, lambda p: dfm._get_arrow_path(p)),
        "open_parquet_source": ("arr", "read", False, lambda p: _read_close(dfm.open_parquet_source(p))),
        "read_data_file": ("arr", "read", False, lambda p: dfm.read_data_file(p)),
        "write_data_file": ("arr", "write", True, lambda p: dfm.write_data_file(p, rows, schema)),
    }


ROTATING = ["read_file", "open_file", "open_seekable", "read_json", "exists", "get_size", "get_modified_time", "list_files",
            "write_file", "write_json", "delete_file", "makedirs", "create_lock", "open_parquet_source", "read_data_file",
            "write_data_file"]


def _judge(ctx: Ctx, world: World, case: Dict[str, Any], entry: str, resolver: str, cls: str, r: Dict[str, Any],
           stats: Dict[str, int], where: str = "direct") -> bool:
    """Property verdict for one executed call.  Returns True if a violation was reported."""
    arrow = resolver == "arr"
    path = "".join(case["p"])
    esc = case["escArrow"] if arrow else case["esc"]
    bad = False
    ident = _identify(r["result"]) if not r["raised"] else None
    read_outside = ident is not None and ident.startswith("/p1") and not world.inside(world.conc(ident))
    if r["outside"] or r["fp_changed"] or read_outside:
        pc = _path_class(world, case, arrow)
        what = (f"{entry}({path!r}) on layout {world.name} ({_layout_class(world.name)}; table location {world.abstract(world.base)!r}, "
                f"canonical root /p1/p2/p3/w/t) touched objects OUTSIDE the root: "
                f"{[(k, world.abstract(l)) for k, l in r['outside'][:4]]}"
                + (f"; outside fingerprint changed at {r.get('fp_diff')}" if r["fp_changed"] else "")
                + (f"; returned the content of {ident}" if read_outside else "")
                + (f"; call raised {r['exc']}" if r["raised"] else "; call returned normally"))
        ctx.violation(f"outside-touched:{entry}:{pc}", what,
                      {"mode": where, "layout": world.lay, "case": case, "entry": entry, "observed": _jsonable(r)})
        bad = True
    if esc and not r["raised"]:
        pc = _path_class(world, case, arrow)
        what = (f"{entry}({path!r}) on layout {world.name} ({_layout_class(world.name)}): the path designates "
                f"an object / creatable name outside the canonical root (reference reading) but the call did not raise"
                + (f"; it returned the content of {ident}" if ident else f"; result {str(r['result'])[:80]!r}"))
        ctx.violation(f"escape-accepted:{entry}:{pc}", what,
                      {"mode": where, "layout": world.lay, "case": case, "entry": entry, "observed": _jsonable(r)})
        bad = True
    # --- model drift (never a verdict) ---
    rej_model = case["arrRej"] if arrow else case["resRej"]
    if cls == "write" and (case["arrRoot"] if arrow else case["resRoot"]):
        rej_model = True                      # refused by the root-write guard (storage_backend.py:244, data_operations.py:450)
    rej_real = r["raised"] and r["exc"] == "ValueError" and "Security Error" in r["msg"]
    def drift(kind: str, model: Any, real: Any) -> None:
        stats[kind] += 1
        ex = stats.setdefault("drift_examples", [])
        if len(ex) < 8:
            ex.append({"kind": kind, "lay": world.name, "path": path, "entry": entry, "model": model, "real": real})

    if rej_model != rej_real and not (entry == "list_files" and case["listRej"] == rej_real):
        drift("drift_reject", rej_model, r["exc"] or "returned")
    elif not r["raised"]:
        node = case["arrNode"] if arrow else case["resNode"]
        full = "".join(case["arrFull"] if arrow else case["resFull"])
        if entry in ("_resolve_path", "_get_arrow_path"):
            # (an absolute-prefixed spelling read as table-relative nests the workspace prefix, whose depth differs
            #  between the abstract and the concrete world: both land on a non-existing inside location; not compared)
            nested = (not arrow) and case["pre"] in ABS_PRES
            if full.startswith("/p1") and not nested and r["result"] != world.conc(full):
                drift("drift_full", full, world.abstract(str(r["result"])))
        elif entry == "list_files":
            want = sorted("".join(x) for x in case["listOut"])
            if sorted(r["result"]) != want:
                drift("drift_list", want, sorted(r["result"]))
        elif cls == "read" and ident is not None:
            if "".join(node["loc"]) != ident:
                drift("drift_node", "".join(node["loc"]), ident)
        elif entry == "exists":
            if bool(r["result"]) != (node["st"] == "ok"):
                drift("drift_node", node["st"], r["result"])
    return bad


def _jsonable(r: Dict[str, Any]) -> Dict[str, Any]:
    out = dict(r)
    res = out.get("result")
    if isinstance(res, (bytes, bytearray)):
        out["result"] = f"<{len(res)} bytes; sentinel={_CONTENT_LOC.get(bytes(res))}>"
    else:
        out["result"] = repr(res)[:300]
    return out


def _nontrivial(case: Dict[str, Any]) -> bool:
    return bool(case["resRej"] or case["arrRej"] or case["esc"] or case["pre"] in ABS_PRES
                or any(c in ("..", "ln_out", "ln_outf", "ln_in", "t2", "") for c in case["comps"]))


def _direct(ctx: Ctx, layouts: Dict[str, Dict[str, Any]], cases: List[Dict[str, Any]], rec: Recorder, full_depth: int,
            seed: int, stats: Dict[str, int], deep_entries: int = 4) -> int:
    """Every case x entry point (cases deeper than full_depth: the two resolvers + `deep_entries` rotating entry points)."""
    n = 0
    by_lay: Dict[str, List[Dict[str, Any]]] = {}
    for c in cases:
        by_lay.setdefault(c["lay"], []).append(c)
    for name in sorted(by_lay):
        top = scratch_dir("c17w")
        world = World(layouts[name], top)
        oracle = Oracle(ctx, world, rec)
        entries = _entries(world)
        seen: Set[str] = set()
        r_ = rng(seed, "c17-rotate", name)
        try:
            for case in by_lay[name]:
                path = world.conc("".join(case["p"]))
                if path in seen:
                    stats["duplicate_spellings"] += 1
                    continue
                seen.add(path)
                if len(case["comps"]) <= full_depth:
                    todo = list(entries)
                else:
                    todo = ["_resolve_path", "_get_arrow_path"] + r_.sample(ROTATING, deep_entries)
                nontrivial = _nontrivial(case)
                for entry in todo:
                    resolver, cls, mutating, fn = entries[entry]
                    r = oracle.call(lambda: fn(path), mutating)
                    n += 1
                    ctx.count_case((name, path, entry), nontrivial=nontrivial)
                    bad = _judge(ctx, world, case, entry, resolver, cls, r, stats)
                    if bad or r["fp_changed"]:
                        oracle.recover(True)
                    elif mutating:
                        oracle.recover(False)
                    if not r["raised"]:
                        stats["accepted_calls"] += 1
                    else:
                        stats["raised_calls"] += 1
                        if r["exc"] == "WatchdogTimeout":
                            stats["watchdog_timeouts"] += 1
                            if stats["watchdog_timeouts"] >= 3:
                                raise _ReplayAborted()
            # closing deep fingerprint: content hashes of everything outside
            if not world.outside_intact():
                ctx.violation(f"outside-touched:batch:{_layout_class(name)}", f"layout {name}: outside tree differs from what was built after the replay batch",
                              {"mode": "direct-batch", "layout": world.lay})
        finally:
            shutil.rmtree(top, ignore_errors=True)
    return n


# ------------------------------------------------------------------------------------------------
# end to end: a real table inside the layout, tampered metadata
# ------------------------------------------------------------------------------------------------

def _schema() -> Any:
    from datashard import Schema

    return Schema(schema_id=1, fields=[{"id": 1, "name": "id", "type": "long", "required": True},
                                       {"id": 2, "name": "loc", "type": "string", "required": False}])


class TableFixture:
    def __init__(self, world: World) -> None:
        from datashard import create_table

        self.world = world
        t = create_table(world.base, _schema())
        t.append_records([{"id": 1, "loc": "live-1"}])
        t.append_records([{"id": 2, "loc": "live-2"}])
        world.adopt_inside()
        metas = sorted((f for f in os.listdir(os.path.join(world.root, "metadata")) if f.endswith(".metadata.json")),
                       key=lambda f: int(f[1:].split("-")[0].split(".")[0]))
        self.meta_rel = "metadata/" + metas[-1]
        with open(os.path.join(world.root, self.meta_rel)) as f:
            self.meta = json.load(f)
        snap = [s for s in self.meta["snapshots"] if s["snapshot_id"] == self.meta["current_snapshot_id"]][0]
        self.snapshot_id = snap["snapshot_id"]
        self.list_rel = snap["manifest_list"].lstrip("/")
        self.manifests = t.file_manager.read_manifest_list_file(self.list_rel)
        self.manifest_rel = self.manifests[-1].manifest_path.lstrip("/")
        self.live = sorted(r["loc"] for r in t.scan())
        if self.live != ["live-1", "live-2"]:
            raise MachineryError(f"fixture table does not scan back: {self.live}")

    def open(self) -> Any:
        from datashard.transaction import Table

        return Table(self.world.base, create_if_not_exists=False)

    def _write(self, rel: str, data: bytes) -> None:
        p = os.path.join(self.world.root, rel)
        os.makedirs(os.path.dirname(p), exist_ok=True)
        with open(p, "wb") as f:
            f.write(data)

    def tamper_manifest_entry(self, path: str, with_checksum: bool) -> None:
        entry = {"file_path": path, "file_format": "parquet", "partition_values": {}, "record_count": 1,
                 "file_size_in_bytes": 100}
        if with_checksum:
            entry["checksum"] = "0" * 64
        self._write(self.manifest_rel, json.dumps({"files": [entry]}).encode())

    def tamper_manifest_list_entry(self, path: str) -> None:
        e = {"manifest_path": path, "manifest_length": 10, "partition_spec_id": 0, "added_snapshot_id": self.snapshot_id,
             "added_data_files_count": 1, "existing_data_files_count": 0, "deleted_data_files_count": 0, "content": 0}
        self._write(self.list_rel, json.dumps({"manifests": [e]}).encode())

    def tamper_snapshot_list(self, path: str) -> None:
        meta = json.loads(json.dumps(self.meta))
        for s in meta["snapshots"]:
            if s["snapshot_id"] == self.snapshot_id:
                s["manifest_list"] = path
        self._write(self.meta_rel, json.dumps(meta, indent=2).encode())

    def tamper_marker(self, path: str, old: bool) -> None:
        rel = "metadata/inflight/c17probe.parquet.inflight"
        self._write(rel, json.dumps({"file_path": path}).encode())
        if old:
            os.utime(os.path.join(self.world.root, rel), (1.0, 1.0))


def _e2e_ops(fx: TableFixture, kind: str, path: str) -> List[Tuple[str, str, bool, Callable[[], Any]]]:
    """(op name, resolver used for the escape verdict, must_raise_if_escaping, thunk)."""
    from datashard.data_structures import DataFile, FileFormat

    def scan(verify: bool) -> Any:
        return fx.open().scan(verify_checksums=verify)

    def batches(verify: bool) -> Any:
        out: List[Any] = []
        for b in fx.open().scan_batches(verify_checksums=verify):
            out.extend(b)
        return out

    def gc() -> Any:
        return fx.open().garbage_collect(grace_period_ms=0)

    def append() -> Any:
        return fx.open().append_records([{"id": 3, "loc": "appended"}])

    def delete_commit() -> Any:
        t = fx.open()
        tx = t.new_transaction().begin()
        tx.delete_files(["data/nonexistent.parquet", path])
        return tx.commit()

    def append_files() -> Any:
        t = fx.open()
        tx = t.new_transaction().begin()
        tx.append_files([DataFile(file_path=path, file_format=FileFormat.PARQUET, partition_values={}, record_count=1, file_size_in_bytes=100)])
        return tx.commit()

    def register() -> Any:
        t = fx.open()
        tx = t.new_transaction().begin()
        try:
            return tx._register_inflight(path)
        finally:
            tx.rollback()

    def gc_listing() -> Any:
        t = fx.open()
        real = t.storage.list_files
        t.storage.list_files = lambda prefix: ([path] if prefix == "data" else real(prefix))  # type: ignore[method-assign]
        return t.garbage_collect(grace_period_ms=0)

    if kind == "manifest-entry":          # data-file path in a manifest entry, no checksum -> open_parquet_source
        return [("scan", "arr", True, lambda: scan(False)), ("scan_batches", "arr", True, lambda: batches(False)),
                ("garbage_collect", "res", False, gc), ("delete_files+commit", "res", False, delete_commit)]
    if kind == "manifest-entry-checksum":  # ... with checksum -> storage.read_file(lstrip('/'))
        return [("scan", "res", True, lambda: scan(True)), ("scan_batches", "res", True, lambda: batches(True))]
    if kind == "manifest-path":
        return [("scan", "res", True, lambda: scan(False)), ("garbage_collect", "res", False, gc),
                ("delete_files+commit", "res", True, delete_commit)]
    if kind == "snapshot-manifest-list":
        return [("scan", "res", True, lambda: scan(False)), ("garbage_collect", "res", False, gc), ("append_records", "res", True, append)]
    if kind == "marker-payload":
        return [("garbage_collect", "res", False, gc)]
    if kind == "marker-payload-old":
        return [("garbage_collect", "res", False, gc)]
    if kind == "listing":
        return [("garbage_collect", "res", False, gc_listing)]
    if kind == "api":
        return [("append_files+commit", "res", True, append_files), ("_register_inflight", "res", False, register)]
    raise MachineryError(kind)


def _tamper(fx: TableFixture, kind: str, path: str) -> None:
    if kind in ("manifest-entry", "manifest-entry-checksum"):
        fx.tamper_manifest_entry(path, kind.endswith("checksum"))
    elif kind == "manifest-path":
        fx.tamper_manifest_list_entry(path)
    elif kind == "snapshot-manifest-list":
        fx.tamper_snapshot_list(path)
    elif kind.startswith("marker-payload"):
        fx.tamper_marker(path, kind.endswith("old"))


E2E_KINDS = ["manifest-entry", "manifest-entry-checksum", "manifest-path", "snapshot-manifest-list", "marker-payload",
             "marker-payload-old", "listing", "api"]


def _e2e(ctx: Ctx, layouts: Dict[str, Dict[str, Any]], cases: List[Dict[str, Any]], rec: Recorder, per_layout: int, seed: int,
         stats: Dict[str, int]) -> int:
    n = 0
    for name in LAYOUTS:
        mine = [c for c in cases if c["lay"] == name]
        # a fixed core of classic spellings, a seeded sample of the short ones and of deeper escaping / accepted ones
        core_spellings = {"", "..", "../f", "/../f", "ln_out", "ln_outf", "ln_out/f", "data/ln_outf", "../t2/f", "data/../../f", "f", "data/f", "/data/f"}
        core = [c for c in mine if "".join(c["p"]) in core_spellings]
        short = [c for c in mine if len(c["comps"]) <= 1]
        deep = [c for c in mine if len(c["comps"]) > 1]
        r_ = rng(seed, "c17-e2e", name)
        esc = [c for c in deep if c["esc"]]
        acc = [c for c in deep if not c["esc"]]
        k = max(0, per_layout - len(core))
        chosen = (core + r_.sample(short, min(len(short), k // 2)) + r_.sample(esc, min(len(esc), k // 3))
                  + r_.sample(acc, min(len(acc), k - k // 2 - k // 3)))
        top = scratch_dir("c17e")
        world = World(layouts[name], top)
        try:
            try:
                fx = TableFixture(world)
            except Exception as e:        # the (possibly mutated) library cannot even build a table in this layout
                stats["e2e_fixture_failures"].append(f"{name}: {type(e).__name__}: {str(e)[:160]}")
                continue
            world.baseline = world.fingerprint()
            oracle = Oracle(ctx, world, rec)
            # control: untampered table, GC with grace 0 keeps the live rows and touches nothing outside
            r = oracle.call(lambda: fx.open().garbage_collect(grace_period_ms=0), True)
            if r["outside"] or r["fp_changed"]:
                ctx.violation(f"outside-touched:e2e-control-gc:{_layout_class(name)}", f"garbage_collect on an untampered table in layout {name} touched {r['outside'][:4]} {r.get('fp_diff')}",
                              {"mode": "e2e-control", "layout": world.lay, "observed": _jsonable(r)})
            rows = sorted(x["loc"] for x in fx.open().scan())
            if rows != fx.live:
                stats["e2e_control_rows_lost"] += 1
            oracle.recover(bool(r["outside"] or r["fp_changed"]))
            seen: Set[str] = set()
            for case in chosen:
                path = world.conc("".join(case["p"]))
                if path in seen:
                    continue
                seen.add(path)
                for kind in E2E_KINDS:
                    for op, resolver, must_raise, thunk in _e2e_ops(fx, kind, path):
                        _tamper(fx, kind, path)        # (re-applied for every operation: recover() restores the table)
                        r = oracle.call(thunk, True)
                        n += 1
                        ctx.count_case((name, path, kind, op), nontrivial=_nontrivial(case))
                        entry = f"{kind}/{op}"
                        arrow = resolver == "arr"
                        esc_flag = case["escArrow"] if arrow else case["esc"]
                        bad = False
                        rows_out = r["result"] if isinstance(r["result"], list) else []
                        leaked = sorted({str(x.get("loc")) for x in rows_out if isinstance(x, dict) and str(x.get("loc", "")).startswith("/p1")
                                         and not world.inside(world.conc(str(x.get("loc"))))})
                        if r["outside"] or r["fp_changed"] or leaked:
                            pc = _path_class(world, case, arrow)
                            ctx.violation(f"outside-touched:{entry}:{pc}",
                                          f"{op} with tampered {kind} = {''.join(case['p'])!r} on layout {name} ({_layout_class(name)}) touched objects outside the root: "
                                          f"{[(k_, world.abstract(l)) for k_, l in r['outside'][:4]]} fp={r.get('fp_diff')} leaked_rows={leaked}",
                                          {"mode": "e2e", "layout": world.lay, "case": case, "kind": kind, "op": op, "observed": _jsonable(r)})
                            bad = True
                        if must_raise and esc_flag and not r["raised"]:
                            pc = _path_class(world, case, arrow)
                            ctx.violation(f"escape-accepted:{entry}:{pc}",
                                          f"{op} with tampered {kind} = {''.join(case['p'])!r} on layout {name}: the path designates an object outside the root but the operation did not raise (result {str(r['result'])[:80]!r})",
                                          {"mode": "e2e", "layout": world.lay, "case": case, "kind": kind, "op": op, "observed": _jsonable(r)})
                            bad = True
                        stats["e2e_raised" if r["raised"] else "e2e_returned"] += 1
                        if r["exc"] == "WatchdogTimeout":
                            stats["watchdog_timeouts"] += 1
                            if stats["watchdog_timeouts"] >= 3:
                                raise _ReplayAborted()
                        oracle.recover(bad or r["fp_changed"])
            if not world.outside_intact():
                ctx.violation(f"outside-touched:e2e-batch:{_layout_class(name)}", f"layout {name}: outside tree differs after the end-to-end batch",
                              {"mode": "e2e-batch", "layout": world.lay})
        finally:
            shutil.rmtree(top, ignore_errors=True)
    return n


# ------------------------------------------------------------------------------------------------
# driver
# ------------------------------------------------------------------------------------------------

def _sysroot_guard() -> Callable[[], List[str]]:
    """Safety net for runs against a MUTATED library: true absolute readings such as '/f' or '//data/f'
    could create objects under the real filesystem root.  Whatever was not there at start is removed."""
    before: Dict[str, Optional[Set[str]]] = {}
    for nm in _SYSROOT_NAMES:
        p = "/" + nm
        if not os.path.lexists(p):
            before[nm] = None
        elif os.path.isdir(p) and not os.path.islink(p):
            before[nm] = set(os.listdir(p))
        else:
            before[nm] = set()

    def cleanup() -> List[str]:
        junk = []
        for nm, kids in before.items():
            p = "/" + nm
            if not os.path.lexists(p):
                continue
            if kids is None:
                victims = [p]
            elif os.path.isdir(p) and not os.path.islink(p):
                victims = [os.path.join(p, k) for k in os.listdir(p) if k not in kids]
            else:
                victims = []
            for v in victims:
                junk.append(v)
                try:
                    World._rm(v)
                except OSError:
                    pass
        return junk
    return cleanup


def _companion_run(sample_file: str, depth: int) -> tlc.TLCResult:
    """One small TLC run (CompSpec): for the defect, the repair and every code variant, whether the
    theorems hold / fail on the depth-`depth` grid.  Single state; the verdict record is printed."""
    cfg = tlc.make_cfg(spec="CompSpec", constants=dict(AS_IS, MaxDepth=depth, AbsDepth=1), invariants=["CompanionOK"], check_deadlock=False)
    return tlc.run_tlc("MC_PathRes", cfg, env={"VERIF_SAMPLE": sample_file}, timeout_s=600, workers=1,
                       label=f"MC_PathRes CompSpec (defect / repair / variants on the depth-{depth} grid)")


def _companions(ctx: Ctx, res: tlc.TLCResult) -> None:
    ctx.add_tlc(res)
    verdict: Dict[str, bool] = {}
    for line in res.stdout.splitlines():
        if line.startswith('"{') and "preFixStrictConfinedFails" in line:
            verdict = json.loads(json.loads(line))
    if not verdict:
        raise MachineryError(f"companion run printed no verdict record:\n{res.stdout[-2000:]}")
    ctx.cov["companion_verdict"] = verdict
    wrong = sorted(k for k, v in verdict.items() if not v)
    if wrong == ["asIsAllHold"]:
        ctx.violation("model:asIsAllHold", "TLC (CompSpec): a theorem fails on the small grid for the code as it is", res.stdout[-3000:])
        return
    if not res.ok or wrong:
        raise MachineryError(f"anti-vacuity / defect companion failed: {wrong or res.violated}\n{res.stdout[-2000:]}")
    ctx.cov["anti_vacuity"] = sorted(k for k in verdict if k.endswith("Caught") or k.startswith("reaches") or k == "preFixStrictConfinedFails")
    ctx.cov["defect_and_repair_modelled"] = ("finding C17-write-to-root (repaired in /repo 409b145): with VRootGuard=FALSE the strict Confined fails, exactly on "
                                            "writes resolving to the root itself; with VRootGuard=TRUE (the code as it is) it holds")


def _quiet() -> None:
    import datashard  # noqa: F401  (its import configures the logger; silence it afterwards)

    lg = logging.getLogger("datashard")
    lg.handlers.clear()
    lg.addHandler(logging.NullHandler())
    lg.propagate = False
    lg.setLevel(logging.CRITICAL + 1)


def run(ctx: Ctx) -> None:
    quick = ctx.tier == "quick"
    _quiet()
    work = scratch_dir("c17")
    sample_file = os.path.join(work, "sample.ndjson")
    layouts_file = os.path.join(work, "layouts.json")
    empty_file = os.path.join(work, "empty.ndjson")
    open(empty_file, "w").close()
    as_is = dict(AS_IS)
    invariants = list(MAIN_INVARIANTS)
    if quick:
        sample = _sample_cases(ctx.seed, 1500, 3, 4)
        consts = dict(as_is, MaxDepth=2, AbsDepth=1)
    else:
        sample = _sample_cases(ctx.seed, 3000, 3, 4)            # absolute prefixes and trailing slashes at depth 3-4 (rest duplicates the grid)
        consts = dict(as_is, MaxDepth=4, AbsDepth=2, DeepTrail=False)   # depth 4 without the trailing-slash twins (covered to depth 3)
    with open(sample_file, "w") as f:
        for c in sample:
            f.write(json.dumps(c) + "\n")

    # companions run in the background while the main model is checked
    with ThreadPoolExecutor(max_workers=1) as bg:
        comp = bg.submit(_companion_run, empty_file, 1 if quick else 2)
        res = _tlc(f"MC_PathRes as-is MaxDepth={consts['MaxDepth']} AbsDepth={consts['AbsDepth']} sample={len(sample)}", consts,
                   invariants, sample_file, layouts_file, workers=4 if quick else 6, timeout_s=1500)
        ctx.add_tlc(res)
        _companions(ctx, comp.result())
    if not res.ok:
        ctx.violation("model:" + "+".join(res.violated or ["error"]),
                      f"TLC: {res.violated} violated in the path-resolution model (transcription of _resolve_path/_get_arrow_path/list_files)",
                      res.error_trace[:6000])
        return
    cases = _parse_export(res.stdout)
    if len(cases) * 2 != res.distinct:
        raise MachineryError(f"exported {len(cases)} cases but TLC found {res.distinct} states (2 per case expected)")
    with open(layouts_file) as f:
        layouts = {l["lay"]: l for l in json.load(f)}
    res.stdout = ""            # free memory
    ctx.cov["cases_exported"] = len(cases)
    ctx.cov["model_rejected"] = sum(1 for c in cases if c["resRej"])
    ctx.cov["model_escaping"] = sum(1 for c in cases if c["esc"])
    ctx.cov["model_root_itself"] = sum(1 for c in cases if "".join(c["resFull"]) == "/p1/p2/p3/w/t" and not c["resRej"])

    stats: Dict[str, Any] = {k: 0 for k in ("drift_reject", "drift_full", "drift_list", "drift_node", "duplicate_spellings", "accepted_calls",
                                             "raised_calls", "e2e_raised", "e2e_returned", "e2e_control_rows_lost", "watchdog_timeouts")}
    stats["e2e_fixture_failures"] = []
    cleanup = _sysroot_guard()
    rec = Recorder()
    rec.install()
    old_alarm = signal.signal(signal.SIGALRM, _on_alarm)
    t0 = time.time()
    n1 = n2 = 0
    t1 = t2 = t0
    try:
        n1 = _direct(ctx, layouts, cases, rec, full_depth=2 if quick else 3, seed=ctx.seed, stats=stats, deep_entries=4 if quick else 3)
        t1 = time.time()
        n2 = _e2e(ctx, layouts, cases, rec, per_layout=34 if quick else 250, seed=ctx.seed, stats=stats)
        t2 = time.time()
    except _ReplayAborted:
        ctx.cov["replay_aborted"] = "library calls kept hanging (3 watchdog timeouts); remaining replay skipped"
        n1 = ctx.cov["evaluations"]
    finally:
        signal.setitimer(signal.ITIMER_REAL, 0)
        signal.signal(signal.SIGALRM, old_alarm)
        rec.uninstall()
        junk = cleanup()
    if junk:
        ctx.violation("outside-touched:system-root", f"objects were created directly under the filesystem root: {junk}", {"junk": junk})
    if stats["accepted_calls"] == 0 or stats["raised_calls"] == 0:
        raise MachineryError("vacuous replay: no accepted or no rejected call")
    if stats["e2e_fixture_failures"] and not ctx.violations:
        raise MachineryError(f"the end-to-end fixture table could not be built: {stats['e2e_fixture_failures']}")
    if (stats["watchdog_timeouts"] or stats["e2e_control_rows_lost"]) and not ctx.violations:
        raise MachineryError(f"replay anomalies without a property verdict: {stats['watchdog_timeouts']} watchdog timeouts, "
                             f"{stats['e2e_control_rows_lost']} control scans that lost rows")
    ctx.count_traces(n1 + n2)
    ctx.cov["direct_calls"] = n1
    ctx.cov["e2e_operations"] = n2
    ctx.cov["replay_wall_s"] = {"direct": round(t1 - t0, 1), "e2e": round(t2 - t1, 1)}
    ctx.cov["model_drift_notes"] = {k: v for k, v in stats.items() if k.startswith("drift")}
    ctx.cov["replay_stats"] = {k: v for k, v in stats.items() if not k.startswith("drift")}
    ctx.cov["exhaustive"] = not quick
    ctx.cov["exhaustive_note"] = "grid complete up to the stated depth; deeper cases are a seeded sample" if quick else "grid complete to depth 4"
    ctx.rule("cases = TLC phase-1 states of MC_PathRes (layout x prefix x component sequence x trailing slash), de-duplicated by concrete "
             "spelling; each executed against every entry point (deep cases: both resolvers + 3-4 rotating entry points); non-trivial = "
             "rejected/escaping in the model or containing '..', an empty component, a symlink name, t2 or an absolute prefix; distinct by "
             "(layout, spelling, entry point)")
    for c in (cases[0], cases[len(cases) // 3], cases[len(cases) // 2]):
        ctx.sample({"layout": c["lay"], "path": "".join(c["p"]), "model": {"rejected": c["resRej"], "full": "".join(c["resFull"]), "escaping": c["esc"],
                                                                            "arrow_rejected": c["arrRej"]}})
    ctx.assume("table locations are absolute paths (relative locations are covered by C05's spellings)",
               "no symlink loops in the layouts (chains of <= 3 links, dangling links, links to the root itself are included)",
               "POSIX semantics of the kernel walk are those of Linux tmpfs; the reference KWalk mirrors them and is re-checked by the replay",
               "content reads performed inside C extensions are not seen by the recorder (pyarrow is only handed Python file objects on the "
               "local read path); writes by C extensions are caught by the outside fingerprint",
               "names directly under the filesystem root that the grammar can spell (/f, /t2, ...) do not exist on this machine")


def replay(ctx: Ctx, path: str) -> None:
    """Re-execute one recorded violation against the current library."""
    _quiet()
    with open(path) as f:
        payload = json.load(f)["replay"]
    if not isinstance(payload, dict) or payload.get("mode") not in ("direct", "e2e"):
        print("replay: payload is a TLC trace or batch result; re-run the check instead")
        return
    rec = Recorder()
    rec.install()
    signal.signal(signal.SIGALRM, _on_alarm)
    top = scratch_dir("c17r")
    stats: Dict[str, Any] = {k: 0 for k in ("drift_reject", "drift_full", "drift_list", "drift_node")}
    try:
        world = World(payload["layout"], top)
        oracle = Oracle(ctx, world, rec)
        case = payload["case"]
        p = world.conc("".join(case["p"]))
        if payload["mode"] == "direct":
            resolver, cls, mutating, fn = _entries(world)[payload["entry"]]
            r = oracle.call(lambda: fn(p), True)
            _judge(ctx, world, case, payload["entry"], resolver, cls, r, stats)
            print(json.dumps(_jsonable(r), indent=1, default=str))
        else:
            fx = TableFixture(world)
            world.baseline = world.fingerprint()
            kind = payload["kind"]
            _tamper(fx, kind, p)
            for op, resolver, must_raise, thunk in _e2e_ops(fx, kind, p):
                if op == payload["op"]:
                    r = oracle.call(thunk, True)
                    print(json.dumps(_jsonable(r), indent=1, default=str))
                    if r["outside"] or r["fp_changed"]:
                        ctx.violation(f"outside-touched:{kind}/{op}:{_path_class(world, case, resolver == 'arr')}", "replayed: outside touched", payload)
                    if must_raise and (case["escArrow"] if resolver == "arr" else case["esc"]) and not r["raised"]:
                        ctx.violation(f"escape-accepted:{kind}/{op}:{_path_class(world, case, resolver == 'arr')}", "replayed: escaping path accepted", payload)
    finally:
        rec.uninstall()
        shutil.rmtree(top, ignore_errors=True)
