"""C15 - Table metadata stays well-formed through every history.

Specification: spec/Metadata.tla (transcriptions of repoint / expire mutator / retention / create_snapshot /
delete_snapshot / metadata log / _commit_file_ops + the reference predicates WellFormed, WellFormedStep,
FileOpsCorrect, NearestKept), spec/History.tla (sequential histories, ghost commit history),
spec/MC_Repoint.tla, spec/MC_History.tla, spec/MC_HistoryCases.tla.

1. MC_Repoint: TLC proves RepointCorrect (new parent = nearest kept TRUE ancestor or nothing) over ALL
   parent functions (cycles, self loops, dangling links, roots) of <= N snapshots x all kept subsets;
   companion with a wrong repointing must FAIL.  The exported table is replayed into the real
   repoint_parents_to_surviving_ancestors; verdict by the reference column.
2. MC_History: all histories up to a length bound over {append, multi-op transaction, delete, expire,
   delete-snapshot, retention property, metadata-log bound, tick}; WellFormed + step invariants after
   every step.  A second run adds a clock that can step BACK (out-of-commit-order timestamps for
   retention).  Companion: expiry without repointing must violate WellFormed.
3. MC_HistoryCases: TLC enumerates all histories of a short length + evaluates a seeded sample of long
   ones, exports the expected table after every step; each history is replayed on the real library
   under a virtual clock (harness/history_replay.py).  After every step the independent reader projects
   metadata JSON + manifests; the C15 predicates are evaluated on the REAL storage (verdict) and the
   projection is compared with the specification's (difference without a property failure = model drift).
"""
from __future__ import annotations

import json
import os
from typing import Any, Dict, List

from .. import history_replay as hr
from .. import tlc
from ..common import Ctx, MachineryError, rng, scratch_dir

LEVEL = "model_checking"

C15_INV = ["WellFormedInv", "StepInv"]


# ------------------------------------------------------------------------------------------------
# 1. repointing
# ------------------------------------------------------------------------------------------------
def _forest_class(par: List[int]) -> str:
    n = len(par)
    dangling = any(p == n + 1 for p in par)
    cyc = False
    for i in range(1, n + 1):
        seen, p = set(), par[i - 1]
        while 1 <= p <= n and p not in seen:
            seen.add(p)
            p = par[p - 1]
        if 1 <= p <= n:
            cyc = True
    return ("cycle" if cyc else "acyclic") + ("+dangling" if dangling else "")


def _repoint_differential(ctx: Ctx, rows: List[Dict[str, Any]]) -> int:
    from datashard.data_structures import Snapshot
    from datashard.snapshot_manager import repoint_parents_to_surviving_ancestors

    r = rng(ctx.seed, "c15-repoint")
    n_exec = drift = 0
    for row in rows:
        n, par = row["n"], row["par"]
        ids = r.sample(range(1, 1 << 62), n + 1)          # random 63-bit ids; ids[n] is the dangling id
        real_of = {i + 1: ids[i] for i in range(n + 1)}
        abs_of = {v: k for k, v in real_of.items()}
        cls = _forest_class(par)
        for mask in range(1 << n):
            none_as = None if (mask + n) % 2 == 0 else -1   # both spellings of "no parent"
            snaps = [Snapshot(snapshot_id=real_of[i], timestamp_ms=i, manifest_list=f"l{i}",
                              parent_snapshot_id=(none_as if par[i - 1] == 0 else real_of[par[i - 1]]))
                     for i in range(1, n + 1)]
            kept = [s for i, s in enumerate(snaps, 1) if (mask >> (i - 1)) & 1]
            if mask % 3 == 2:
                kept = list(reversed(kept))                 # retention passes survivors in another order
            repoint_parents_to_surviving_ancestors(snaps, kept)
            got = {abs_of[s.snapshot_id]: (0 if s.parent_snapshot_id in (None, -1) else abs_of.get(s.parent_snapshot_id, -99))
                   for s in kept}
            got_seq = [got[i] for i in sorted(got)]
            n_exec += 1
            ctx.count_case(("repoint", par, mask), nontrivial=(cls != "acyclic" or got_seq != [par[i - 1] for i in sorted(got)]))
            if got_seq != row["ref"][mask]:
                ctx.violation(f"repoint:{cls}",
                              f"forest parents={par} (0 = none, {n + 1} = dangling), kept={sorted(got)}: real repointing gives "
                              f"{got_seq}, nearest kept true ancestors are {row['ref'][mask]}",
                              {"kind": "repoint", "n": n, "par": par, "mask": mask})
            elif got_seq != row["model"][mask]:
                drift += 1
    ctx.cov["model_drift_notes"] = ctx.cov.get("model_drift_notes", 0) + drift
    return n_exec


def _repoint(ctx: Ctx, max_n: int) -> None:
    out = os.path.join(scratch_dir("c15rp"), "repoint.ndjson")
    cfg = tlc.make_cfg(spec="Spec", constants={"MaxN": max_n, "Variant": "code"}, invariants=["RepointCorrect"], postcondition="Export")
    res = tlc.run_tlc("MC_Repoint", cfg, env={"VERIF_OUT": out}, timeout_s=900, workers=6, label=f"MC_Repoint MaxN={max_n}")
    ctx.add_tlc(res)
    if not res.ok:
        ctx.violation("model:RepointCorrect", f"TLC: {res.violated} violated in MC_Repoint (transcription of repoint_parents_to_surviving_ancestors)", res.error_trace[:4000])
        return
    cfg0 = tlc.make_cfg(spec="Spec", constants={"MaxN": 3, "Variant": "grandparent"}, invariants=["RepointCorrect"])
    res0 = tlc.run_tlc("MC_Repoint", cfg0, timeout_s=300, workers=2, label="MC_Repoint grandparent variant (must fail)")
    if "RepointCorrect" not in res0.violated:
        raise MachineryError("anti-vacuity: the grand-parent repointing variant does not violate RepointCorrect")
    ctx.cov.setdefault("anti_vacuity", []).append("grand-parent repointing violates RepointCorrect as expected")
    rows = [json.loads(line) for line in open(out)]
    if len(rows) != res.distinct:
        raise MachineryError(f"exported {len(rows)} forests but TLC checked {res.distinct}")
    n_exec = _repoint_differential(ctx, rows)
    ctx.cov["repoint_forests"] = len(rows)
    ctx.cov["repoint_executions"] = n_exec
    ctx.count_traces(n_exec)
    ctx.sample({"repoint_case": rows[len(rows) // 2]})


# ------------------------------------------------------------------------------------------------
# 2 + 3. histories
# ------------------------------------------------------------------------------------------------
def run(ctx: Ctx) -> None:
    quick = ctx.tier == "quick"
    _repoint(ctx, 4 if quick else 5)

    # all histories, model only
    for mode, L, invs in (("c15", 4 if quick else 6, C15_INV + ["RetainedImmutable", "DeleteCurrentRepoints"]),
                          ("c15neg", 4 if quick else 5, C15_INV + ["DeleteCurrentRepoints"])):
        res = hr.check_model(ctx, mode, L, invs)
        ctx.add_tlc(res)
        if not res.ok:
            ctx.violation(f"model:{mode}:{','.join(res.violated) or 'error'}",
                          f"TLC: {res.violated} violated in MC_History mode={mode} (the model of the code as it is)", res.error_trace[:6000])
            return
    hr.expect_flaw_caught(ctx, "c15", 4, "no_repoint", "WellFormedInv")

    # histories replayed on the real library
    w = {"multi_a": 1.5, "multi_c": 1.5, "exp_all": 1.5, "exp_old": 1.5, "ds_oldest": 1.3, "ds_second": 1.3, "ds_current": 1.3,
         "append1": 2.0, "append2": 2.0, "del_first": 1.5, "tick1": 1.5}
    if quick:
        hr.check_histories(ctx, {"c15"}, "c15", 2, 120, 6, invariants=C15_INV, weights=w)
        hr.check_histories(ctx, {"c15"}, "c15neg", 0, 60, 7, invariants=C15_INV, weights=dict(w, tickneg=2.5, ret1=2.0, ret2=2.0))
    else:
        hr.check_histories(ctx, {"c15"}, "c15", 3, 1200, 7, invariants=C15_INV, weights=w, timeout_s=1800)
        hr.check_histories(ctx, {"c15"}, "c15neg", 2, 600, 8, invariants=C15_INV, weights=dict(w, tickneg=2.5, ret1=2.0, ret2=2.0))
    ctx.cov["exhaustive"] = True
    ctx.rule("cases = (a) TLC states of MC_Repoint: every parent function over <=N snapshots x every kept subset, each executed on the real "
             "repointing routine (non-trivial = cyclic/dangling forest or a parent actually rewritten); (b) histories exported by MC_HistoryCases "
             "(all of the exhaustive length + seeded sample of long ones), each replayed step by step on the real library "
             "(non-trivial = at least two different kinds of operation besides tick); distinct by (forest, kept) / operation sequence")
    ctx.assume("sequential histories (one committer at a time); concurrency is C01's subject",
               "the virtual clock replaces datetime.now()/time.time() in the library modules that stamp metadata; timestamps are whatever the history says, including equal and (c15neg) decreasing ones",
               "table properties are set through metadata_manager.commit(base, new) (there is no public setter)",
               "independent reader harness/project.py (json + fastavro + pyarrow) is trusted to parse what is on storage",
               "history length and alphabet are bounded: <=6 (thorough) for the model, <=8 for sampled replays; data files per append <=2")


def replay(ctx: Ctx, path: str) -> None:
    payload = json.load(open(path))["replay"]
    if payload.get("kind") == "repoint":
        row = {"n": payload["n"], "par": payload["par"]}
        out = os.path.join(scratch_dir("c15rp"), "repoint.ndjson")
        cfg = tlc.make_cfg(spec="Spec", constants={"MaxN": payload["n"], "Variant": "code"}, invariants=["RepointCorrect"], postcondition="Export")
        tlc.run_tlc("MC_Repoint", cfg, env={"VERIF_OUT": out}, timeout_s=900, workers=4)
        rows = [r for r in map(json.loads, open(out)) if r["n"] == row["n"] and r["par"] == row["par"]]
        _repoint_differential(ctx, rows)
        return
    clock = hr.VirtualClock()
    with clock:
        r = hr.replay_case({"ops": payload["ops"]}, clock, seed=ctx.seed)
    for v in r["violations"]:
        if v["cat"] == "c15":
            ctx.violation(v["sig"], f"history {json.dumps(payload['ops'])} step {v['step']}: {v['what']}", payload)
    ctx.count_traces(1)
