"""C10 - The version pointer is only a hint: losing or corrupting it never loses data.

Specification: spec/DataShard.tla pointer resolution (HintedName / BestSet / CanResolve = transcription
of _read_version_hint + _recover_version_from_files: highest version, newest write time among equals),
DamageHint (pointer file lost / overwritten with non-parsing bytes / naming a file that does not exist
incl. the legacy bare-number form / naming an older committed version), histories that leave
uncommitted metadata files behind (failed and conflicting commits, a committer that dies between the
metadata write and the pointer flip), followed by open/create, append and reads.
Invariants: ResolveLatestCommitted (with nothing in flight, whatever the pointer file holds, resolution
yields the latest COMMITTED version), NeverReinitialised, SingleInit, Serializable, ReachablePresent.

TLC: failed commit + every damage class + reopen + append (must hold with the repaired commit that removes
its metadata file on clean failure; must FAIL without it); two KNOWN FINDINGS kept as must-fail companions:
a stale well-formed pointer is trusted, and a committer that died after writing its metadata file leaves
a never-committed highest version that recovery surfaces once the pointer is lost.
Binding: on the real library a fault is injected at every scheduling point of a commit, then - with
nothing in flight - the pointer file is overwritten with each concrete byte string of the class grammar
(empty, whitespace, non-UTF-8, BOM, NUL, upper-case hex, 7 hex digits, negative number, free text,
dangling names with CRLF, legacy numbers incl. overlong, legacy names), then create_table/open, append
and a scan run; every trace is validated by TLC; the independent reader's final observation must equal
the model's storage.
"""
from __future__ import annotations

from typing import Any, Dict, List, Tuple

from .. import l1
from ..common import Ctx, MachineryError, rng
from ..l1 import DAMAGE_BYTES, ActorSpec as A, Scenario
from ..tlc import Raw
from . import c01

LEVEL = "model_checking"
INV = c01.INV + ["SingleInit", "NeverReinitialised", "ResolveLatestCommitted"]
ONE = dict(Actors=Raw("<- A1"), Role=Raw("<- Role_C1"), Idx=Raw("<- Idx_1"), Handle=Raw("<- Sep_1"))
FIX = dict(FixInterrupt=True, FixEtag=True, FixOrphanMeta=True)
KNOWN = {
    "stale-pointer": "a pointer file holding the well-formed name of an OLDER committed metadata version (stale pointer) is trusted as current: "
                     "open/create resolves to the old version and the next commit builds on it, dropping the newer commits",
    "crash-orphan-lost-pointer": "a committer that dies after writing its metadata file and before the pointer flip leaves a never-committed highest version; "
                                 "once the pointer file is lost or unreadable, recovery by scanning surfaces it (its data files may be gone)",
}


def mc_configs(quick: bool) -> List[Tuple[str, Dict[str, Any], bool]]:
    b = c01.mc_base
    dk = {"missing", "garbage", "dangling", "danglinglow"}
    c = [
        ("failed commit, then pointer lost/garbage/dangling, reopen, append", b(Prog=Raw("<- Prog_1AppCreateApp"), FaultKinds={"before"}, DamageKinds=dk, FaultBudget=2, **ONE, **FIX), True),
        ("conflicting commits on a CAS backend, then pointer damage", b(Prog=Raw("<- Prog_2App"), DamageKinds=dk, FaultBudget=1, Backend="s3cas", **FIX), True),
        ("[known finding, must fail] same root cause without a crash: a broken lock lets a second committer's recovery scan adopt the first one's in-flight metadata file",
         b(Prog=Raw("<- Prog_2App"), DamageKinds={"missing"}, FaultBudget=1, Backend="s3cas", LockKind="none", **FIX), False),
        ("append, pointer naming a missing LOWER version, append, pointer lost, reopen, append (CAS backend)",
         b(Prog=Raw("<- Prog_1AppCreateApp"), DamageKinds={"danglinglow", "missing"}, FaultBudget=2, Backend="s3cas", **ONE, **FIX), True),
        ("object storage: the metadata PUT lands but reports an error, then pointer lost, reopen, append",
         b(Prog=Raw("<- Prog_1AppCreateApp"), FaultKinds={"after"}, DamageKinds={"missing", "garbage"}, FaultBudget=2, Backend="s3cas", **ONE, **FIX), True),
        ("[must fail] metadata write outside the clean-failure handler",
         b(Prog=Raw("<- Prog_1AppCreateApp"), FaultKinds={"after"}, DamageKinds={"missing"}, FaultBudget=2, Backend="s3cas", **ONE, **dict(FIX, FixMetaInTry=False)), False),
        ("[must fail] commit that keeps its metadata file on clean failure", b(Prog=Raw("<- Prog_1AppCreateApp"), FaultKinds={"before"}, DamageKinds=dk, FaultBudget=2, **ONE, **dict(FIX, FixOrphanMeta=False)), False),
        ("[known finding, must fail] stale pointer", b(Prog=Raw("<- Prog_1AppCreateApp"), DamageKinds={"stale"}, FaultBudget=1, **ONE, **FIX), False),
        ("[known finding, must fail] crash after metadata write + lost pointer", b(Prog=Raw("<- Prog_CrashThenOpen"), DamageKinds={"missing"}, CrashOK=True, FaultBudget=2, **FIX), False),
    ]
    if not quick:
        c += [("conflicting commits, then pointer damage", b(Prog=Raw("<- Prog_2App"), DamageKinds=dk, FaultBudget=1, **FIX), True),
              ("failed commit + two damages", b(Prog=Raw("<- Prog_1AppCreateApp"), FaultKinds={"before"}, DamageKinds=dk, FaultBudget=3, **ONE, **FIX), True)]
    return c


def _validate_and_report(ctx: Ctx, batches: List[Tuple[Scenario, List[Dict[str, Any]], str]]) -> None:
    from concurrent.futures import ThreadPoolExecutor

    with ThreadPoolExecutor(max_workers=6) as tp:
        verdicts = list(tp.map(lambda b_: l1.validate(b_[0], b_[1]), batches))
    reproduced = set()
    for (scn, batch, kf), v in zip(batches, verdicts):
        ctx.add_tlc(v.res)
        for i, t in enumerate(batch):
            dmg = [e for e in t["events"] if e["k"] in ("Damage", "Fault", "Crash")]
            ctx.count_case((scn.name, [(e["a"], e["k"]) for e in t["events"]], [(e.get("kind"), e.get("op")) for e in dmg]), nontrivial=bool(dmg))
            ctx.count_traces(1)
            if v.accepted[i]:
                continue
            replay = {"scenario": scn.name, "schedule": t["schedule"], "outcomes": t["outcomes"], "errors": t["errors"]}
            kinds = [e.get("kind") for e in t["events"] if e["k"] == "Damage"]
            if kf:
                reproduced.add(kf)
                pos = (v.violated[i] or (v.reached[i], ""))[0]
                replay["events"] = t["events"][max(0, pos - 12):pos + 1]
                ctx.violation(kf, KNOWN[kf], replay)
            elif v.violated[i] is not None:
                pos, inv = v.violated[i]
                replay["events"] = t["events"][max(0, pos - 14):pos]
                ctx.violation(f"{inv}:{scn.name}:{kinds}", f"invariant {inv} violated by a real execution of {scn.name} with pointer damage {kinds} (outcomes {t['outcomes']})", replay)
            else:
                pos = v.reached[i]
                bad = t["events"][pos - 1] if 0 < pos <= len(t["events"]) else {}
                replay["events"] = t["events"][max(0, pos - 12):pos + 1]
                ctx.violation(f"nonconformance:{scn.name}:{kinds}:{bad.get('k')}",
                              f"real execution of {scn.name} with pointer damage {kinds} is not a behaviour of DataShard.tla: event {pos} "
                              f"{ {k: x for k, x in bad.items() if k not in ('obs', 'body')} }", replay)
    ctx.cov["known_findings_reproduced"] = sorted(reproduced)
    for kf in {b[2] for b in batches if b[2]} - reproduced:
        ctx.cov.setdefault("known_findings_not_reproduced", []).append(kf)


def run(ctx: Ctx) -> None:
    quick = ctx.tier == "quick"
    try:
        c01.run_mc(ctx, mc_configs(quick), INV)
        batches: List[Tuple[Scenario, List[Dict[str, Any]], str]] = []
        rd = A("r1", "reader", [{"t": "read", "api": "scan"}])
        kinds = sorted(DAMAGE_BYTES)
        r = rng(ctx.seed, "c10")
        for backend in ("local", "s3cas"):
            scn = Scenario(f"hint-damage-{backend}", [A("c1", "committer", [{"t": "append"}, {"t": "create"}, {"t": "append"}, {"t": "create"}, {"t": "append"}]), rd], backend=backend)
            steps = l1.solo_steps(scn)
            jobs: List[Tuple[str, Any]] = []
            first_op = steps["c1"] // 2
            for k in range(0, first_op + 4, 2 if quick else 1):
                ks = r.sample(kinds, 3 if quick else len(kinds))
                for kind in ks:
                    jobs.append(("list", [["c1", k], ["fault", "c1", "before", "oserror"], ["until", "c1", 1], ["env", "damage_" + kind], ["c1", 400], ["r1", 400]]))
            if backend != "local":
                # the metadata PUT lands and reports an error (placements at other requests are dropped below)
                for k in range(0, first_op + 4):
                    jobs.append(("list", [["c1", k], ["fault", "c1", "after", "oserror"], ["until", "c1", 1], ["env", "damage_" + r.choice(kinds)], ["c1", 400], ["r1", 400]]))
            for kind in kinds:      # every concrete byte string at least once, after a successful commit too
                jobs.append(("list", [["until", "c1", 1], ["env", "damage_" + kind], ["c1", 400], ["r1", 400]]))
                jobs.append(("list", [["until", "c1", 2], ["env", "damage_" + kind], ["c1", 400], ["r1", 400]]))
                # damaged, committed on, damaged again (lost): what the first commit wrote must win the second recovery
                jobs.append(("list", [["until", "c1", 1], ["env", "damage_" + kind], ["until", "c1", 3], ["env", "damage_missing"], ["c1", 400], ["r1", 400]]))
            traces = l1.run_many(scn, jobs)
            for t in traces:
                if t.get("harness_error"):
                    raise MachineryError(f"execution of {scn.name} failed in the harness: {t['harness_error']}")

            def usable(t: Dict[str, Any]) -> bool:
                evs = t["events"]
                fi = next((i for i, e in enumerate(evs) if e["k"] == "Fault"), None)
                ri = next((i for i, e in enumerate(evs) if e["k"] == "Ret" and e["a"] == "c1"), len(evs))
                if fi is not None and fi > ri:
                    return False                 # the fault fell into a later operation: not this scenario
                if fi is not None and evs[fi].get("when") == "after" and not (evs[fi].get("cls") == "meta" and evs[fi].get("op") == "write_file"):
                    return False                 # after-effect faults are modelled at the metadata write (here) and the pointer write (C04)
                return "ambiguous" not in t["outcomes"].get("c1", [])   # possibly-committed versions: see assumptions

            traces = [t for t in traces if usable(t)]
            for lo in range(0, len(traces), 120):
                batches.append((scn, traces[lo:lo + 120], ""))
            ctx.sample({"scenario": scn.name, "schedule": traces[3]["schedule"], "outcomes": traces[3]["outcomes"],
                        "events": [f"{e['a']}:{e['k']}" + (f"({e.get('kind')})" if e["k"] == "Damage" else "") for e in traces[3]["events"][:70]]}, cap=3)
        # conflicting commits leave nothing behind either
        scn2 = Scenario("hint-damage-after-conflict", [A("c1", "committer", [{"t": "append"}, {"t": "create"}, {"t": "append"}]), A("c2", "committer", [{"t": "append"}]), rd])
        steps2 = l1.solo_steps(scn2)
        jobs2 = []
        for k in range(0, steps2["c2"], 3 if quick else 1):
            jobs2.append(("list", [["c2", k], ["until", "c1", 1], ["c2", 400], ["env", "damage_" + r.choice(kinds)], ["c1", 400], ["r1", 400]]))
        batches.append((scn2, l1.run_many(scn2, jobs2), ""))
        # ---- known findings: must still reproduce, reported under their fixed signatures ----
        scn3 = Scenario("stale-pointer", [A("c1", "committer", [{"t": "append"}, {"t": "append"}, {"t": "create"}, {"t": "append"}]), rd])
        batches.append((scn3, l1.run_many(scn3, [("list", [["until", "c1", 2], ["env", "damage_stale"], ["c1", 400], ["r1", 400]])], parallel=False), "stale-pointer"))
        scn4 = Scenario("crash-orphan-lost-pointer", [A("c1", "committer", [{"t": "append"}]), A("c2", "committer", [{"t": "create"}, {"t": "append"}]), rd])
        steps4 = l1.solo_steps(scn4)
        jobs4 = [("list", [["c1", k], ["env", "kill_c1"], ["env", "damage_missing"], ["c2", 400], ["r1", 400]]) for k in range(steps4["c1"] - 14, steps4["c1"] - 5)]
        batches.append((scn4, l1.run_many(scn4, jobs4, parallel=False), "crash-orphan-lost-pointer"))
        # version numbers are NUMBERS: with more than ten versions on disk, recovery must still pick the highest (v12, not v9)
        scn6 = Scenario("hint-damage-many-versions", [A("c1", "committer", [{"t": "create"}, {"t": "append"}, {"t": "append"}]), rd], init_snaps=9)
        jobs6 = [("list", [["env", "damage_" + kind], ["until", "c1", 2], ["env", "damage_" + kind2], ["c1", 400], ["r1", 400]])
                 for kind, kind2 in (("missing", "text"), ("dangling", "missing"), ("empty", "legacy_zero"))]
        batches.append((scn6, l1.run_many(scn6, jobs6, parallel=False), ""))
        # the tie-break the code gets right: an orphan of a dead committer SUPERSEDED by a later commit of the same version
        # number is older than the committed file, so recovery after pointer loss must pick the committed one
        scn5 = Scenario("crash-orphan-superseded", [A("c1", "committer", [{"t": "append"}]), A("c2", "committer", [{"t": "append"}, {"t": "create"}, {"t": "append"}]), rd])
        jobs5 = [("list", [["c1", k], ["env", "kill_c1"], ["env", "tick"], ["until", "c2", 1], ["env", "damage_" + kind], ["c2", 400], ["r1", 400]])
                 for k in range(steps4["c1"] - 14, steps4["c1"] - 5, 2) for kind in ("missing", "text", "dangling")]
        batches.append((scn5, l1.run_many(scn5, jobs5), ""))
        _validate_and_report(ctx, batches)
    finally:
        l1.close_pool()
    ctx.rule("model: failed/conflicting commits x damage class x follow-up operations; implementation: a fault at every scheduling point of a commit, then (nothing in flight) the pointer file "
             "overwritten with each concrete byte string of the grammar, then create/open, append, scan; non-trivial = a fault, crash or damage was applied; distinct by (event sequence, damage)")
    ctx.assume("an AMBIGUOUS pointer-write failure on object storage keeps the metadata file by design (the commit may have happened); such a version is 'possibly committed', "
               "so it is not injected together with pointer damage",
               "pointer damage happens while no operation is in flight (the property quantifies over pointer CONTENTS; a deletion racing a read of the pointer is not a content)",
               "two open known findings (stale pointer trusted; crash-orphan surfaced after pointer loss) are kept as must-fail model companions and reported as KNOWN-FINDING")
