"""C11 - Accepted appends are exact; rejected ones leave no trace; scans keep working.

Specification: spec/SchemaAccept.tla (state machine of append acceptance: persisted schema, per-handle
Arrow-schema cache keyed by schema id, physical file schemas, bounds keyed by the writing schema's
field ids; transcriptions of _schema_signature / validate_records_strict / create_arrow_schema /
_compute_column_bounds / _validate_file_schema; reference predicates RejectedUnchanged,
ScanNeverBreaks, BoundsMeanTheirColumn, AcceptedExact) and spec/MC_SchemaAccept.tla (all histories of
<= MaxSteps appends; export of every history with the specification's outcome per step).

1. TLC on the model of the CURRENT code (FixWriteTableSchema = FixStrictValues = TRUE, /repo since
   fec250c and fa79e69): every reference predicate is an invariant over all histories.
   Anti-vacuity companions (must FAIL): with FixWriteTableSchema = FALSE (the code before fec250c)
   ScanNeverBreaks and BoundsMeanTheirColumn are violated, with FixStrictValues = FALSE (before
   fa79e69) AcceptedExact is violated; each single flag repairs exactly its own violation; three
   reachability targets.
2. TLC exports every history of length 2 (thorough: plus length 3 over a reduced alphabet) of the
   current-code model together with the specification's definition of every schema variant / file
   footer / batch class.
3. Binding, direction spec -> code: histories are replayed against real tables (two Table handles,
   re-opened when the step says "fresh"), concretised over all column types and value tables.
   After every step the verdict is decided by the PROPERTY's oracle, with storage observed through
   the independent reader (harness/project.py):
     raise  => snapshot list, reachable files, content and scan outcome unchanged;
     return => exactly one new snapshot and one new data file whose rows are the supplied rows up
               to the declared type's representation (independent cast oracle `represent`), the
               full scan succeeds and returns exactly the content, and filtered scans (==, <, >,
               is_null on every column) return what a Python evaluation over the content returns.
   Disagreement with the model's accept/reject that does not break the property is model drift
   (counted, never reported as a violation).
"""
from __future__ import annotations

from decimal import Decimal
from fractions import Fraction

import json
import os
import shutil
import struct
import time as _time
from collections import Counter
from concurrent.futures import ThreadPoolExecutor
from datetime import date, datetime, time, timedelta, timezone
from typing import Any, Dict, List, Optional, Tuple

from .. import project, tlc
from ..common import Ctx, MachineryError, rng, scratch_dir
from ..values import TYPE_VALUES, row_key, same

LEVEL = "model_checking"

# ------------------------------------------------------------------------------------------------
# TLC configurations
# ------------------------------------------------------------------------------------------------
ALL_VARIANTS = ["omitted", "identical", "reordered", "renumbered", "type_changed", "nullability_relaxed",
                "nullability_tightened", "extra_field", "missing_field", "other_sid_same",
                "other_sid_reordered", "other_sid_different"]
RICH = ["omitted", "reordered", "renumbered"]
ALL_VCLASSES = ["ok", "narrow", "null_optional", "missing_optional", "null_required", "missing_required",
                "unknown_key", "unconvertible", "truncating", "empty"]
ALL_FILEVARS = ["file_identical", "file_reordered", "file_nullability", "file_type", "file_extra",
                "file_missing_column", "file_absent", "file_garbage"]
# reduced alphabet for the length-3 runs of the quick tier / the length-3 export of the thorough tier
RED_RICH = ["omitted", "reordered", "renumbered"]
RED_PLAIN = ["identical", "nullability_relaxed", "other_sid_same", "other_sid_reordered"]
RED_VCLASSES = ["ok", "unconvertible", "truncating"]
RED_FILEVARS = ["file_identical", "file_reordered", "file_nullability"]
# even smaller alphabet for the exported length-3 histories (thorough)
X3_RICH = ["omitted", "reordered", "renumbered"]
X3_PLAIN = ["other_sid_reordered", "other_sid_same"]
X3_VCLASSES = ["ok", "unconvertible"]
X3_FILEVARS = ["file_identical", "file_reordered"]

INV_ALL = ["Inv_RejectedUnchanged", "Inv_RejectedLeavesNoFile", "Inv_ScanNeverBreaks", "Inv_FilesMatchTable",
           "Inv_BoundsMeanTheirColumn", "Inv_AcceptedExact", "Inv_ContentIsAccepted"]


def _cfg(fix_schema: bool, fix_values: bool, steps: int, export: int, invs: List[str], *,
         rich: List[str] = RICH, plain: Optional[List[str]] = None, vcl: List[str] = ALL_VCLASSES,
         fv: List[str] = ALL_FILEVARS) -> str:
    if plain is None:
        plain = [v for v in ALL_VARIANTS if v not in rich]
    return tlc.make_cfg(
        spec="Spec",
        constants={"FixWriteTableSchema": fix_schema, "FixStrictValues": fix_values, "MaxSteps": steps,
                   "ExportDepth": export, "RichVariants": set(rich), "PlainVariants": set(plain),
                   "FileVars": set(fv), "VClasses": set(vcl)},
        invariants=invs, postcondition="Export", check_deadlock=False)


def _n_inputs(rich: List[str], plain: List[str], vcl: List[str], fv: List[str]) -> int:
    return 4 * (len(rich) * len(vcl) + len(plain) + len(fv))


def _tlc_phase(ctx: Ctx, quick: bool, out2: str, out3: Optional[str]) -> None:
    """All TLC runs of this check; raises MachineryError when an expectation about the MODEL fails and
    reports a model-level violation when the repaired model does not satisfy the property."""
    red = dict(rich=RED_RICH, plain=RED_PLAIN, vcl=RED_VCLASSES, fv=RED_FILEVARS)
    jobs: List[Tuple[str, str, Dict[str, Any], Optional[List[str]]]] = []
    # (label, cfg, kwargs, expectation: None = must pass, list = exactly these invariants violated)
    if quick:
        jobs.append(("current code, len<=3, reduced alphabet", _cfg(True, True, 3, 0, INV_ALL, **red), {}, None))
    else:
        jobs.append(("current code, len<=3, full alphabet", _cfg(True, True, 3, 0, INV_ALL), {"timeout_s": 840}, None))
    jobs.append(("current code, len<=2, full alphabet + export", _cfg(True, True, 2, 2, INV_ALL), {"env": {"VERIF_OUT": out2}}, None))
    if out3 is not None:
        x3 = dict(rich=X3_RICH, plain=X3_PLAIN, vcl=X3_VCLASSES, fv=X3_FILEVARS)
        jobs.append(("current code, len<=3, small alphabet + export", _cfg(True, True, 3, 3, INV_ALL, **x3), {"env": {"VERIF_OUT": out3}}, None))
    # anti-vacuity companions: the model of the code BEFORE each fix must violate the invariant that fix
    # restores, and only that fix restores it
    jobs.append(("pre-fec250c model: ScanNeverBreaks must fail", _cfg(False, True, 2, 0, ["Inv_ScanNeverBreaks"]), {}, ["Inv_ScanNeverBreaks"]))
    jobs.append(("pre-fec250c model: BoundsMeanTheirColumn must fail", _cfg(False, True, 2, 0, ["Inv_BoundsMeanTheirColumn"]), {}, ["Inv_BoundsMeanTheirColumn"]))
    jobs.append(("pre-fa79e69 model: AcceptedExact must fail", _cfg(True, False, 2, 0, ["Inv_AcceptedExact"]), {}, ["Inv_AcceptedExact"]))
    jobs.append(("pre-fa79e69 model still satisfies scans and bounds",
                 _cfg(True, False, 2, 0, ["Inv_ScanNeverBreaks", "Inv_FilesMatchTable", "Inv_BoundsMeanTheirColumn"]), {}, None))
    jobs.append(("pre-fec250c model still satisfies exactness", _cfg(False, True, 2, 0, ["Inv_AcceptedExact"]), {}, None))
    # anti-vacuity on the current-code model: these states must be reachable
    for nv in ("Never_AcceptedWithSchemaArg", "Never_FooterReject", "Never_ThreeFiles"):
        jobs.append((f"anti-vacuity {nv} must fail", _cfg(True, True, 3, 0, [nv], **red), {}, [nv]))

    def one(job: Tuple[str, str, Dict[str, Any], Optional[List[str]]]) -> Any:
        label, cfg, kw, _exp = job
        kw = dict(kw)
        kw.setdefault("timeout_s", 600)
        return tlc.run_tlc("MC_SchemaAccept", cfg, label=label, workers=4 if quick else "auto", deadlock=False, **kw)

    if quick:
        with ThreadPoolExecutor(max_workers=4) as ex:
            results = list(ex.map(one, jobs))
    else:
        results = [one(j) for j in jobs]
    vac = []
    for (label, _cfg_text, _kw, expect), res in zip(jobs, results):
        if expect is None:
            ctx.add_tlc(res)
            if not res.ok:
                if res.violated:
                    ctx.violation(f"model:{'+'.join(res.violated)}:{label}",
                                  f"TLC: {res.violated} violated in SchemaAccept ({label})", res.error_trace[:6000])
                else:
                    raise MachineryError(f"TLC did not finish: {label}\n{res.stdout[-2000:]}")
        else:
            if sorted(res.violated) != sorted(expect):
                raise MachineryError(f"TLC expectation failed ({label}): expected violation of {expect}, got {res.violated or 'none'}"
                                     f"\n{res.stdout[-1500:]}")
            vac.append(label)
    ctx.cov["tlc_expected_failures"] = vac


# ------------------------------------------------------------------------------------------------
# The declared type's representation: an independent cast oracle (stdlib only, no pyarrow)
# ------------------------------------------------------------------------------------------------
EPOCH_D = date(1970, 1, 1)
EPOCH_TS = datetime(1970, 1, 1)
INT_RANGE = {"int": (-(2 ** 31), 2 ** 31 - 1), "long": (-(2 ** 63), 2 ** 63 - 1)}
INTEGER_BACKED = ("int", "long", "date", "time", "timestamp")
NO = ("no", None)


def f32(x: float) -> float:
    """IEEE round-to-nearest float32 of a Python float (overflow rounds to +-inf, as IEEE prescribes)."""
    if x != x or x in (float("inf"), float("-inf")):
        return x
    try:
        return struct.unpack("f", struct.pack("f", x))[0]
    except OverflowError:
        return float("inf") if x > 0 else float("-inf")


def _integral(v: Any) -> Optional[int]:
    if isinstance(v, bool):
        return int(v)
    if isinstance(v, int):
        return v
    if isinstance(v, float) and v == v and v not in (float("inf"), float("-inf")) and v == int(v):
        return int(v)
    return None


def represent(t: str, v: Any) -> Tuple[str, Any]:
    """("ok", value a scan must return) when the declared type `t` can represent `v`, else ("no", None).

    What counts as "the declared type's representation" (documented in notes/C11.md):
    the same number in the column's numeric type (1.0 -> 1 in an integer column, 5 -> 5.0 in a
    floating column, float64 -> nearest float32 in a float column), the same text, the same calendar
    day / instant / time of day (an aware datetime -> the same instant in UTC; an int in a
    date/time/timestamp column -> that many days/microseconds, which IS those types' stored form).
    Anything that loses part of the value (a fraction, a time of day, digits beyond 2^53, range)
    or has no numeric/textual/temporal reading in that type is not representable: such an append
    must be rejected."""
    if v is None:
        return ("ok", None)
    if t in ("int", "long"):
        i = _integral(v)
        lo, hi = INT_RANGE[t]
        return ("ok", i) if i is not None and lo <= i <= hi else NO
    if t == "double":
        if isinstance(v, float):
            return ("ok", v)
        if isinstance(v, (int, bool)):
            try:
                f = float(v)
            except OverflowError:
                return NO
            return ("ok", f) if f == v else NO
        return NO
    if t == "float":
        if isinstance(v, float):
            r = f32(v)
            if r in (float("inf"), float("-inf")) and v not in (float("inf"), float("-inf")):
                return NO            # a finite value beyond the 32-bit range: storing it as infinity loses the value (range)
            return ("ok", r)
        if isinstance(v, (int, bool)):
            try:
                f = float(v)
            except OverflowError:
                return NO
            return ("ok", f) if f == v and f32(f) == v else NO
        return NO
    if t == "string":
        if isinstance(v, str):
            try:
                v.encode("utf-8")
            except UnicodeEncodeError:
                return NO
            return ("ok", v)
        if isinstance(v, bytes):
            try:
                return ("ok", v.decode("utf-8"))
            except UnicodeDecodeError:
                return NO
        return NO
    if t == "boolean":
        return ("ok", v) if isinstance(v, bool) else NO
    if t == "date":
        if isinstance(v, datetime):
            return ("ok", v.date()) if v.tzinfo is None and v.time() == time(0) else NO
        if isinstance(v, date):
            return ("ok", v)
        if isinstance(v, bool):
            return NO
        i = _integral(v)
        if i is None:
            return NO
        try:
            return ("ok", EPOCH_D + timedelta(days=i))
        except OverflowError:
            return NO
    if t == "timestamp":
        if isinstance(v, datetime):
            return ("ok", v if v.tzinfo is None else v.astimezone(timezone.utc).replace(tzinfo=None))
        if isinstance(v, bool):
            return NO
        i = _integral(v)
        if i is None or isinstance(v, date):
            return NO
        try:
            return ("ok", EPOCH_TS + timedelta(microseconds=i))
        except OverflowError:
            return NO
    if t == "time":
        if isinstance(v, time):
            return ("ok", v.replace(tzinfo=None))
        if isinstance(v, bool):
            return NO
        i = _integral(v)
        if i is None or not (0 <= i < 86400 * 10 ** 6):
            return NO
        return ("ok", (datetime(2000, 1, 1) + timedelta(microseconds=i)).time())
    raise MachineryError(f"no representation oracle for type {t}")


def _alter_kind(t: str, v: Any) -> str:
    """Name of the input class of an accepted-but-altered value (used in violation signatures)."""
    if isinstance(v, float) and t in INTEGER_BACKED and v == v and v not in (float("inf"), float("-inf")) and v != int(v):
        return f"fractional-float:{t}"
    if t == "date" and isinstance(v, datetime):
        return "time-of-day-dropped:date"
    return f"{type(v).__name__}-into-{t}"


# ------------------------------------------------------------------------------------------------
# Value tables per column type and value class
# ------------------------------------------------------------------------------------------------
NAN = float("nan")
INF = float("inf")
UTC = timezone.utc

OK_VALUES: Dict[str, List[Any]] = {
    "long": TYPE_VALUES["long"] + [2 ** 53 - 1, -(2 ** 53) + 1, 2 ** 31, -(2 ** 31) - 1],
    "int": TYPE_VALUES["int"] + [2 ** 16, -(2 ** 16)],
    "double": TYPE_VALUES["double"] + [NAN, -0.0, 2.0 ** 53 + 2, 1e-320, 1.7976931348623157e308],
    "float": TYPE_VALUES["float"] + [NAN, -0.0, f32(3.4028234663852886e38), f32(1.401298464324817e-45)],
    "string": TYPE_VALUES["string"] + ["é", "é", "\x00", "a\x00b", "\U0001F468‍\U0001F469‍\U0001F467", "﻿", " x ", "NULL", "None"],
    "date": TYPE_VALUES["date"],
    "timestamp": TYPE_VALUES["timestamp"],
    "time": TYPE_VALUES["time"],
    "boolean": [False, True],
}
NARROW_VALUES: Dict[str, List[Any]] = {
    "long": [1.0, -7.0, 2.0 ** 53, -(2.0 ** 62)],
    "int": [1.0, -7.0, 2147483647.0],
    "double": [5, -(2 ** 53), True],
    "float": [0.1, 16777217.0, 1e-50, 3.4028235e38, 7, True],
    "string": [b"bytes", "é".encode("utf-8")],
    "date": [datetime(2020, 1, 1), 18000, -1],
    "timestamp": [datetime(2020, 1, 1, 5, tzinfo=timezone(timedelta(hours=5))), datetime(2020, 1, 1, tzinfo=UTC), 5, -1],
    "time": [time(1, 2, 3, tzinfo=UTC), 5],
    "boolean": [],
}
# the specification's class "unconvertible": the Python->Arrow conversion raises
UNCONVERTIBLE_VALUES: Dict[str, List[Any]] = {
    "long": [2 ** 63, -(2 ** 63) - 1, NAN, INF, 2.0 ** 63, 1e300, True, "5", b"5", {"x": 1}, [1], date(2020, 1, 1), 3 + 0j],
    "int": [2 ** 31, -(2 ** 31) - 1, NAN, True, "5", {"x": 1}, 2.0 ** 31],
    "double": [2 ** 53 + 1, 2 ** 63, 10 ** 400, "1.5", date(2020, 1, 1), {"x": 1}],
    "float": [16777217, 2 ** 24 + 1, "x", {"x": 1}],
    "string": [5, 1.5, True, b"\xff", "\ud800", date(2020, 1, 1), {"a": 1}, ["x"]],
    "date": ["2020-01-01", time(1, 2, 3), True, {"x": 1}],
    "timestamp": [date(2020, 1, 1), "2020-01-01T00:00:00", True, {"x": 1}],
    "time": [datetime(2020, 1, 1, 1, 2, 3), "01:02:03", timedelta(seconds=5), {"x": 1}],
    "boolean": [1, 0, 2, 1.0, "true", "", {"x": 1}],
}
# the specification's class "truncating": the conversion silently drops part of the value
TRUNCATING_VALUES: Dict[str, List[Any]] = {
    "long": [1.5, -0.5, 1e10 + 0.5, Decimal("1.5"), Fraction(3, 2), Decimal("-0.5")],
    "int": [1.5, -0.5, Decimal("2.5"), Fraction(-7, 2)],
    "date": [1.5, datetime(2020, 1, 1, 12, 30), Decimal("1.5")],
    "timestamp": [1.5, Fraction(1, 2)],
    "time": [1.5, Decimal("0.25")],
    # finite values beyond the 32-bit float range would be stored as +-inf
    "float": [1e39, -3.5e38, 1.7976931348623157e308],
    "double": [], "string": [], "boolean": [],
}
CLASS_TABLE = {"narrow": NARROW_VALUES, "unconvertible": UNCONVERTIBLE_VALUES, "truncating": TRUNCATING_VALUES}
TYPES = ["long", "int", "double", "float", "string", "date", "timestamp", "time", "boolean"]
# (T1, T2): columns a, b have type T1, column c has type T2 (always different from T1)
COMBOS = [(TYPES[i], TYPES[(i + k) % 9]) for k in (1, 4, 7) for i in range(9)]


def _arrow_type(t: str) -> Any:
    """Independent restatement of the documented Iceberg->Arrow type mapping (for pre-built files)."""
    import pyarrow as pa

    return {"boolean": pa.bool_(), "int": pa.int32(), "long": pa.int64(), "float": pa.float32(),
            "double": pa.float64(), "date": pa.date32(), "time": pa.time64("us"),
            "timestamp": pa.timestamp("us"), "string": pa.string()}[t]


def _ok_value(t: str, col: str, k: int, r: int) -> Any:
    """Plain representable values; column a stays in the low range, b in the high range of the type, so
    that bounds stored under the wrong column's id are observable by pruning."""
    if t == "boolean":
        return {"a": False, "b": True}.get(col, bool((k + r) % 2))
    vals = TYPE_VALUES[t]
    if col == "a":
        return vals[1 + (k + r) % 3]
    if col in ("b", "d"):
        return vals[5 + (k + r) % 3]
    if t in ("double", "float") and (k + r) % 4 == 3:
        return NAN
    return vals[(2 * k + r) % 9]


class Concretiser:
    """Builds concrete schemas, batches and pre-built files from the specification's exported header."""

    SID = {1: 1, 2: 7}

    def __init__(self, header: Dict[str, Any], t1: str, t2: str) -> None:
        self.h = header
        self.types = {"T1": t1, "T2": t2}
        self.t1, self.t2 = t1, t2
        self.table_fields = header["tschema"]["fields"]
        self.coltype = {f["name"]: self.types[f["type"]] for f in self.table_fields}
        self.coltype["d"] = t1
        self.required = {f["name"]: f["req"] for f in self.table_fields}

    def schema_of(self, abstract: Dict[str, Any]) -> Any:
        from datashard import Schema

        if abstract["sid"] == 0:
            return None
        return Schema(schema_id=self.SID[abstract["sid"]],
                      fields=[{"id": f["id"], "name": f["name"], "type": self.types[f["type"]], "required": f["req"]}
                              for f in abstract["fields"]])

    def table_schema(self) -> Any:
        return self.schema_of(self.h["tschema"])

    def supplied(self, variant: str) -> Any:
        return self.schema_of(self.h["supplied"][variant])

    def candidates(self, vclass: str) -> List[Tuple[str, Any]]:
        """(column, special value) pairs that concretise a conversion class for this type combination."""
        out = []
        table = CLASS_TABLE[vclass]
        for col in ("b", "c", "a"):
            for v in table[self.coltype[col]]:
                out.append((col, v))
        return out

    def batch(self, vclass: str, k: int, special: Optional[Tuple[str, Any]], special_row: int = 0) -> List[Dict[str, Any]]:
        b = self.h["batches"][vclass]
        rows: List[Dict[str, Any]] = []
        for r in range(b["n"]):
            row = {c: _ok_value(self.coltype[c], c, k, r) for c in ("a", "b", "c")}
            if r == special_row:
                for c in list(row):
                    if c not in b["present"]:
                        del row[c]
                for c in b["present"]:
                    if c not in row:
                        row[c] = 1                      # the unknown key
                for c in b["none"]:
                    row[c] = None
                if special is not None:
                    row[special[0]] = special[1]
            rows.append(row)
        return rows

    def prebuilt(self, variant: str, k: int, table_dir: str) -> Tuple[Any, List[Dict[str, Any]]]:
        """Write the caller's pre-built file for a file variant; returns (DataFile, rows in it)."""
        import pyarrow as pa
        import pyarrow.parquet as pq

        from datashard import DataFile, FileFormat

        rel = f"data/prebuilt_{k}.parquet"
        full = os.path.join(table_dir, rel)
        os.makedirs(os.path.dirname(full), exist_ok=True)
        rows: List[Dict[str, Any]] = []
        if variant == "file_absent":
            size = 0
        elif variant == "file_garbage":
            with open(full, "wb") as f:
                f.write(b"PAR1 this is not a parquet file")
            size = os.path.getsize(full)
        else:
            phys = self.h["filephys"][variant]
            schema = pa.schema([pa.field(c["name"], _arrow_type(self.types[c["type"]]), nullable=c["nullable"]) for c in phys])
            for r in range(2):
                rows.append({c["name"]: _ok_value(self.types[c["type"]], c["name"], k, r) for c in phys})
            pq.write_table(pa.Table.from_pylist(rows, schema=schema), full)
            size = os.path.getsize(full)
        df = DataFile(file_path="/" + rel, file_format=FileFormat.PARQUET, partition_values={},
                      record_count=len(rows), file_size_in_bytes=size)
        return df, rows


# ------------------------------------------------------------------------------------------------
# Observation through the independent reader
# ------------------------------------------------------------------------------------------------
def _observe(path: str) -> Dict[str, Any]:
    reader = project.LocalReader(path)
    st = project.read_state(reader)
    name = project.current_meta_name(st)
    if name is None:
        raise MachineryError(f"no committed metadata under {path}: hint={st['hint']}")
    meta = st["metas"][name]
    snaps = [s["snapshot_id"] for s in meta.get("snapshots", [])]
    reach = project.reachable(st, meta)
    cur = meta.get("current_snapshot_id")
    cur_files: List[str] = []
    problems: List[str] = []
    for s in meta.get("snapshots", []):
        if s["snapshot_id"] == cur:
            files, problems = project.snapshot_files(st, s)
            cur_files = files or []
    return {"snaps": snaps, "current": cur, "reach": reach, "cur_files": cur_files, "problems": problems,
            "broken": dict(st["broken"]), "data_dir": sorted(st["data"]), "temps": sorted(st["temps"]), "reader": reader}


def _file_rows(reader: Any, rel: str) -> List[Dict[str, Any]]:
    return project.read_rows(reader, rel)


def _file_phys(path: str, rel: str) -> List[Tuple[str, str, bool]]:
    import pyarrow.parquet as pq

    s = pq.read_schema(os.path.join(path, rel))
    return [(f.name, str(f.type), f.nullable) for f in s]


def _bag(rows: List[Dict[str, Any]]) -> List[str]:
    return sorted(row_key(r) for r in rows)


def _scan_outcome(path: str, **kw: Any) -> Tuple[str, Any]:
    """("rows", sorted row keys) or ("raise", exception type name) of a scan through a fresh handle."""
    from datashard import load_table

    try:
        return ("rows", _bag(load_table(path).scan(**kw)))
    except Exception as e:  # noqa: BLE001 - the outcome class is what is compared
        return ("raise", type(e).__name__ + ": " + str(e)[:160])


def _py_filter(rows: List[Dict[str, Any]], col: str, op: str, lit: Any) -> List[Dict[str, Any]]:
    out = []
    for r in rows:
        v = r.get(col)
        if op == "is_null":
            keep = v is None
        elif v is None:
            keep = False
        elif op == "==":
            keep = v == lit
        elif op == "<":
            keep = v < lit
        else:
            keep = v > lit
        if keep:
            out.append(r)
    return out


def _rows_match(stored: List[Dict[str, Any]], expected: List[Dict[str, Any]], supplied: List[Dict[str, Any]], cols: List[str]) -> bool:
    """Stored rows = supplied rows, each value either in the declared type's representation or exactly as
    supplied (a library that keeps MORE than the declared type promises is not wrong).  Positional first
    (parquet keeps row order), multiset as a fallback."""
    if len(stored) != len(expected):
        return False
    if all(sorted(srow) == cols and all(same(srow[c], erow[c]) or same(srow[c], prow.get(c)) for c in cols)
           for srow, erow, prow in zip(stored, expected, supplied)):
        return True
    return _bag(stored) == _bag(expected)


def _diff_kind(physes: List[List[Tuple[str, str, bool]]]) -> str:
    first = physes[0]
    kinds = set()
    for p in physes[1:]:
        if p == first:
            continue
        if sorted(x[0] for x in p) != sorted(x[0] for x in first):
            kinds.add("columns")
        elif {x[0]: x[1] for x in p} != {x[0]: x[1] for x in first}:
            kinds.add("type")
        elif {x[0]: x[2] for x in p} != {x[0]: x[2] for x in first}:
            kinds.add("nullability")
        else:
            kinds.add("column-order")
    return "+".join(sorted(kinds)) if kinds else "none"


# ------------------------------------------------------------------------------------------------
# Replay of one history
# ------------------------------------------------------------------------------------------------
class Result:
    def __init__(self) -> None:
        self.violations: List[Tuple[str, str, Any]] = []
        self.steps = 0
        self.accepted = 0
        self.rejected = 0
        self.drift: List[Dict[str, Any]] = []
        self.filter_scans = 0
        self.orphans_after_reject = 0
        self.keys: List[Any] = []


def replay_history(header: Dict[str, Any], hist: Dict[str, Any], t1: str, t2: str, salt: Any, seed: int,
                   specials: Optional[Dict[int, Tuple[str, Any]]] = None, filters: bool = True,
                   bulk: Optional[Dict[int, int]] = None) -> Result:
    """Execute one exported history against a real table and judge every step by the property's oracle."""
    from datashard import create_table, load_table

    res = Result()
    conc = Concretiser(header, t1, t2)
    r = rng(seed, "c11", salt, t1, t2)
    d = scratch_dir("c11")
    path = os.path.join(d, "t")
    payload_base = {"history": hist, "t1": t1, "t2": t2, "salt": salt, "seed": seed, "bulk": bulk,
                    "specials": {str(k): [v[0], repr(v[1])] for k, v in (specials or {}).items()}}

    def violate(sig: str, what: str, extra: Dict[str, Any]) -> None:
        res.violations.append((sig, what, dict(payload_base, **extra)))

    try:
        handles = {1: create_table(path, conc.table_schema())}
        handles[2] = load_table(path)
        content: List[Dict[str, Any]] = []      # rows of the current snapshot as stored (independent reader)
        scan_was_ok = True
        seen_variants: List[str] = []
        accepted_variants: List[str] = []
        obs = _observe(path)
        for k, (step, out) in enumerate(zip(hist["steps"], hist["outs"]), start=1):
            res.steps += 1
            h = step["h"]
            if step["fresh"]:
                handles[h] = load_table(path)
            tbl = handles[h]
            variant, vclass, kind = step["variant"], step["vclass"], step["kind"]
            seen_variants.append(variant)
            supplied_rows: List[Dict[str, Any]] = []
            special = None
            desc = f"step {k} {kind}/{variant}/{vclass} on handle {h}{' (fresh)' if step['fresh'] else ''} [{t1},{t2}]"
            pre_scan = _scan_outcome(path)
            if kind == "records":
                if vclass in CLASS_TABLE:
                    if specials and k in specials:
                        special = specials[k]
                    else:
                        cands = conc.candidates(vclass)
                        if not cands:
                            raise MachineryError(f"value class {vclass} has no concretisation for ({t1},{t2})")
                        special = cands[r.randrange(len(cands))]
                elif specials and k in specials:
                    special = specials[k]
                supplied_rows = conc.batch(vclass, k, special, r.randrange(2))
                if bulk and k in bulk and supplied_rows:
                    # a large batch (crosses the writer's internal batch size): more plain rows, tagged by position
                    for n in range(bulk[k] - len(supplied_rows)):
                        supplied_rows.append({c: _ok_value(conc.coltype[c], c, k + n // 7, n % 5) for c in ("a", "b", "c")})
                schema = conc.supplied(variant)
                call = lambda: tbl.append_records([dict(x) for x in supplied_rows], schema=schema)  # noqa: E731
            else:
                dfile, supplied_rows = conc.prebuilt(variant, k, path)
                call = lambda: tbl.append_data([dfile])  # noqa: E731
            # the caller's own pre-built file is placed before the call: re-observe so that it is not
            # mistaken for a trace of the append
            obs = _observe(path)
            try:
                ret = call()
                raised = None
            except Exception as e:  # noqa: BLE001 - any exception is "the append raises"
                ret = None
                raised = e
            after = _observe(path)
            if raised is None and ret is not True:
                violate(f"append-returned-not-true:{kind}:{variant}:{vclass}", f"{desc}: returned {ret!r} without raising", {"step": k})
            ok = raised is None
            if ok != out["ok"]:
                res.drift.append({"step": step, "model": out["stage"], "code": "accepted" if ok else f"{type(raised).__name__}: {str(raised)[:120]}",
                                  "types": [t1, t2], "special": repr(special)})
            res.keys.append((kind, variant, vclass, "accepted" if ok else "rejected"))
            # conformance of the model's STATE (not a verdict): number of referenced files and each file's
            # physical column order / nullability as the specification predicts them
            try:
                obs_phys = [",".join(f"{n}{'?' if nul else '!'}" for n, _t, nul in _file_phys(path, f)) for f in after["cur_files"]]
            except Exception:  # noqa: BLE001
                obs_phys = ["<unreadable>"]
            mod_phys = [",".join(c.split(":")[0] + c[-1] for c in tag.split(",")) for tag in out["phys"]]
            if ok == out["ok"] and obs_phys != mod_phys:
                res.drift.append({"step": step, "model_files": mod_phys, "code_files": obs_phys, "types": [t1, t2]})
            if not ok:
                # ---------------- RejectedUnchanged ----------------
                res.rejected += 1
                changed = []
                if after["snaps"] != obs["snaps"] or after["current"] != obs["current"]:
                    changed.append(f"snapshot list {obs['snaps']} -> {after['snaps']}")
                if after["reach"] != obs["reach"]:
                    new = sorted(set(after["reach"]["data"]) - set(obs["reach"]["data"]))
                    changed.append(f"reachable files changed (new data files: {new})")
                if after["cur_files"] != obs["cur_files"]:
                    changed.append("files of the current snapshot changed")
                post_scan = _scan_outcome(path)
                if post_scan[0] != pre_scan[0] or (post_scan[0] == "rows" and post_scan[1] != pre_scan[1]):
                    changed.append(f"scan outcome {pre_scan[0]} -> {post_scan[0]} / different rows")
                try:
                    now_rows = []
                    for f in after["cur_files"]:
                        now_rows.extend(_file_rows(after["reader"], f))
                    if _bag(now_rows) != _bag(content):
                        changed.append("stored content changed")
                except Exception as e:  # noqa: BLE001
                    changed.append(f"stored content unreadable: {e!r}")
                if changed:
                    violate(f"rejected-append-changed-table:{kind}:{variant}:{vclass}",
                            f"{desc} raised {type(raised).__name__} but: " + "; ".join(changed), {"step": k, "raised": repr(raised)})
                left = sorted(set(after["data_dir"]) - set(obs["data_dir"])) + after["temps"]
                if left:
                    res.orphans_after_reject += 1
                obs = after
                continue
            # -------------------- accepted --------------------
            res.accepted += 1
            accepted_variants.append(variant)
            new_snaps = [s for s in after["snaps"] if s not in obs["snaps"]]
            if obs["snaps"] != after["snaps"][:len(obs["snaps"])] or len(new_snaps) != 1 or after["current"] != new_snaps[-1]:
                violate(f"accepted-append-snapshot-list:{kind}:{variant}:{vclass}",
                        f"{desc} returned normally but the snapshot list went {obs['snaps']} -> {after['snaps']} (current {after['current']})", {"step": k})
            lost = sorted(set(obs["cur_files"]) - set(after["cur_files"]))
            new_files = [f for f in after["cur_files"] if f not in obs["cur_files"]]
            if lost or after["problems"] or after["broken"]:
                violate(f"accepted-append-damaged-table:{kind}:{variant}:{vclass}",
                        f"{desc}: files lost {lost}, problems {after['problems']}, broken {after['broken']}", {"step": k})
            stored: List[Dict[str, Any]] = []
            for f in new_files:
                try:
                    stored.extend(_file_rows(after["reader"], f))
                except Exception as e:  # noqa: BLE001 - an accepted file nobody can read
                    violate(f"accepted-unreadable-file:{kind}:{variant}",
                            f"{desc} was accepted but the data file it added ({f}) cannot be read: {e!r}", {"step": k})
            # ---- AcceptedExact: the new file's rows are the supplied rows in the declared representation
            cols = ["a", "b", "c"]
            expected_rows = []
            unrep: List[Tuple[str, Any]] = []
            unknown_cols: List[str] = []
            for row in supplied_rows:
                e = {}
                for c in cols:
                    verdict, val = represent(conc.coltype[c], row.get(c))
                    if verdict == "no" or (val is None and conc.required[c]):
                        unrep.append((c, row.get(c)))
                        val = "<unrepresentable>"
                    e[c] = val
                unknown_cols += [x for x in row if x not in cols]
                expected_rows.append(e)
            if len(new_files) != 1:
                if not (len(new_files) == 0 and not supplied_rows):
                    violate(f"accepted-append-file-count:{kind}:{variant}:{vclass}",
                            f"{desc} returned normally but {len(new_files)} new data files are referenced", {"step": k})
            if unknown_cols:
                violate(f"accepted-unknown-column:{kind}:{variant}:{vclass}",
                        f"{desc}: the supplied rows carry column(s) {sorted(set(unknown_cols))} that the table does not have, yet the append was accepted; "
                        f"stored rows: {stored[:2]!r}", {"step": k})
            elif unrep:
                c, v = unrep[0]
                got = [s.get(c) for s in stored][:1]
                violate(f"altered:{_alter_kind(conc.coltype.get(c, 'unknown-column'), v)}",
                        f"{desc}: value {v!r} for column {c} ({conc.coltype.get(c, 'not in schema')}) cannot be represented by the declared type, "
                        f"yet the append was accepted and the table now returns {got!r}", {"step": k, "column": c, "value": repr(v), "stored": repr(got)})
            elif not _rows_match(stored, expected_rows, supplied_rows, cols):
                violate(f"content-mismatch:{kind}:{variant}:{vclass}",
                        f"{desc}: accepted rows are stored as {stored!r}, supplied (in the declared representation) {expected_rows!r}",
                        {"step": k, "stored": repr(stored), "expected": repr(expected_rows)})
            elif any(sorted(s) != cols for s in stored):
                violate(f"content-columns:{kind}:{variant}:{vclass}", f"{desc}: stored rows have columns {sorted(stored[0])}", {"step": k})
            content = content + stored
            # ---- ScanNeverBreaks: the full scan works and returns exactly the content
            post_scan = _scan_outcome(path)
            if post_scan[0] == "raise":
                if scan_was_ok:
                    try:
                        physes = [_file_phys(path, f) for f in after["cur_files"]]
                    except Exception:  # noqa: BLE001 - unreadable footer: diagnosed as "no schema difference"
                        physes = []
                    dk = _diff_kind(physes) if physes else "none"
                    if dk == "column-order":
                        root = "reordered-schema-arg" if "reordered" in seen_variants else "unexplained"
                        sig = f"scan-breaks:column-order:{root}"
                    elif dk == "none":
                        sig = f"scan-fails:{post_scan[1].split(':')[0]}:{kind}:{variant}"
                    else:
                        sig = f"scan-breaks:{dk}:{kind}:{variant}"
                    violate(sig, f"{desc} was accepted and now every full scan raises {post_scan[1]!r}; physical schemas of the referenced files: {physes}",
                            {"step": k, "physical": repr(physes)})
                scan_was_ok = False
            else:
                if post_scan[1] != _bag(content):
                    violate(f"scan-content:{kind}:{variant}:{vclass}",
                            f"{desc}: full scan returns {len(post_scan[1])} rows that differ from the stored content ({len(content)} rows)",
                            {"step": k, "scan": post_scan[1][:6], "content": _bag(content)[:6]})
                scan_was_ok = True
                # the streaming read API must return the same content
                try:
                    it = _bag(list(load_table(path).iter_records()))
                    if it != post_scan[1]:
                        violate(f"iter-records-content:{kind}:{variant}:{vclass}",
                                f"{desc}: iter_records() returns {len(it)} rows that differ from scan()'s {len(post_scan[1])}", {"step": k})
                except Exception as e:  # noqa: BLE001
                    violate(f"iter-records-fails:{type(e).__name__}:{kind}:{variant}",
                            f"{desc} was accepted, scan() works but iter_records() raises {e!r}", {"step": k})
            # ---- BoundsMeanTheirColumn, observed: filtered scans on every column
            if filters and scan_was_ok and content:
                for c in cols:
                    vals = []
                    for row in content:
                        v = row.get(c)
                        if v is not None and v == v and not any(same(v, x) for x in vals):
                            vals.append(v)
                    probes: List[Tuple[str, Any]] = [("is_null", True)]
                    try:
                        svals = sorted(vals)
                    except TypeError:       # mixed kinds in one column: already reported as a content mismatch
                        svals = []
                    if svals:
                        probes += [("==", svals[0]), ("==", svals[-1]), ("<", svals[-1]), (">", svals[0])]
                        if len(svals) > 2:
                            probes.append(("==", svals[len(svals) // 2]))
                    for op, lit in probes:
                        want = _bag(_py_filter(content, c, op, lit))
                        got = _scan_outcome(path, filter={c: (op, lit)})
                        res.filter_scans += 1
                        if got[0] == "raise":
                            violate(f"filtered-scan-fails:{op}:{conc.coltype[c]}:{variant}",
                                    f"{desc}: after this accepted append scan(filter={{{c!r}: ({op!r}, {lit!r})}}) raises {got[1]}", {"step": k})
                        elif got[1] != want:
                            missing = sorted((Counter(want) - Counter(got[1])).elements())
                            extra = sorted((Counter(got[1]) - Counter(want)).elements())
                            if missing and not extra and "renumbered" in accepted_variants:
                                sig = "misfilter:lost-rows:renumbered-schema-arg"
                            else:
                                sig = f"misfilter:{'lost' if missing else 'extra'}-rows:{op}:{variant}"
                            violate(sig, f"{desc}: scan(filter={{{c!r}: ({op!r}, {lit!r})}}) returns {len(got[1])} rows, the content has {len(want)} matching "
                                         f"(missing {missing[:3]}, unexpected {extra[:3]})",
                                    {"step": k, "column": c, "op": op, "literal": repr(lit), "missing": missing, "extra": extra})
            if out["scanOk"] != scan_was_ok and ok == out["ok"]:
                res.drift.append({"step": step, "model_scanOk": out["scanOk"], "code_scan_ok": scan_was_ok, "types": [t1, t2]})
            obs = after
    finally:
        shutil.rmtree(d, ignore_errors=True)
    return res


# ------------------------------------------------------------------------------------------------
# Case selection and driving
# ------------------------------------------------------------------------------------------------
def _load(path: str) -> Tuple[Dict[str, Any], List[Dict[str, Any]]]:
    header = None
    cases = []
    with open(path) as f:
        for line in f:
            o = json.loads(line)
            if o.get("header"):
                header = o
            else:
                cases.append(o)
    if header is None:
        raise MachineryError(f"no header record in {path}")
    return header, cases


def _transition_keys(hist: Dict[str, Any]) -> List[Any]:
    """Abstract transitions of the model along a history: (cache of the issuing handle, distinct physical
    file schemas present, input without the handle number, model outcome)."""
    keys = []
    caches = {1: ["-", "-"], 2: ["-", "-"]}
    phys: List[str] = []
    for step, out in zip(hist["steps"], hist["outs"]):
        pre = ["-", "-"] if step["fresh"] else caches[step["h"]]
        keys.append((tuple(pre), tuple(sorted(set(phys))), step["kind"], step["variant"], step["vclass"], out["stage"]))
        caches = {1: out["caches"][0], 2: out["caches"][1]}
        phys = out["phys"]
    return keys


def _merge(ctx: Ctx, res: Result, agg: Dict[str, Any]) -> None:
    for sig, what, payload in res.violations:
        ctx.violation(sig, what, payload)
    agg["steps"] += res.steps
    agg["accepted"] += res.accepted
    agg["rejected"] += res.rejected
    agg["filter_scans"] += res.filter_scans
    agg["orphans_after_reject"] += res.orphans_after_reject
    agg["drift"] += len(res.drift)
    for dnote in res.drift:
        if len(agg["drift_samples"]) < 8:
            agg["drift_samples"].append(dnote)


def _work(args: Tuple[Any, ...]) -> Result:
    header, hist, t1, t2, salt, seed, specials = args[:7]
    bulk = args[7] if len(args) > 7 else None
    return replay_history(header, hist, t1, t2, salt, seed, specials, bulk=bulk)


def _combo_for(hist: Dict[str, Any], idx: int) -> Tuple[str, str]:
    """Rotate through the type combinations; a history containing a conversion class needs a combination
    in which that class has a concretisation."""
    need = [s["vclass"] for s in hist["steps"] if s["kind"] == "records" and s["vclass"] in CLASS_TABLE]
    for off in range(len(COMBOS)):
        t1, t2 = COMBOS[(idx + off) % len(COMBOS)]
        if all(any(CLASS_TABLE[vc][t] for t in (t1, t2)) for vc in need):
            return t1, t2
    raise MachineryError(f"no type combination concretises {need}")


def run(ctx: Ctx) -> None:
    quick = ctx.tier == "quick"
    t_start = _time.time()
    outdir = scratch_dir("c11out")
    out2 = os.path.join(outdir, "hist2.ndjson")
    out3 = None if quick else os.path.join(outdir, "hist3.ndjson")
    _tlc_phase(ctx, quick, out2, out3)
    ctx.cov["tlc_phase_wall_s"] = round(_time.time() - t_start, 1)
    header, cases = _load(out2)
    n_in = _n_inputs(RICH, [v for v in ALL_VARIANTS if v not in RICH], ALL_VCLASSES, ALL_FILEVARS)
    if header["ninputs"] != n_in or len(cases) != n_in ** 2:
        raise MachineryError(f"export incomplete: {len(cases)} histories for {header['ninputs']} inputs (expected {n_in}^2)")
    ctx.cov["exported_histories_len2"] = len(cases)
    agg: Dict[str, Any] = {"steps": 0, "accepted": 0, "rejected": 0, "filter_scans": 0, "orphans_after_reject": 0,
                           "drift": 0, "drift_samples": []}
    executed = 0

    # ---- A. value sweep: the histories <<omitted/ok>, <omitted/class>> concretised for EVERY value of
    #         every type's table (columns b and c; required column a for the null/representable ones)
    def find(v1: str, c1: str, v2: str, c2: str, fresh2: bool = False) -> Dict[str, Any]:
        for h in cases:
            s1, s2 = h["steps"]
            if (s1["kind"], s1["variant"], s1["vclass"], s1["h"], s1["fresh"]) == ("records", v1, c1, 1, False) and \
               (s2["kind"], s2["variant"], s2["vclass"], s2["h"], s2["fresh"]) == ("records", v2, c2, 1, fresh2):
                return h
        raise MachineryError(f"history {v1}/{c1},{v2}/{c2} not exported")

    sweep_jobs = []
    classes = [("ok", OK_VALUES), ("narrow", NARROW_VALUES), ("unconvertible", UNCONVERTIBLE_VALUES), ("truncating", TRUNCATING_VALUES)]
    for ti, t in enumerate(TYPES):
        other = TYPES[(ti + 1) % 9]
        for vclass, table in classes:
            hist = find("omitted", "ok", "omitted", vclass)
            vals = table[t]
            for vi, v in enumerate(vals):
                # column b (type T1 = t) on even, column c (type T2 = t) on odd positions; quick tier: one of them
                placements = [("b", t, other), ("c", other, t)] if not quick else [[("b", t, other), ("c", other, t)][vi % 2]]
                if vclass != "ok" and quick is False:
                    placements.append(("a", t, other))
                for col, t1, t2 in placements:
                    sweep_jobs.append((header, hist, t1, t2, ("sweep", vclass, t, vi, col), ctx.seed, {2: (col, v)}))
    # large batches (2001 and 3000 rows: across and exactly on the writer's 1000-row batch boundary)
    for bi, (t1, t2, nrows) in enumerate([("long", "string", 2001), ("double", "date", 3000), ("string", "timestamp", 1000)][: 2 if quick else 3]):
        sweep_jobs.append((header, find("omitted", "ok", "omitted", "ok"), t1, t2, ("sweep", "ok-bulk", t1, bi, str(nrows)), ctx.seed, None, {2: nrows}))
    # ---- B. histories covering every abstract transition of the model (greedy cover), then seeded extras
    order = list(range(len(cases)))
    rng(ctx.seed, "c11-order").shuffle(order)
    covered: set = set()
    chosen: List[int] = []
    all_keys = set()
    for i in order:
        ks = _transition_keys(cases[i])
        all_keys.update(ks)
        if any(kk not in covered for kk in ks):
            covered.update(ks)
            chosen.append(i)
    ctx.cov["model_transitions_len2"] = len(all_keys)
    ctx.cov["histories_covering_all_transitions"] = len(chosen)
    hist_jobs = [(header, cases[i], *_combo_for(cases[i], n), ("hist", i), ctx.seed, None) for n, i in enumerate(chosen)]
    chosen_set = set(chosen)
    extras = [i for i in order if i not in chosen_set]

    budget_s = 55 if quick else 600
    procs = 4 if quick else 12
    import multiprocessing as mp

    mpctx = mp.get_context("fork")
    with mpctx.Pool(procs) as pool:
        for res in pool.imap_unordered(_work, sweep_jobs, chunksize=4):
            _merge(ctx, res, agg)
            executed += 1
        ctx.cov["value_sweep_histories"] = executed
        ctx.cov["value_sweep_done_at_s"] = round(_time.time() - t_start, 1)
        for job, res in zip(hist_jobs, pool.imap(_work, hist_jobs, chunksize=4)):
            _merge(ctx, res, agg)
            executed += 1
            hist = job[1]
            ctx.count_case(("hist", hist["steps"], job[2], job[3]),
                           nontrivial=any(s["variant"] != "omitted" or s["vclass"] != "ok" or s["fresh"] for s in hist["steps"]))
        ctx.cov["cover_done_at_s"] = round(_time.time() - t_start, 1)
        # seeded extras in chunks until the time budget is used (thorough: every exported history)
        pos = 0
        n_extra = 0
        chunk = 64 if quick else 512
        while pos < len(extras) and (_time.time() - t_start) < budget_s:
            part = extras[pos:pos + chunk]
            pos += len(part)
            jobs = [(header, cases[i], *_combo_for(cases[i], len(chosen) + pos + n), ("hist", i), ctx.seed, None) for n, i in enumerate(part)]
            for job, res in zip(jobs, pool.imap(_work, jobs, chunksize=4)):
                _merge(ctx, res, agg)
                executed += 1
                n_extra += 1
                hist = job[1]
                ctx.count_case(("hist", hist["steps"], job[2], job[3]),
                               nontrivial=any(s["variant"] != "omitted" or s["vclass"] != "ok" or s["fresh"] for s in hist["steps"]))
        ctx.cov["extra_histories_len2"] = n_extra
        ctx.cov["len2_histories_replayed_of_exported"] = f"{len(chosen) + n_extra}/{len(cases)}"
        # ---- C. thorough: length-3 histories over the small alphabet
        if out3 is not None:
            header3, cases3 = _load(out3)
            n3 = _n_inputs(X3_RICH, X3_PLAIN, X3_VCLASSES, X3_FILEVARS)
            if len(cases3) != n3 ** 3:
                raise MachineryError(f"length-3 export incomplete: {len(cases3)} != {n3}^3")
            ctx.cov["exported_histories_len3"] = len(cases3)
            order3 = list(range(len(cases3)))
            rng(ctx.seed, "c11-order3").shuffle(order3)
            pos = 0
            n3done = 0
            while pos < len(order3) and (_time.time() - t_start) < 700:
                part = order3[pos:pos + 512]
                pos += len(part)
                jobs = [(header3, cases3[i], *_combo_for(cases3[i], pos + n), ("hist3", i), ctx.seed, None) for n, i in enumerate(part)]
                for job, res in zip(jobs, pool.imap(_work, jobs, chunksize=4)):
                    _merge(ctx, res, agg)
                    executed += 1
                    n3done += 1
                    ctx.count_case(("hist3", job[1]["steps"], job[2], job[3]), nontrivial=True)
            ctx.cov["len3_histories_replayed_of_exported"] = f"{n3done}/{len(cases3)}"
    for sj in sweep_jobs:
        ctx.count_case(("sweep",) + tuple(str(x) for x in sj[4]), nontrivial=sj[4][1] != "ok")
    ctx.count_traces(agg["steps"])
    ctx.cov["histories_replayed"] = executed
    ctx.cov["append_calls_compared"] = agg["steps"]
    ctx.cov["appends_accepted"] = agg["accepted"]
    ctx.cov["appends_rejected"] = agg["rejected"]
    ctx.cov["filtered_scans_compared"] = agg["filter_scans"]
    ctx.cov["rejected_appends_leaving_an_unreferenced_file"] = agg["orphans_after_reject"]
    ctx.cov["model_drift_notes"] = agg["drift"]
    ctx.cov["model_drift_samples"] = agg["drift_samples"]
    ctx.cov["exhaustive"] = (not quick) and ctx.cov.get("extra_histories_len2", 0) + len(chosen) == len(cases)
    if (agg["accepted"] < 100 or agg["rejected"] < 100) and not ctx.violations:
        # (with violations already reported the verdict stands; a library that rejects or accepts
        #  everything is judged by those, not by this self-check)
        raise MachineryError(f"vacuous replay: {agg['accepted']} accepted / {agg['rejected']} rejected appends")
    ctx.rule("case = one TLC history of MC_SchemaAccept (sequence of appends [handle, fresh, kind, schema/file variant, value class]) "
             "concretised for one (T1,T2) column-type combination, or one value of a type's value table placed in the second append "
             "(value sweep); non-trivial = some step has a schema argument / pre-built file / non-plain value class / re-opened handle; "
             "distinct by (history, types) resp. (class, type, value index, column)")
    ctx.sample({"history": cases[chosen[0]]["steps"], "model_outcomes": [o["stage"] for o in cases[chosen[0]]["outs"]]})
    ctx.sample({"history": cases[chosen[len(chosen) // 2]]["steps"], "model_outcomes": [o["stage"] for o in cases[chosen[len(chosen) // 2]]["outs"]]})
    ctx.sample({"value_sweep_case": [str(x) for x in sweep_jobs[len(sweep_jobs) // 3][4]], "special": repr(sweep_jobs[len(sweep_jobs) // 3][6])})
    ctx.assume(
        "pa.concat_tables accepts only identical schemas and the parquet footer keeps column order/nullability (platform facts mirrored in ScanOK; re-observed by every replay)",
        "the table always has a persisted schema (create_table(path, schema)); tables created without a schema accept any schema argument by design and are out of this model",
        "one append per transaction (Table.append_records / Table.append_data); local storage backend",
        "'the declared type's representation' = harness/props/c11.py represent(): same number / text / day / instant in the column type; float64->float32 rounding "
        "(incl. IEEE overflow to inf) and int days/microseconds in temporal columns count as representation, losing a fraction, a time of day or integer digits does not",
        "TLC bounds: histories of <= 3 appends, 2 handles, 3 columns (two of one type)",
    )


def replay(ctx: Ctx, path: str) -> None:
    """Re-run one recorded violation: ./check C11 --replay replays/C11/<file>.json"""
    with open(path) as f:
        rec = json.load(f)
    p = rec["replay"]
    outdir = scratch_dir("c11out")
    out2 = os.path.join(outdir, "hist2.ndjson")
    res = tlc.run_tlc("MC_SchemaAccept", _cfg(True, True, 1, 1, []), env={"VERIF_OUT": out2}, deadlock=False, label="header export")
    ctx.add_tlc(res)
    header, _ = _load(out2)
    specials = None
    if p.get("specials"):
        # special values are stored as repr(); they are rebuilt from the value tables by position
        specials = {}
        for k, (col, rep) in p["specials"].items():
            for table in (OK_VALUES, NARROW_VALUES, UNCONVERTIBLE_VALUES, TRUNCATING_VALUES):
                for vals in table.values():
                    for v in vals:
                        if repr(v) == rep:
                            specials[int(k)] = (col, v)
    salt = tuple(p["salt"]) if isinstance(p["salt"], list) else p["salt"]
    bulk = {int(k): v for k, v in p["bulk"].items()} if p.get("bulk") else None
    out = replay_history(header, p["history"], p["t1"], p["t2"], salt, p["seed"], specials, bulk=bulk)
    for sig, what, payload in out.violations:
        ctx.violation(sig, what, payload)
    ctx.count_traces(out.steps)
