"""C08 - A stale lock holder or delayed pointer write cannot lose an update on S3.

Specification: spec/DataShard.tla with Backend = "s3cas" and LockKind in {"none" (a lock that grants
everyone), "lease" (the S3 lock: taken over once its lease lapsed while the old holder is paused and
still believes it holds it; Heartbeat renews)}.  A pointer write "delayed in flight" is the actor
paused at the FlipHint step (the conditional PUT's precondition is evaluated when it lands) while
other committers run whole commits.  Invariants: Serializable, AckedOnce, FlipReplacesValidated (a
successful flip replaced exactly the version the committer validated against), LostLockNeverAcks (a
committer whose lock was taken over before it passed the fence never commits that attempt).

TLC: all interleavings of 2-3 committers (appends, deletes, expiries) under both lock kinds with
clock ticks (lease lapses) and heartbeats at every point; anti-vacuity: the pre-repair CAS read (ETag
taken from a second pointer read that was never compared with the validated version) must lose an
update; a non-CAS backend with the grant-all lock must lose an update.
Binding: the real MetadataManager.commit / S3LockProvider on the in-memory S3 (content-hash ETags,
conditional PUT semantics) under the baton scheduler; every single-pause schedule, seeded
double-pause and random schedules with lease-lapse (virtual clock jumps beyond the lease) and
heartbeat steps; the trace records, for the conditional PUT, which pointer read its If-Match came
from, and TLC requires it to be the read the model recorded.
"""
from __future__ import annotations

from typing import Any, Dict, List, Tuple

from .. import l1
from ..common import Ctx, rng
from ..l1 import ActorSpec as A, Scenario
from ..tlc import Raw
from . import c01

LEVEL = "model_checking"
INV = c01.INV + ["LostLockNeverAcks"]


def mc_configs(quick: bool) -> List[Tuple[str, Dict[str, Any], bool]]:
    b = c01.mc_base
    cas = dict(Backend="s3cas", FixEtag=True, FixInterrupt=True)
    three = dict(Actors=Raw("<- A3"), Role=Raw("<- Role_C3"), Idx=Raw("<- Idx_3"), Handle=Raw("<- Sep_3"))
    c = [
        ("2 appenders, lock grants everyone, CAS", b(LockKind="none", **cas), True),
        ("append || delete, lock grants everyone, CAS", b(LockKind="none", Prog=Raw("<- Prog_AppDel"), **cas), True),
        ("expire || delete-snapshot, grant-all, CAS, coarse clock", b(LockKind="none", Prog=Raw("<- Prog_ExpDs"), ClockMode="coarse", **cas), True),
        ("2 appenders, lease lock with lapses and heartbeats", b(LockKind="lease", ClockMode="coarse", MaxClock=3, Lease=1, **cas), True),
        ("2 appenders, lease lock, acquisition may time out", b(LockKind="lease", ClockMode="coarse", MaxClock=3, Lease=1, FaultKinds={"locktimeout"}, **cas), True),
        ("[must fail] CAS keyed to an unvalidated second read", b(LockKind="none", Backend="s3cas", FixEtag=False), False),
        ("[must fail] grant-all lock without CAS", b(LockKind="none", Backend="s3plain"), False),
    ]
    if not quick:
        c += [
            ("3 committers (append, delete, expire), grant-all, CAS", b(LockKind="none", Prog=Raw("<- Prog_3AppDelExp"), **dict(cas, **three)), True),
            ("append || delete, lease lock, lapses", b(LockKind="lease", ClockMode="coarse", MaxClock=4, Lease=1, **cas), True),
            ("2 appenders, grant-all, CAS, after-effect fault at the pointer write", b(LockKind="none", FaultKinds={"after", "before"}, FaultBudget=1, **cas), True),
        ]
    return c


def scenarios(quick: bool) -> List[Scenario]:
    s = [
        Scenario("s3-2app-grantall", [A("c1", "committer", [{"t": "append"}]), A("c2", "committer", [{"t": "append"}])], backend="s3cas", lock_kind="none"),
        Scenario("s3-appdel-grantall", [A("c1", "committer", [{"t": "append"}]), A("c2", "committer", [{"t": "delete", "refs": [("init", 1)]}])], backend="s3cas", lock_kind="none"),
        Scenario("s3-expds-grantall-frozen", [A("c1", "committer", [{"t": "expire", "cutoff": 8}]), A("c2", "committer", [{"t": "delsnap", "who": ("init", 2)}])],
                 backend="s3cas", lock_kind="none", clock_mode="frozen"),
        Scenario("s3-2app-lease", [A("c1", "committer", [{"t": "append"}]), A("c2", "committer", [{"t": "append"}])], backend="s3cas", lock_kind="lease", clock_mode="coarse"),
    ]
    if not quick:
        s += [
            Scenario("s3-3mix-grantall", [A("c1", "committer", [{"t": "append"}]), A("c2", "committer", [{"t": "delete", "refs": [("init", 1)]}]),
                                          A("c3", "committer", [{"t": "expire", "cutoff": 8}])], backend="s3cas", lock_kind="none"),
            Scenario("s3-2x2-lease", [A("c1", "committer", [{"t": "append"}, {"t": "delete", "refs": [("init", 1)]}]),
                                      A("c2", "committer", [{"t": "append", "n": 2}, {"t": "expire", "cutoff": 8}])], backend="s3cas", lock_kind="lease", clock_mode="coarse"),
            Scenario("s3-2app-excl", [A("c1", "committer", [{"t": "append"}]), A("c2", "committer", [{"t": "append"}])], backend="s3cas", lock_kind="excl"),
        ]
    return s


def lease_jobs(scn: Scenario, steps: Dict[str, int], seed: int, n: int) -> List[Tuple[str, Any]]:
    """p is paused at gate i; the clock jumps beyond the lease; q runs (takes the lock over, commits); p resumes.
    Also with a heartbeat of p's lock before/after the jump."""
    r = rng(seed, scn.name, "lease")
    names = [a.name for a in scn.actors]
    jobs: List[Tuple[str, Any]] = []
    for p in names:
        for i in range(0, steps.get(p, 0) + 1):
            others = [x for x in names if x != p]
            sched: List[Any] = [[p, i], ["env", "lapse"]]
            for q in others:
                sched.append([q, 400])
            sched.append([p, 400])
            jobs.append(("list", sched))
    for _ in range(n):
        p, q = r.sample(names, 2)
        sched = [[p, r.randint(0, steps[p])], ["env", r.choice(["lapse", "heartbeat", "tick"])], [q, r.randint(0, steps[q])],
                 ["env", r.choice(["lapse", "heartbeat", "tick"])], [p, r.randint(0, 30)], [q, 400], [p, 400]]
        jobs.append(("list", sched))
    return jobs


def fault_race_jobs(scn: Scenario, steps: Dict[str, int]) -> List[Tuple[str, Any]]:
    """p is paused at gate i; every other committer runs a whole commit; p's NEXT request fails without having landed
    (a transport error: OSError / botocore ClientError); p resumes.  With i at the pointer write this is "the conditional
    PUT was lost in transit after a rival's commit landed": whatever p does next (report, re-read, re-send) must not
    acknowledge on a pointer other than the one it validated."""
    names = [a.name for a in scn.actors]
    jobs: List[Tuple[str, Any]] = []
    for p in names:
        others = [x for x in names if x != p]
        for i in range(0, steps.get(p, 0) + 1):
            for kind in ("oserror", "clienterror"):
                jobs.append(("list", [[p, i]] + [[q, 400] for q in others] + [["fault", p, "before", kind], [p, 400]] + [[q, 400] for q in others]))
    return jobs


def run(ctx: Ctx) -> None:
    quick = ctx.tier == "quick"
    try:
        c01.run_mc(ctx, mc_configs(quick), INV)
        plain = [s for s in scenarios(quick) if s.lock_kind != "lease"]
        c01.conformance(ctx, plain, n_random=12 if quick else 300, n_double=20 if quick else 500, stride=1,
                        extra_jobs=lambda scn, steps: fault_race_jobs(scn, steps) if (not quick or scn.name == "s3-2app-grantall") else [])
        # lease scenarios: schedules with lease lapses and heartbeats
        lease = [s for s in scenarios(quick) if s.lock_kind == "lease"]
        c01.conformance(ctx, lease, n_random=0, n_double=10 if quick else 200, stride=2 if quick else 1,
                        extra_jobs=lambda scn, steps: lease_jobs(scn, steps, ctx.seed, 20 if quick else 400))
    finally:
        l1.close_pool()
    ctx.rule("model: all interleavings under a lock that grants everyone and under a lease lock with lapses/heartbeats at every point; implementation: real "
             "MetadataManager.commit + S3LockProvider on the in-memory S3, every single-pause schedule (= a conditional PUT delayed past whole commits of the others), "
             "lease lapse inserted at every scheduling point, a never-landed (transport) failure of every request after the rival's whole commit, seeded multi-pause schedules; non-trivial = conflict/retry/takeover occurred or steps interleave")
    ctx.assume("the in-memory S3 is strongly consistent with content-hash (MD5) ETags and AWS conditional-PUT semantics",
               "a pointer write delayed in flight is represented by pausing the writer immediately before the request (its precondition is evaluated on landing)",
               "the lease lock is abstracted to holder + last-renewal time here; its request-level protocol is C19's S3Lock.tla")
