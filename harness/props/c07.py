"""C07 - Garbage collection fails closed.

Specification: spec/DataShard.tla collector with its failure handling: GFaultReach (a reachable
manifest list / manifest missing, unparseable or failing transiently => abort before any delete),
GFaultEarly (metadata unreadable), GFaultMarkList (marker directory unlistable => abort),
GMarkUnreadable (unreadable marker keeps protecting), GMarkUndeletable, GFaultList / GListEscaping
(listing fails or returns a path outside the table => abort before any delete), GSkip.
Invariants: AbortDeletesNothing (a run that raised deleted nothing), InflightPresent,
ReachablePresent, OnlyOrphansDeleted.

TLC: every single collector fault at every step, racing an in-flight transaction; anti-vacuity: the
pre-repair failure handling (marker listing failure = no markers; guards inside the delete loop)
must violate InflightPresent / AbortDeletesNothing.
Binding: on the real library every storage call of a collection run is failed once (and every
listing is made to return an escaping path once), over tables with three retained snapshots, old
orphans, and an in-flight transaction paused at several points; damaged tables (reachable list /
manifest missing or replaced by garbage); each trace validated by TLC against the same actions.
"""
from __future__ import annotations

from typing import Any, Dict, List, Tuple

from .. import l1
from ..common import Ctx, MachineryError, rng
from ..l1 import ActorSpec as A, Scenario
from ..tlc import Raw
from . import c01, c06

LEVEL = "model_checking"
INV = c06.INV


def mc_configs(quick: bool) -> List[Tuple[str, Dict[str, Any], bool]]:
    b = c01.mc_base
    g = dict(c06.G1, MaxClock=2 if quick else 3)
    return [
        ("collector with one fault || append", b(Prog=Raw("<- Prog_GApp"), FaultBudget=1, **g), True),
        ("collector with one fault || delete", b(Prog=Raw("<- Prog_GDel"), FaultBudget=1, **g), True),
        ("[must fail] pre-repair failure handling", b(Prog=Raw("<- Prog_GApp"), FaultBudget=1, **dict(g, FixGCFail=False)), False),
    ] + ([] if quick else [("collector with two faults || append", b(Prog=Raw("<- Prog_GApp"), FaultBudget=2, **dict(g, MaxClock=2)), True)])


def run(ctx: Ctx) -> None:
    quick = ctx.tier == "quick"
    from concurrent.futures import ThreadPoolExecutor

    try:
        c01.run_mc(ctx, mc_configs(quick), INV)
        gc = A("g1", "collector", [{"t": "gc", "grace": 1000}])
        base = dict(data_age_ms=10000, orphans=2, init_snaps=3)
        scns = [
            (Scenario("gcf-inflight-append", [A("c1", "committer", [{"t": "append"}]), gc], **base), list(range(0, 44, 4)) + [30] if not quick else [12, 30]),
            (Scenario("gcf-inflight-delete", [A("c1", "committer", [{"t": "delete", "refs": [("init", 1)]}]), gc], **base), list(range(0, 36, 4)) + [20] if not quick else [20]),
            (Scenario("gcf-damaged-list-missing", [gc], damage=("list", "missing"), **base), [0]),
            (Scenario("gcf-damaged-list-garbage", [gc], damage=("list", "garbage"), **base), [0]),
            (Scenario("gcf-damaged-manifest-garbage", [gc], damage=("man", "garbage"), **base), [0]),
            (Scenario("gcf-damaged-manifest-missing", [gc], damage=("man", "missing"), **base), [0]),
            (Scenario("gcf-damaged-list-jsonobject", [gc], damage=("list", "jsonobject"), **base), [0]),
            (Scenario("gcf-damaged-manifest-emptyobject", [gc], damage=("man", "emptyobject"), **base), [0]),
        ]
        batches = []
        for scn, pauses in scns:
            steps = l1.solo_steps(scn)
            jobs: List[Tuple[str, Any]] = []
            others = [a.name for a in scn.actors if a.name != "g1"]
            for pre in pauses:
                head = [[o, pre] for o in others]
                tail = [["g1", 400]] + [[o, 400] for o in others]
                jobs.append(("list", head + tail))
                if scn.damage:
                    continue
                for k in range(steps["g1"] + 1):
                    for kind in ("before", "escape"):
                        jobs.append(("list", head + [["g1", k], ["fault", "g1", kind, "oserror"]] + tail))
                if pre == pauses[-1] and pre > 0:
                    # the transaction has been stalled for longer than the grace period: its manifests and list are OLD and
                    # in flight, only their markers protect them - also when a marker cannot be read or stat'ed
                    jobs.append(("list", head + [["env", "lapse"]] + tail))
                    for k in range(steps["g1"] + 1):
                        jobs.append(("list", head + [["env", "lapse"], ["g1", k], ["fault", "g1", "before", "oserror"]] + tail))
            traces = l1.run_many(scn, jobs)
            for t in traces:
                if t.get("harness_error"):
                    raise MachineryError(f"execution of {scn.name} failed in the harness: {t['harness_error']}")
            ctx.cov["faults_delivered"] = ctx.cov.get("faults_delivered", 0) + sum(1 for t in traces if any(e["k"] == "Fault" or e.get("esc") for e in t["events"]))
            ctx.cov["runs_aborted"] = ctx.cov.get("runs_aborted", 0) + sum(1 for t in traces if "aborted" in t["outcomes"].get("g1", []) or "error" in t["outcomes"].get("g1", []))
            for lo in range(0, len(traces), 120):
                batches.append((scn, traces[lo:lo + 120]))
            mid = traces[len(traces) // 2]
            ctx.sample({"scenario": scn.name, "schedule": mid["schedule"], "outcomes": mid["outcomes"], "errors": {k: [x[:120] for x in v] for k, v in mid["errors"].items()},
                        "events": [f"{e['a']}:{e['k']}" + (f"({e.get('op')})" if e["k"] == "Fault" else "") for e in mid["events"][:50]]}, cap=5)
        with ThreadPoolExecutor(max_workers=6) as tp:
            verdicts = list(tp.map(lambda b_: l1.validate(b_[0], b_[1]), batches))
        for (scn, batch), v in zip(batches, verdicts):
            ctx.add_tlc(v.res)
            for i, t in enumerate(batch):
                faulted = [e for e in t["events"] if e["k"] == "Fault"] + [e for e in t["events"] if e.get("esc")]
                ctx.count_case((scn.name, [(e["a"], e["k"]) for e in t["events"]], [(e.get("op"), e.get("path"), e.get("dir")) for e in faulted]),
                               nontrivial=bool(faulted) or bool(scn.damage))
                ctx.count_traces(1)
                if v.accepted[i]:
                    continue
                fdesc = (faulted[0].get("op"), faulted[0].get("cls"), faulted[0].get("path") or faulted[0].get("dir")) if faulted else scn.damage
                replay = {"scenario": scn.name, "schedule": t["schedule"], "outcomes": t["outcomes"], "errors": t["errors"]}
                if v.violated[i] is not None:
                    pos, inv = v.violated[i]
                    replay["events"] = t["events"][max(0, pos - 14):pos]
                    ctx.violation(f"{inv}:{scn.name}:{fdesc}", f"invariant {inv} violated by a real collection run of {scn.name} with fault {fdesc} "
                                  f"(outcomes {t['outcomes']})", replay)
                else:
                    pos = v.reached[i]
                    evs = t["events"]
                    bad = evs[pos - 1] if 0 < pos <= len(evs) else {}
                    replay["events"] = evs[max(0, pos - 12):pos + 1]
                    ctx.violation(f"nonconformance:{scn.name}:{fdesc}:{bad.get('k')}",
                                  f"real collection run of {scn.name} with fault {fdesc} is not a behaviour of DataShard.tla: event {pos} "
                                  f"{ {k: x for k, x in bad.items() if k not in ('obs', 'body')} } has no enabled action", replay)
    finally:
        l1.close_pool()
    ctx.rule("model: one fault at every collector step racing an in-flight transaction; implementation: every storage call of a collection run failed once (OSError) and every "
             "listing made to return an escaping path once, with an in-flight transaction paused at several points, plus tables whose reachable list/manifest is missing or garbage; "
             "non-trivial = a fault was delivered or the table is damaged; distinct by (event sequence, fault)")
    ctx.assume("transient and permanent storage errors are both represented by an exception raised by the storage call",
               "the grace-period proviso of C06 applies (run shorter than grace)")
