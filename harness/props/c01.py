"""C01 - Concurrent commits are serializable.

Specification: spec/DataShard.tla (L1 protocol at storage-operation granularity), invariants
Serializable, LinearChain, AckedOnce, NoDoubleCommit, FlipReplacesValidated.

1. TLC explores every interleaving of the model for small scenarios (2-3 committers; appends,
   deletes, expiries, snapshot deletions; separate and shared handles; strict / coarse / frozen
   clocks; local and CAS backends) - plus anti-vacuity companions that must FAIL (the lock that
   grants everyone without CAS; the pre-repair OCC stamp under a coarse clock).
2. Binding code -> spec: the same scenarios run on the REAL library under the deterministic baton
   scheduler (every storage call, lock attempt, stored clock read is a scheduling point); the
   recorded spec-level trace of every execution is validated by TLC against the same actions
   (Trace_L1.tla): the metadata body / manifests / lists the code wrote must equal what the model
   computes, every step must be enabled, the independent reader's projection of the final storage
   must equal the model's storage, and every invariant is evaluated after every event.
   Schedules: all single-pause schedules (a whole commit of the others lands while one actor is
   paused at each of its scheduling points), seeded double-pause and random walks.
"""
from __future__ import annotations

import json
from typing import Any, Dict, List, Tuple

from .. import l1, tlc
from ..common import Ctx, MachineryError, rng
from ..l1 import ActorSpec, Scenario
from ..tlc import Raw

LEVEL = "model_checking"

INV = ["TypeOK", "Serializable", "LinearChain", "AckedOnce", "NoDoubleCommit", "ReachablePresent", "FlipReplacesValidated", "NoLiveDelete"]


def mc_base(**over: Any) -> Dict[str, Any]:
    base = {"Actors": Raw("<- A2"), "Role": Raw("<- Role_C2"), "Idx": Raw("<- Idx_2"), "Handle": Raw("<- Sep_2"),
            "Prog": Raw("<- Prog_2App"), "Backend": "local", "LockKind": "excl", "ClockMode": "strict",
            "MaxClock": 6, "MaxAttempts": 2, "InitSnaps": 2, "InitTable": "healthy", "FixOrphanMeta": False, "FixMetaInTry": True, "FixStamp": True, "FixEtag": False, "FixGCOrder": False, "FixGCFail": False,
            "FixInterrupt": False, "FaultKinds": set(), "DamageKinds": set(), "CrashOK": False, "FaultBudget": 0, "Grace": 0, "OldFiles": False, "PreFiles": set(), "Lease": 2, "MarkerTimeout": 1000}
    base.update(over)
    return base


def mc_configs(quick: bool) -> List[Tuple[str, Dict[str, Any], bool]]:
    """(label, constants, must_hold)"""
    c = [
        ("2 appenders, separate handles, strict clock", mc_base(), True),
        ("append || delete", mc_base(Prog=Raw("<- Prog_AppDel")), True),
        ("expire || delete-snapshot, coarse clock", mc_base(Prog=Raw("<- Prog_ExpDs"), ClockMode="coarse"), True),
        ("append || expire, frozen clock", mc_base(Prog=Raw("<- Prog_AppExp"), ClockMode="frozen"), True),
        ("2 appenders, CAS backend", mc_base(Backend="s3cas"), True),
        # anti-vacuity: these MUST fail
        ("[must fail] pre-repair OCC stamp, coarse clock", mc_base(Prog=Raw("<- Prog_ExpDs"), ClockMode="coarse", FixStamp=False), False),
        ("[must fail] lock grants everyone, no CAS", mc_base(LockKind="none"), False),
    ]
    if not quick:
        c += [
            ("3 appenders", mc_base(Actors=Raw("<- A3"), Role=Raw("<- Role_C3"), Idx=Raw("<- Idx_3"), Handle=Raw("<- Sep_3"), Prog=Raw("<- Prog_3App")), True),
            ("append || expire || delete-snapshot, coarse", mc_base(Actors=Raw("<- A3"), Role=Raw("<- Role_C3"), Idx=Raw("<- Idx_3"), Handle=Raw("<- Sep_3"), Prog=Raw("<- Prog_3Mix"), ClockMode="coarse"), True),
            ("2x2 operations, shared handle", mc_base(Prog=Raw("<- Prog_2x2"), Handle=Raw("<- Shared_2")), True),
            ("2x2 operations, separate handles, coarse", mc_base(Prog=Raw("<- Prog_2x2"), ClockMode="coarse", MaxClock=4), True),
        ]
    return c


def scenarios(quick: bool) -> List[Scenario]:
    A = ActorSpec
    s = [
        Scenario("2app-sep-strict", [A("c1", "committer", [{"t": "append"}]), A("c2", "committer", [{"t": "append"}])]),
        Scenario("app-del-sep", [A("c1", "committer", [{"t": "append"}]), A("c2", "committer", [{"t": "delete", "refs": [("init", 1)]}])]),
        Scenario("exp-ds-frozen", [A("c1", "committer", [{"t": "expire", "cutoff": 8}]), A("c2", "committer", [{"t": "delsnap", "who": ("init", 2)}])], clock_mode="frozen"),
        Scenario("app-exp-coarse", [A("c1", "committer", [{"t": "append"}]), A("c2", "committer", [{"t": "expire", "cutoff": 8}])], clock_mode="coarse"),
        Scenario("2x2-shared", [A("c1", "committer", [{"t": "append"}, {"t": "delete", "refs": [("init", 1)]}], handle="h"),
                                A("c2", "committer", [{"t": "append", "n": 2}, {"t": "expire", "cutoff": 8}], handle="h")]),
    ]
    if not quick:
        s += [
            Scenario("3app-sep", [A("c1", "committer", [{"t": "append"}]), A("c2", "committer", [{"t": "append"}]), A("c3", "committer", [{"t": "append"}])]),
            Scenario("3mix-coarse", [A("c1", "committer", [{"t": "append"}]), A("c2", "committer", [{"t": "expire", "cutoff": 8}]),
                                     A("c3", "committer", [{"t": "delsnap", "who": ("init", 2)}])], clock_mode="coarse"),
            Scenario("del-del-same-file", [A("c1", "committer", [{"t": "delete", "refs": [("init", 1)]}]), A("c2", "committer", [{"t": "delete", "refs": [("init", 1), ("init", 2)]}])]),
            Scenario("ds-of-concurrent", [A("c1", "committer", [{"t": "append"}, {"t": "append"}]), A("c2", "committer", [{"t": "delsnap", "who": ("c1", 1)}, {"t": "delete", "refs": [("c1", 1, 1)]}])], init_snaps=1),
            Scenario("2x2-sep-frozen", [A("c1", "committer", [{"t": "append"}, {"t": "expire", "cutoff": 8}]),
                                        A("c2", "committer", [{"t": "delsnap", "who": ("init", 1)}, {"t": "append"}])], clock_mode="frozen"),
        ]
    return s


def conformance(ctx: Ctx, scns: List[Scenario], n_random: int, n_double: int, stride: int, prop: str = "C01", extra_jobs: Any = None) -> None:
    """Execute the schedules of every scenario on the real library, then validate all traces with TLC
    (batches of <= 120 traces per JVM, several JVMs at a time)."""
    from concurrent.futures import ThreadPoolExecutor

    batches: List[Tuple[Scenario, List[Dict[str, Any]]]] = []
    for scn in scns:
        steps = l1.solo_steps(scn)
        jobs: List[Tuple[str, Any]] = [("list", s_) for s_ in l1.single_pause_schedules(scn, steps, stride)]
        jobs += [("list", s_) for s_ in l1.double_pause_schedules(scn, steps, rng(ctx.seed, scn.name, "dbl"), n_double)]
        env_p = {"tick": 0.05} if scn.clock_mode == "coarse" else None
        jobs += [("random", (ctx.seed * 100003 + i, 0.2, env_p)) for i in range(n_random)]
        if extra_jobs is not None:
            jobs += extra_jobs(scn, steps)
        traces = l1.run_many(scn, jobs)
        for t in traces:
            if t.get("harness_error"):
                raise MachineryError(f"execution of {scn.name} failed in the harness: {t['harness_error']}")
        for lo in range(0, len(traces), 120):
            batches.append((scn, traces[lo:lo + 120]))
        ctx.sample({"scenario": scn.name, "schedule": traces[len(traces) // 2]["schedule"], "outcomes": traces[len(traces) // 2]["outcomes"],
                    "events": [f"{e['a']}:{e['k']}" for e in traces[len(traces) // 2]["events"][:40]]}, cap=4)
    with ThreadPoolExecutor(max_workers=6) as tp:
        verdicts = list(tp.map(lambda b: l1.validate(b[0], b[1]), batches))
    for (scn, batch), v in zip(batches, verdicts):
        ctx.add_tlc(v.res)
        for i, t in enumerate(batch):
            conflict = any(o in ("cme",) for os_ in t["outcomes"].values() for o in os_) or any(e["k"] == "Backoff" for e in t["events"])
            ctx.count_case((scn.name, [(e["a"], e["k"]) for e in t["events"]]), nontrivial=conflict or len({e["a"] for e in t["events"][:20]}) > 1)
            ctx.count_traces(1)
            if v.accepted[i]:
                continue
            replay = {"scenario": scn.name, "schedule": t["schedule"], "outcomes": t["outcomes"], "errors": t["errors"]}
            if v.violated[i] is not None:
                pos, inv = v.violated[i]
                replay["events"] = t["events"][max(0, pos - 12):pos]
                ctx.violation(f"{inv}:{scn.name}", f"invariant {inv} violated by a real execution of scenario {scn.name} "
                              f"(event {pos}; outcomes {t['outcomes']})", replay)
            else:
                pos = v.reached[i]
                evs = t["events"]
                bad = evs[pos - 1] if 0 < pos <= len(evs) else {}
                replay["events"] = evs[max(0, pos - 10):pos + 1]
                ctx.violation(f"nonconformance:{scn.name}:{bad.get('k')}",
                              f"real execution of {scn.name} is not a behaviour of DataShard.tla: event {pos} "
                              f"{ {k: v_ for k, v_ in bad.items() if k not in ('obs', 'body')} } has no enabled action", replay)


def binding_selftest(ctx: Ctx) -> None:
    """The trace specification must reject a corrupted trace (one field changed, one event dropped)."""
    scn = scenarios(True)[0]
    t = l1.execute(scn, l1.ListPolicy([]))
    good = json.loads(json.dumps(t))
    bad1 = json.loads(json.dumps(t))
    for e in bad1["events"]:
        if e["k"] == "WriteMeta":
            e["body"]["lastSeq"] += 1
            break
    bad2 = json.loads(json.dumps(t))
    bad2["events"] = [e for e in bad2["events"] if not (e["k"] == "Resolve" and e.get("why") == "validate")]     # no validation read at all
    bad3 = json.loads(json.dumps(t))
    i1 = next(i for i, e in enumerate(bad3["events"]) if e["k"] == "WriteMeta")
    i2 = next(i for i, e in enumerate(bad3["events"]) if e["k"] == "FlipHint")
    bad3["events"][i1], bad3["events"][i2] = bad3["events"][i2], bad3["events"][i1]
    v = l1.validate(scn, [good, bad1, bad2, bad3])
    ctx.add_tlc(v.res)
    if not v.accepted[0]:
        # the library's own straight-line execution is not a behaviour of the specification: that is a verdict about the
        # code under test (reported by the conformance pass with the failing event), not a failure of the machinery
        ctx.cov["binding_selftest"] = "skipped: the untouched solo trace is itself rejected (see the nonconformance reported by the conformance pass)"
        return
    if v.accepted != [True, False, False, False]:
        raise MachineryError(f"binding self-test failed: accepted={v.accepted} (expected the untouched trace only)")
    ctx.cov["binding_selftest"] = "corrupted metadata body / dropped validation read / pointer flipped before metadata write: all rejected"


def run_mc(ctx: Ctx, configs: List[Tuple[str, Dict[str, Any], bool]], invs: List[str], timeout_s: int = 1500, module: str = "MC_DataShard") -> None:
    from concurrent.futures import ThreadPoolExecutor

    def one(c: Tuple[str, Dict[str, Any], bool]) -> Any:
        label, consts, _must = c
        cfg = tlc.make_cfg(spec="Spec", constants=consts, invariants=invs, check_deadlock=False)
        return tlc.run_tlc(module, cfg, timeout_s=timeout_s, label=label, workers=4)

    with ThreadPoolExecutor(max_workers=4) as tp:
        results = list(tp.map(one, configs))
    for (label, consts, must_hold), res in zip(configs, results):
        ctx.add_tlc(res)
        if must_hold and not res.ok and res.timed_out and not res.violated:
            # the time limit ended the exploration: the property held on everything explored (reported as such, not as a verdict)
            ctx.cov.setdefault("model_runs_stopped_by_time_limit", []).append({"scenario": label, "distinct_states_explored": res.distinct, "wall_s": round(res.wall_s, 1)})
            continue
        if must_hold and not res.ok:
            ctx.violation(f"model:{label}", f"TLC: {res.violated or 'timeout'} in the protocol model, scenario '{label}'", res.error_trace[:6000])
        if not must_hold and not res.violated:
            raise MachineryError(f"anti-vacuity: scenario '{label}' was expected to violate an invariant but passed")


def run(ctx: Ctx) -> None:
    quick = ctx.tier == "quick"
    try:
        run_mc(ctx, mc_configs(quick), INV)
        binding_selftest(ctx)
        conformance(ctx, scenarios(quick), n_random=12 if quick else 300, n_double=12 if quick else 400, stride=2 if quick else 1)
    finally:
        l1.close_pool()
    ctx.rule("model: all interleavings of the listed scenarios (TLC, exhaustive); implementation: every single-pause schedule, "
             "seeded double-pause and random schedules of each scenario executed on the real library under the baton scheduler, each trace "
             "validated by TLC against the same actions; non-trivial = a conflict/retry occurred or the actors' steps interleave; distinct by event sequence")
    ctx.assume("snapshot/file identifiers are canonicalised (63-bit id collisions are not modelled)",
               "max_retries=50 in the code; the model explores up to MaxAttempts=2 attempts, real executions use the real limit",
               "the deterministic scheduler serialises actor threads: true parallelism inside one storage call is not explored",
               "purpose tags of pointer reads come from call-stack inspection of the unmodified library")
