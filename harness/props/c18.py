"""C18 - Creating a table is idempotent and race-safe.

Specification: spec/DataShard.tla operation "create" (KOpen, KTLock, KDLock, KCheck, KStamp,
KWriteMeta, KWriteHint, KDUnlock, KTUnlock, KReturn = Table.__init__ + initialize_table at
storage-operation granularity) over the initial states absent / healthy / pointer lost / pointer
garbage, local and CAS backends, exclusive / grant-all locks.  Invariants: SingleInit (every caller of
create/open ends up on one and the same table; a pre-existing table keeps its identity),
NeverReinitialised, Serializable (first appends of all creators are all reflected), AckedOnce,
ReachablePresent, ResolveLatestCommitted.

TLC: all interleavings of 2-3 creators (each followed by a first append in the 2-creator configs);
anti-vacuity: a grant-all lock on a backend without CAS must violate SingleInit.
Binding: create_table() calls (handle construction included) as actors on the real library under the
baton scheduler, followed by first appends through the handle each caller got; every single-pause
schedule plus seeded double-pause/random ones, each trace validated by TLC (the uuid written, the
pointer write's precondition and outcome, the identity the caller ends up on, rows after the
concurrent first appends via the final observation).  Separately: a schema passed at creation is
persisted and used by schema-less appends, and an append without any schema raises instead of
writing empty rows (replayed directly against the library with the spec's acceptance rule).
"""
from __future__ import annotations

import shutil
from typing import Any, Dict, List, Tuple

from .. import l1
from ..common import Ctx, scratch_dir
from ..l1 import ActorSpec as A, Scenario
from ..tlc import Raw
from . import c01

LEVEL = "model_checking"
INV = c01.INV + ["SingleInit", "NeverReinitialised", "ResolveLatestCommitted"]


def mc_configs(quick: bool) -> List[Tuple[str, Dict[str, Any], bool]]:
    b = c01.mc_base
    fix = dict(FixEtag=True, FixInterrupt=True)
    three = dict(Actors=Raw("<- A3"), Role=Raw("<- Role_C3"), Idx=Raw("<- Idx_3"), Handle=Raw("<- Sep_3"), Prog=Raw("<- Prog_3Create"))
    c = [
        ("2 creators + first appends, no table, local", b(Prog=Raw("<- Prog_2Create"), InitTable="absent", **fix), True),
        ("2 creators + first appends, healthy table", b(Prog=Raw("<- Prog_2Create"), InitTable="healthy", **fix), True),
        ("2 creators + first appends, pointer lost", b(Prog=Raw("<- Prog_2Create"), InitTable="hintlost", **fix), True),
        ("2 creators + first appends, pointer garbage, CAS", b(Prog=Raw("<- Prog_2Create"), InitTable="hintgarbage", Backend="s3cas", **fix), True),
        ("3 creators, no table, CAS, lock grants everyone", b(InitTable="absent", Backend="s3cas", LockKind="none", **dict(fix, **three)), True),
        ("[must fail] 2 creators, no table, no CAS, lock grants everyone", b(Prog=Raw("<- Prog_2Create"), InitTable="absent", LockKind="none", **fix), False),
    ]
    if not quick:
        c += [
            ("2 creators + first appends, no table, CAS, exclusive lock", b(Prog=Raw("<- Prog_2Create"), InitTable="absent", Backend="s3cas", **fix), True),
            ("3 creators, no table, local", b(InitTable="absent", **dict(fix, **three)), True),
            ("creator || appender on an existing table", b(Prog=Raw("<- Prog_CreateVsApp"), InitTable="healthy", **fix), True),
        ]
    return c


def scenarios(quick: bool) -> List[Scenario]:
    two = lambda: [A("c1", "committer", [{"t": "create"}, {"t": "append"}]), A("c2", "committer", [{"t": "create"}, {"t": "append"}])]  # noqa: E731
    s = [
        Scenario("create2-absent-local", two(), init_table="absent"),
        Scenario("create2-healthy-local", two(), init_table="healthy"),
        Scenario("create2-hintlost-local", two(), init_table="hintlost"),
        Scenario("create2-absent-s3cas", two(), init_table="absent", backend="s3cas"),
        Scenario("create2-absent-s3cas-grantall", two(), init_table="absent", backend="s3cas", lock_kind="none"),
    ]
    if not quick:
        s += [
            Scenario("create3-absent-local", [A(f"c{i}", "committer", [{"t": "create"}, {"t": "append"}]) for i in (1, 2, 3)], init_table="absent"),
            Scenario("create2-hintgarbage-s3cas", two(), init_table="hintgarbage", backend="s3cas"),
            Scenario("create2-hintlost-s3cas-grantall", two(), init_table="hintlost", backend="s3cas", lock_kind="none"),
            Scenario("create-vs-append-healthy", [A("c1", "committer", [{"t": "create"}, {"t": "append"}]), A("c2", "committer", [{"t": "append"}, {"t": "append"}])], init_table="healthy"),
        ]
    return s


def schema_clause(ctx: Ctx) -> None:
    """'A schema supplied at creation is persisted and used by schema-less appends, and appends without any
    available schema raise instead of writing empty rows.'"""
    import os

    from datashard import Schema, create_table, load_table

    d = scratch_dir("c18s")
    try:
        sch = Schema(schema_id=7, fields=[{"id": 1, "name": "a", "type": "long", "required": True}, {"id": 2, "name": "b", "type": "string", "required": False}])
        t = create_table(os.path.join(d, "with"), sch)
        t.append_records([{"a": 1, "b": "x"}])                       # schema-less append uses the persisted schema
        t2 = load_table(os.path.join(d, "with"))
        rows = t2.scan()
        ctx.count_case(("schema", "persisted"), True)
        if rows != [{"a": 1, "b": "x"}]:
            ctx.violation("schema:persisted-not-used", f"schema-less append after create_table(schema) returned {rows!r}", {"rows": repr(rows)})
        again = create_table(os.path.join(d, "with"), Schema(schema_id=9, fields=[{"id": 5, "name": "zzz", "type": "double", "required": False}]))
        cur = again._get_current_schema()
        if cur is None or [f["name"] for f in cur.fields] != ["a", "b"]:
            ctx.violation("schema:replaced-by-second-create", f"a second create_table with another schema replaced the persisted one: {cur}", {"schema": repr(cur)})
        ctx.count_case(("schema", "second-create"), True)
        t3 = create_table(os.path.join(d, "without"))
        try:
            t3.append_records([{"a": 1}])
            after = t3.scan()
            ctx.violation("schema:none-accepted", f"append without any schema was accepted; scan returns {after!r}", {"rows": repr(after)})
        except ValueError:
            pass
        ctx.count_case(("schema", "none-raises"), True)
        if t3.snapshots():
            ctx.violation("schema:none-left-snapshot", "a rejected schema-less append left a snapshot behind", {})
    finally:
        shutil.rmtree(d, ignore_errors=True)


def run(ctx: Ctx) -> None:
    quick = ctx.tier == "quick"
    try:
        c01.run_mc(ctx, mc_configs(quick), INV, timeout_s=2400)
        c01.conformance(ctx, scenarios(quick), n_random=12 if quick else 300, n_double=20 if quick else 400, stride=2 if quick else 1)
        schema_clause(ctx)
    finally:
        l1.close_pool()
    ctx.rule("model: all interleavings of 2-3 create/open calls (+ first appends) over the initial states absent/healthy/pointer lost/pointer garbage; implementation: "
             "create_table() incl. handle construction as actors, every single-pause schedule, seeded double-pause and random ones; non-trivial = steps of two callers interleave")
    ctx.assume("'creation interrupted' initial states are represented by metadata-written-but-pointer-missing (pointer lost with only v0) and by C03's crash enumeration of create",
               "in-memory S3 fidelity as in C08")
