"""C19 - Locks exclude, time out, and never report a lock that is not held.

Specifications: spec/S3Lock.tla (conditional-write S3 lock: transcription of lock_provider.py at request granularity,
ETag = function of the body, heartbeat as a separate actor, release = GET + DELETE; reference rules
TakeoverOnlyAfterLapse, ReleaseDeletesOnlyOwn, HolderStable, SupersededObserves, AcquireMeansOwner, TimeoutHonoured)
and spec/FLock.tla (FileLock at syscall granularity on a kernel model: path -> inode, flock keyed by inode and owned
by the open file description; MutualExclusion, DeathReleases, TimeoutHonoured, NoUnlinkRace).

1. TLC, S3: the model with the flags the code under test actually has (probed: does a renewal change the ETag? is
   the release DELETE conditional?).  As is (both FALSE) TLC must find S10a (If-Match takeover right after a renewal)
   and S10b (stalled release deletes the next holder's lock); the other rules hold; with the repairs modelled
   everything holds (2 and 3 clients).  Each flag is shown to be exactly the cause of its defect.
2. TLC, local: all rules hold for 2-3 lockers (threads and processes, with process death); companions that must FAIL:
   unlink on release, blocking flock, O_EXCL mode with a dead holder / a holder older than the stale age.
3. Binding S3: real S3LockProvider instances on an in-memory S3 under the deterministic scheduler with a virtual clock
   (harness/lock_harness.py).  Schedules: every pause point of every method crossed with lapse / heartbeat insertions
   and both resume orders; TLC counterexamples (must reproduce on the real code); TLC-simulated behaviours; seeded
   random walks.  Every trace is validated by TLC against Trace_S3Lock (strict = conformance + rules; the traces the
   transcription does not explain are judged by the reference rules alone: broken rule = violation, else model drift).
4. Binding local: (i) threads with distinct FileLock instances at syscall gates, validated against Trace_FLock;
   (ii) real processes: counter loop logged inside the critical section, SIGKILL of a holder, blocked acquirer.
"""
from __future__ import annotations

import json
import math
import threading
from concurrent.futures import Future, ThreadPoolExecutor
from typing import Any, Callable, Dict, List, Optional, Sequence, Tuple

from .. import lock_harness as lh
from .. import tlc
from ..common import Ctx, MachineryError, rng

LEVEL = "model_checking"

S3_HOLD = ["TypeOK", "AtMostOneBeliever", "SupersededObserves", "TimeoutHonoured"]
S3_DEFECT = {"TakeoverOnlyAfterLapse": "EtagPerWrite", "ReleaseDeletesOnlyOwn": "AtomicRelease"}     # rule -> repairing flag
FL_ALL = ["TypeOK", "MutualExclusion", "DeathReleases", "TimeoutHonoured", "NoUnlinkRace"]
UNIT_MS = 30_000          # one model clock unit when a model behaviour is replayed (Lease = 2 units = 60 s)


# ---- TLC runs ------------------------------------------------------------------------------------------

def _mc_s3(label: str, clients: str, epw: bool, ar: bool, invs: Sequence[str], *, maxnow: int = 4, rounds: int = 1, mw: int = 3, lease: int = 2,
           timeout: int = 2, workers: int = 4, sym: bool = True, **kw: Any) -> Any:
    cfg = tlc.make_cfg(spec="LSpec", constants={"Clients": tlc.Raw("{" + ", ".join(clients) + "}"), "Lease": lease, "Timeout": timeout, "MaxNow": maxnow,
                                                "MaxRounds": rounds, "EtagPerWrite": epw, "AtomicRelease": ar, "MaxWrites": mw,
                                                "ExportAt": kw.pop("export_at", 0)},
                       invariants=invs, constraints=["Bounded"], check_deadlock=False, symmetry="Sym" if sym else None, view="View")
    return tlc.run_tlc("MC_S3Lock", cfg, workers=workers, timeout_s=880, label=label, **kw)


def _mc_s3_live(label: str, props: Sequence[str], epw: bool, ar: bool, *, workers: int = 6) -> Any:
    cfg = tlc.make_cfg(spec="LiveSpec", properties=props,
                       constants={"Clients": {"A", "B"}, "Lease": 2, "Timeout": 2, "MaxNow": 4, "MaxRounds": 1, "EtagPerWrite": epw, "AtomicRelease": ar,
                                  "MaxWrites": 4}, check_deadlock=False)
    return tlc.run_tlc("MC_S3LockLive", cfg, workers=workers, timeout_s=880, label=label)


def _mc_fl(label: str, lockers: str, invs: Sequence[str], *, mode: str = "flock", unlink: bool = False, blocking: bool = False, die: bool = True,
           maxnow: int = 3, rounds: int = 2, timeout: int = 1, stale: int = 2, workers: int = 4, live: Sequence[str] = ()) -> Any:
    cfg = tlc.make_cfg(spec="LiveSpec" if live else "Spec", properties=live, constants={"Lockers": set(lockers), "ProcOf": tlc.Raw("<- MC_ProcOf"), "Timeout": timeout, "StaleAge": stale,
                                               "MaxNow": maxnow, "MaxRounds": rounds, "Mode": mode, "UnlinkOnRelease": unlink,
                                               "BlockingFlock": blocking, "AllowDie": die},
                       invariants=invs, check_deadlock=False)
    return tlc.run_tlc("MC_FLock", cfg, workers=workers, timeout_s=880, label=label)


def _hist_of(res: Any) -> List[List[str]]:
    i = res.error_trace.rfind("hist =")
    if i < 0:
        raise MachineryError(f"no schedule in the counterexample of {res.label}")
    return tlc.plain(tlc.parse_tla(tlc.split_top_level(res.error_trace[i:])[0]))


def _sim_hists(res: Any) -> List[List[List[str]]]:
    vals = [tlc.plain(tlc.parse_tla(v))[1] for v in tlc.split_top_level(res.stdout) if v.replace(" ", "").startswith('<<"HIST"')]
    out: List[List[List[str]]] = []
    for h in vals:                                   # the export fires at the last two levels: keep the longest of each behaviour
        if out and h[:len(out[-1])] == out[-1]:
            out[-1] = h
        else:
            out.append(h)
    return out


def _must_hold(ctx: Ctx, res: Any, what: str) -> None:
    ctx.add_tlc(res)
    if not res.ok:
        ctx.violation(f"model:{what}:{'+'.join(res.violated) or 'incomplete'}",
                      f"TLC: {res.violated or 'run incomplete'} in {res.label} (a rule that must hold in the model of the code as it is)", res.error_trace[:6000])


def _must_fail(ctx: Ctx, res: Any, inv: str, why: str) -> None:
    ctx.add_tlc(res)
    if inv not in res.violated:
        raise MachineryError(f"anti-vacuity: {res.label} no longer violates {inv} ({why}); violated={res.violated}")


# ---- signatures ------------------------------------------------------------------------------------------

def classify_s3(events: List[Dict[str, Any]], pos: int, inv: str) -> str:
    """What kind of step broke the rule (pos = trace position reported by TLC; the step is event pos-1, 1-based)."""
    idx = max(0, pos - 2)
    ev = events[idx]
    a = ev["a"]
    before = events[:idx]
    if ev["k"] == "Put":
        if ev["cond"] == "im":
            last_head = max((i for i, e in enumerate(before) if e["a"] == a and e["k"] == "Head"), default=-1)
            between = [e for e in before[last_head + 1:] if e["k"] == "Put" and e["status"] == "ok" and e["a"] != a]
            if ev["via"] == "takeover" and any(e["body"] == ev["im"] for e in between):
                return "if-match-blind-to-same-etag-write"
            return f"{ev['via']}-of-live-lock"
        return f"{'unconditional' if ev['cond'] == 'none' else ev['cond']}-{ev['via']}"
    if ev["k"] == "Delete":
        gets = [i for i, e in enumerate(before) if e["a"] == a and e["k"] == "Get" and e["via"] == "release"]
        calls = [i for i, e in enumerate(before) if e["a"] == a and e["k"] == "RelCall"]
        if not gets or (calls and gets[-1] < calls[-1]):
            return "delete-without-ownership-read"
        g = before[gets[-1]]
        if g["status"] != "ok" or g["body"].get("owner") != a:
            return "delete-despite-foreign-owner"
        return ("unconditional" if ev["cond"] == "none" else "conditional") + "-delete-after-stale-ownership-read"
    if ev["k"] == "IsHeldRet":
        call = max((i for i, e in enumerate(before) if e["a"] == a and e["k"] == "IsHeldCall"), default=-1)
        read = any(e["a"] == a and e["k"] == "Get" for e in before[call + 1:])
        return "is_held-true-on-foreign-body" if read else "is_held-without-read"
    if inv == "TimeoutHonoured":
        if ev["k"] == "Sleep":
            return "sleep-without-deadline-check"
        return f"continues-after-deadline:{ev['k']}"
    return f"{ev['k']}:{ev.get('via', '')}"


def classify_fl(events: List[Dict[str, Any]], pos: int, inv: str) -> str:
    idx = max(0, pos - 2)
    ev = events[idx]
    before = events[:idx]
    if inv == "MutualExclusion":
        return "second-holder-after-unlink" if any(e["k"] == "Unlink" and e["status"] == "ok" for e in before) else "second-holder-same-inode"
    if inv == "TimeoutHonoured":
        if ev["k"] == "Flock":
            return "blocking-flock-without-deadline"
        if ev["k"] == "Sleep":
            return "sleep-without-deadline-check"
        return f"continues-after-deadline:{ev['k']}"
    return ev["k"]


def _dedupe(traces: Sequence[Dict[str, Any]]) -> List[Dict[str, Any]]:
    seen: Dict[str, Dict[str, Any]] = {}
    for t in traces:
        key = json.dumps([{k: v for k, v in e.items() if k not in ("n", "t")} for e in t["events"]], sort_keys=True)
        seen.setdefault(key, t)
    return list(seen.values())


def _replay_payload(t: Dict[str, Any], pos: Optional[int] = None) -> Dict[str, Any]:
    evs = t["events"]
    lo = 0 if pos is None else max(0, pos - 16)
    return {"kind": t.get("kind"), "programs": t.get("programs"), "decisions": t.get("decisions"), "lease_s": t.get("lease_s"),
            "timeout_s": t.get("timeout_s"), "origin": t.get("origin"),
            "events": [{k: v for k, v in e.items() if v not in ("", lh.NOID, None)} for e in evs[lo:(pos or len(evs))]]}


# ---- judging batches of traces ---------------------------------------------------------------------------

def _judge(ctx: Ctx, family: str, traces: List[Dict[str, Any]], strict: Callable[[List[Dict[str, Any]]], Any],
           reference: Callable[[List[Dict[str, Any]]], Any], classify: Callable[[List[Dict[str, Any]], int, str], str],
           batch: int = 1500) -> Dict[str, int]:
    stats = {"accepted": 0, "violating": 0, "drift": 0}
    redo: List[Dict[str, Any]] = []
    batches = [traces[i:i + batch] for i in range(0, len(traces), batch)]
    with ThreadPoolExecutor(max_workers=3) as tp:
        verdicts = list(tp.map(strict, batches))
    for b, v in zip(batches, verdicts):
        ctx.add_tlc(v.res)
        for i, t in enumerate(b):
            ctx.count_traces(1)
            actors = {e["a"] for e in t["events"] if e["a"] != "env"}
            ctx.count_case((family, [(e["a"], e["k"], e.get("status"), e.get("res")) for e in t["events"]]),
                           nontrivial=len(actors) > 1 and any(e.get("status") not in ("ok", None) for e in t["events"]))
            if v.accepted[i]:
                stats["accepted"] += 1
                t["_accepted"] = True
            elif v.violated[i] is not None:
                pos, inv = v.violated[i]
                stats["violating"] += 1
                sig = f"{family}:{inv}:{classify(t['events'], pos, inv)}"
                t.setdefault("verdicts", []).append(sig)
                ctx.violation(sig, f"{inv} broken by a real execution ({t.get('origin')}); step {pos - 1}: "
                              f"{ {k: x for k, x in t['events'][pos - 2].items() if x not in ('', lh.NOID)} }", _replay_payload(t, pos))
            else:
                t["_rejected_at"] = v.reached[i]
                redo.append(t)
    if redo:
        v = reference(redo)
        ctx.add_tlc(v.res)
        for i, t in enumerate(redo):
            if v.violated[i] is not None:
                pos, inv = v.violated[i]
                stats["violating"] += 1
                sig = f"{family}:{inv}:{classify(t['events'], pos, inv)}"
                t.setdefault("verdicts", []).append(sig)
                ctx.violation(sig, f"{inv} broken by a real execution that the transcription does not explain ({t.get('origin')}); step {pos - 1}: "
                              f"{ {k: x for k, x in t['events'][pos - 2].items() if x not in ('', lh.NOID)} }", _replay_payload(t, pos))
            elif v.accepted[i]:
                stats["drift"] += 1
                if stats["drift"] <= 3:
                    p = t["_rejected_at"]
                    ctx.cov.setdefault("model_drift_samples", []).append(
                        {"family": family, "event": {k: x for k, x in t["events"][min(p, len(t["events"])) - 1].items() if x not in ("", lh.NOID)}})
            else:
                p = v.reached[i]
                raise MachineryError(f"{family}: the recorded requests do not follow {'S3' if family == 's3lock' else 'kernel'} semantics at event {p}: "
                                     f"{t['events'][max(0, p - 3):p]}")
    return stats


# ---- the check -------------------------------------------------------------------------------------------

def run(ctx: Ctx) -> None:
    quick = ctx.tier == "quick"
    import time as _t

    t_start = _t.time()
    phases: Dict[str, float] = {}
    ctx.cov["phase_seconds"] = phases

    def mark(name: str) -> None:
        phases[name] = round(_t.time() - t_start, 1)

    pool = ThreadPoolExecutor(max_workers=3 if quick else 4)
    flags = lh.probe_s3_flags()
    epw, ar = flags["EtagPerWrite"], flags["AtomicRelease"]
    ctx.cov["s3_protocol_of_code_under_test"] = flags
    expected_fail = [inv for inv, flag in S3_DEFECT.items() if not flags[flag]]
    hold = S3_HOLD + [inv for inv in S3_DEFECT if inv not in expected_fail] + (["LockSafety"] if not expected_fail else [])

    # -- TLC in the background (subprocesses): S3 ---------------------------------------------------------
    f: Dict[str, Future] = {}
    f["s3_hold2"] = pool.submit(_mc_s3, f"S3Lock AB as probed (EtagPerWrite={epw}, AtomicRelease={ar}): rules that hold", "AB", epw, ar, hold)
    for inv in expected_fail:
        f["cex_" + inv] = pool.submit(_mc_s3, f"S3Lock AB as is: {inv} (must fail)", "AB", epw, ar, [inv], sym=False, workers=2)
    f["s3_fixed2"] = pool.submit(_mc_s3, "S3Lock AB repaired (both flags TRUE)", "AB", True, True, ["TypeOK", "LockSafety"], rounds=1 if quick else 2,
                                 maxnow=4 if quick else 5)
    f["s3_half_a"] = pool.submit(_mc_s3, "S3Lock AB EtagPerWrite only", "AB", True, False, ["TakeoverOnlyAfterLapse"])
    f["s3_half_b"] = pool.submit(_mc_s3, "S3Lock AB AtomicRelease only", "AB", False, True, ["ReleaseDeletesOnlyOwn"])
    f["s3_half_a2"] = pool.submit(_mc_s3, "S3Lock AB EtagPerWrite only: release defect remains (must fail)", "AB", True, False, ["ReleaseDeletesOnlyOwn"], workers=2)
    f["s3_half_b2"] = pool.submit(_mc_s3, "S3Lock AB AtomicRelease only: takeover defect remains (must fail)", "AB", False, True, ["TakeoverOnlyAfterLapse"], workers=2)
    f["s3_reach1"] = pool.submit(_mc_s3, "S3Lock AB reachability: a takeover happens (must fail)", "AB", True, True, ["NeverTakenOver"], workers=2)
    f["s3_reach2"] = pool.submit(_mc_s3, "S3Lock AB reachability: an acquirer times out (must fail)", "AB", True, True, ["NeverTimedOut"], workers=2)
    if quick:
        f["s3_fixed3"] = pool.submit(_mc_s3, "S3Lock ABC repaired, Lease=1", "ABC", True, True, ["TypeOK", "LockSafety"], maxnow=3, mw=2, lease=1, timeout=1, workers=6)
    else:
        f["s3_fixed3"] = pool.submit(_mc_s3, "S3Lock ABC repaired, Lease=2", "ABC", True, True, ["TypeOK", "LockSafety"], maxnow=4, mw=2, workers=6)
        f["s3_hold3"] = pool.submit(_mc_s3, "S3Lock ABC as probed: rules that hold", "ABC", epw, ar, hold, maxnow=4, mw=2, workers=6)
    n_sim = 100 if quick else 1200
    f["s3_sim"] = pool.submit(_mc_s3, "S3Lock ABC as probed: simulated behaviours for replay", "ABC", epw, ar, ["TypeOK", "Export"], sym=False, workers=1,
                              maxnow=8, rounds=2, simulate=f"num={n_sim}", depth=40, export_at=40, seed=ctx.seed + 19)
    # -- TLC: local lock ----------------------------------------------------------------------------------
    f["fl_2"] = pool.submit(_mc_fl, "FLock ab (two processes), Die", "ab", FL_ALL, maxnow=3 if quick else 4, rounds=2 if quick else 3)
    f["fl_3"] = pool.submit(_mc_fl, "FLock abc (process + two threads), Die", "abc", FL_ALL, workers=6, maxnow=3, rounds=2)
    f["fl_unlink_me"] = pool.submit(_mc_fl, "FLock ab unlink on release: MutualExclusion (must fail)", "ab", ["MutualExclusion"], unlink=True, workers=2)
    f["fl_unlink_race"] = pool.submit(_mc_fl, "FLock abc unlink on release: NoUnlinkRace (must fail)", "abc", ["NoUnlinkRace"], unlink=True, die=False, workers=2)
    f["fl_blocking"] = pool.submit(_mc_fl, "FLock ab blocking flock: TimeoutHonoured (must fail)", "ab", ["TimeoutHonoured"], blocking=True, workers=2)
    f["fl_excl_die"] = pool.submit(_mc_fl, "FLock ab O_EXCL mode, dead holder: DeathReleases (must fail; extension)", "ab", ["DeathReleases"], mode="excl", workers=2)
    f["fl_excl_stale"] = pool.submit(_mc_fl, "FLock abc O_EXCL mode, holder older than the stale age: MutualExclusion (must fail; extension)", "abc",
                                     ["MutualExclusion"], mode="excl", die=False, maxnow=4, stale=2, workers=2)
    f["fl_live"] = pool.submit(_mc_fl, "FLock ab liveness: every acquire()/release() call returns (fair clock, fair callers, holders may sit, Die)", "ab", [],
                               live=["AcquireReturns"], maxnow=3 if quick else 4, rounds=2 if quick else 3, timeout=1 if quick else 2)
    f["fl_live_blocking"] = pool.submit(_mc_fl, "FLock ab blocking flock: AcquireReturns (must fail)", "ab", [], live=["AcquireReturns"], blocking=True, workers=2)
    if not quick:
        f["s3_live"] = pool.submit(_mc_s3_live, "S3Lock AB liveness: every acquire()/is_held()/release() call returns within the PUT budget; read-only loops outright",
                                   ["CallReturns", "ReadOnlyCallsReturn"], epw, ar)
        f["s3_live_unbudgeted"] = pool.submit(_mc_s3_live, "S3Lock AB liveness without the budget clause (must fail)", ["CallReturnsUnbudgeted"], epw, ar)
        f["fl_live3"] = pool.submit(_mc_fl, "FLock abc liveness: every acquire()/release() call returns", "abc", [], live=["AcquireReturns"], maxnow=3, rounds=2, workers=6)
    f["fl_reach1"] = pool.submit(_mc_fl, "FLock ab reachability: a blocked acquirer times out (must fail)", "ab", ["NeverTimedOut"], workers=2)
    f["fl_reach2"] = pool.submit(_mc_fl, "FLock ab reachability: acquisition after a death (must fail)", "ab", ["NeverAcquiredAfterDeath"], workers=2)
    if not quick:
        f["fl_excl_ok"] = pool.submit(_mc_fl, "FLock abc O_EXCL mode, no holder reaches the stale age (extension)", "abc", ["MutualExclusion", "TimeoutHonoured"],
                                      mode="excl", die=False, maxnow=2, stale=2)
    # -- real processes, in the background ---------------------------------------------------------------
    f["stress"] = pool.submit(lh.stress, 6 if quick else 8, 1.5 if quick else 6.0, 0.5)

    # -- S3 binding: executions of the real providers (worker processes; the patches are process-wide) -----
    def check_exec(ts: Sequence[Dict[str, Any]]) -> None:
        for t in ts:
            if t["harness_error"] and not (t["kind"] == "flock" and "deadlock" in t["harness_error"]
                                           and any(e["k"] == "Flock" and e["status"] == "wait" for e in t["events"])):
                # (a blocking flock that nobody can wake is judged by the reference rules, not a harness failure)
                raise MachineryError(f"{t['kind']} lock execution failed in the harness ({t['origin']}): {t['harness_error']}")

    def s3_exec(origin: str, programs: Dict[str, Sequence[str]], sched: Sequence[Any], **kw: Any) -> Dict[str, Any]:
        t = lh.run_s3(programs, sched, **kw)
        t["origin"], t["kind"] = origin, "s3"
        check_exec([t])
        return t

    s3_jobs: List[Tuple[str, str, Dict[str, Sequence[str]], Sequence[Any], Dict[str, Any]]] = []
    for clients in (["A", "B"], ["A", "B", "C"]):
        jobs = lh.systematic_s3(clients, quick)
        if len(clients) == 3:
            jobs = rng(ctx.seed, "c19-sys3").sample(jobs, 500 if quick else 6000)
        s3_jobs += [("s3", "systematic", programs, sched, {}) for programs, sched in jobs]
        short = {c: ("acquire", "release") for c in clients}
        s3_jobs += [("s3", "systematic-norecheck", short, sched, {}) for _programs, sched in jobs[:: 3 if quick else 1]]
    r = rng(ctx.seed, "c19-s3-random")
    for i in range(250 if quick else 3000):
        names = ["A", "B", "C"][: 2 + (i % 2)]
        progs = {c: r.choice([lh.DEFAULT_PROGRAM, ("acquire", "release"), ("acquire", "is_held", "is_held", "release", "acquire", "release")]) for c in names}
        env_p = {f"hb:{c}": 0.04 for c in names}
        env_p.update({"tick:61000": 0.03, "tick:20000": 0.03, "tick:1000": 0.03})
        s3_jobs.append(("s3", f"random:{i}", progs, [], {"random_policy": (rng(ctx.seed, "c19-s3-walk", i), 0.3, env_p)}))
    s3_traces = lh.run_many(s3_jobs, procs=4 if quick else 6)
    check_exec(s3_traces)
    # TLC counterexamples of the model as probed: must reproduce on the real code
    replayed: Dict[str, Dict[str, Any]] = {}
    for inv in expected_fail:
        res = f["cex_" + inv].result()
        _must_fail(ctx, res, inv, "the defect is modelled by the probed flags")
        programs, sched = lh.schedule_from_hist(_hist_of(res), UNIT_MS)
        t = s3_exec(f"tlc-counterexample:{inv}", programs, sched, lease_s=60, timeout_s=59.9996, sleep_ms=())
        replayed[inv] = t
    sim = f["s3_sim"].result()
    ctx.add_tlc(sim)
    sim_traces: List[Dict[str, Any]] = []
    hists = _sim_hists(sim)
    if len(hists) < n_sim // 2:
        raise MachineryError(f"simulation exported {len(hists)} behaviours, expected about {n_sim}")
    for i, h in enumerate(hists):
        programs, sched = lh.schedule_from_hist(h, UNIT_MS)
        for c in ("A", "B", "C"):
            programs.setdefault(c, [])
        sim_traces.append(s3_exec(f"tlc-simulation:{i}", programs, sched, lease_s=60, timeout_s=59.9996, sleep_ms=()))
    ctx.cov["s3_executions"] = len(s3_traces) + len(sim_traces) + len(replayed)
    mark("s3_executions_done")

    def s3_validator(strict: bool, timeout_ms: int) -> Callable[[List[Dict[str, Any]]], Any]:
        return lambda b: lh.validate_s3(b, flags, strict, ["A", "B", "C"], timeout_ms=timeout_ms)

    uniq = _dedupe(s3_traces)
    st = _judge(ctx, "s3lock", uniq, s3_validator(True, 30_001), s3_validator(False, 30_001), classify_s3)
    uniq2 = _dedupe(sim_traces + list(replayed.values()))
    st2 = _judge(ctx, "s3lock", uniq2, s3_validator(True, 60_000), s3_validator(False, 60_000), classify_s3)
    ctx.cov["s3_traces"] = {"distinct": len(uniq) + len(uniq2), "systematic_random": st, "tlc_derived": st2}
    mark("s3_traces_validated")
    for inv, t in replayed.items():
        if not any(v.startswith(f"s3lock:{inv}:") for v in t.get("verdicts", [])):
            raise MachineryError(f"the TLC counterexample for {inv} did not reproduce on the real provider although the probe says the code has "
                                 f"the modelled defect: {[(e['a'], e['k'], e.get('status')) for e in t['events']]}")
    ctx.cov["tlc_counterexamples_reproduced_on_real_code"] = sorted(replayed)
    ctx.sample({"s3_replay_of_tlc_counterexample": {inv: [f"{e['a']}:{e['k']}:{e.get('via', '')}:{e.get('status', '')}" for e in t["events"]] for inv, t in replayed.items()}})

    # -- local binding (i): threads at syscall gates ----------------------------------------------------------
    fl_jobs: List[Tuple[str, str, Dict[str, Sequence[str]], Sequence[Any], Dict[str, Any]]] = []
    for lockers in (["a", "b"], ["a", "b", "c"]):
        jobs = lh.systematic_flock(lockers, quick)
        if len(lockers) == 3 and quick:
            jobs = rng(ctx.seed, "c19-fl3").sample(jobs, 500)
        fl_jobs += [("flock", "systematic", programs, sched, {}) for programs, sched in jobs]
    for i in range(150 if quick else 2000):
        names = ["a", "b", "c"][: 2 + (i % 2)]
        fl_jobs.append(("flock", f"random:{i}", {c: lh.FL_PROGRAM for c in names}, [],
                        {"random_policy": (rng(ctx.seed, "c19-fl-walk", i), 0.35, {"tick:40": 0.02, "tick:10": 0.03})}))
    fl_traces = lh.run_many(fl_jobs, procs=4 if quick else 6)
    check_exec(fl_traces)
    ctx.cov["flock_thread_executions"] = len(fl_traces)
    mark("flock_executions_done")
    funiq = _dedupe(fl_traces)
    tmo = math.ceil(0.0354 * 1000)
    fst = _judge(ctx, "flock", funiq, lambda b: lh.validate_flock(b, "strict", ["a", "b", "c"], tmo),
                 lambda b: lh.validate_flock(b, "reference", ["a", "b", "c"], tmo), classify_fl)
    ctx.cov["flock_thread_traces"] = dict(fst, distinct=len(funiq))
    ctx.sample({"flock_thread_trace": [f"{e['a']}:{e['k']}:{e.get('op', '')}:{e.get('status', '')}:ino{e.get('ino', 0)}" for e in funiq[len(funiq) // 2]["events"][:30]]})

    mark("flock_traces_validated")
    if not ctx.violations:          # (with unlisted violations on the table the verdict is already 'violated')
        _selftest(ctx, uniq, funiq, flags)

    # -- local binding (ii): real processes --------------------------------------------------------------------
    stress = f["stress"].result()
    if stress["errors"]:
        raise MachineryError(f"stress children failed: {stress['errors'][:2]}")
    _judge_stress(ctx, stress)
    mark("stress_validated")

    # -- collect the TLC verdicts -------------------------------------------------------------------------------
    _must_hold(ctx, f["s3_hold2"].result(), "S3Lock")
    _must_hold(ctx, f["s3_fixed2"].result(), "S3Lock-repaired")
    _must_hold(ctx, f["s3_fixed3"].result(), "S3Lock-repaired")
    _must_hold(ctx, f["s3_half_a"].result(), "S3Lock-EtagPerWrite")
    _must_hold(ctx, f["s3_half_b"].result(), "S3Lock-AtomicRelease")
    _must_fail(ctx, f["s3_half_a2"].result(), "ReleaseDeletesOnlyOwn", "unconditional DELETE after a stale GET")
    _must_fail(ctx, f["s3_half_b2"].result(), "TakeoverOnlyAfterLapse", "a renewal leaves the ETag unchanged")
    _must_fail(ctx, f["s3_reach1"].result(), "NeverTakenOver", "takeover reachable")
    _must_fail(ctx, f["s3_reach2"].result(), "NeverTimedOut", "timeout reachable")
    if "s3_hold3" in f:
        _must_hold(ctx, f["s3_hold3"].result(), "S3Lock")
    _must_hold(ctx, f["fl_2"].result(), "FLock")
    _must_hold(ctx, f["fl_3"].result(), "FLock")
    _must_fail(ctx, f["fl_unlink_me"].result(), "MutualExclusion", "unlink on release")
    _must_fail(ctx, f["fl_unlink_race"].result(), "NoUnlinkRace", "unlink on release")
    _must_fail(ctx, f["fl_blocking"].result(), "TimeoutHonoured", "blocking flock")
    _must_fail(ctx, f["fl_excl_die"].result(), "DeathReleases", "O_EXCL lock file survives its holder")
    _must_fail(ctx, f["fl_excl_stale"].result(), "MutualExclusion", "stale-break race of the O_EXCL fallback")
    _must_fail(ctx, f["fl_reach1"].result(), "NeverTimedOut", "timeout reachable")
    _must_hold(ctx, f["fl_live"].result(), "FLock-liveness")
    _must_fail(ctx, f["fl_live_blocking"].result(), "Liveness", "a blocked flock() has no enabled step while the holder sits on the lock")
    if "fl_live3" in f:
        _must_hold(ctx, f["fl_live3"].result(), "FLock-liveness")
        _must_hold(ctx, f["s3_live"].result(), "S3Lock-liveness")
        _must_fail(ctx, f["s3_live_unbudgeted"].result(), "Liveness", "the polling loop of acquire() may spend the PUT budget between two clock ticks")
    _must_fail(ctx, f["fl_reach2"].result(), "NeverAcquiredAfterDeath", "death then acquisition reachable")
    if "fl_excl_ok" in f:
        _must_hold(ctx, f["fl_excl_ok"].result(), "FLock-excl-extension")
    pool.shutdown()
    mark("tlc_collected")
    ctx.cov["anti_vacuity"] = ("S3Lock: each defect flag FALSE violates exactly its rule, takeover and timeout are reachable; FLock: unlink-on-release, blocking flock, "
                               "O_EXCL dead holder / stale break violate their rules; trace specs reject corrupted traces (self-test)")
    ctx.rule("one case = one distinct event sequence of a real execution (S3: request/clock/sleep/API events of 2-3 real S3LockProvider instances; local: "
             "syscall events of 2-3 FileLock instances); non-trivial = at least two clients and at least one refused request / syscall")
    ctx.assume("the in-memory S3 (harness/fakes3.py + If-Match on DELETE) is strongly consistent, ETag = MD5 of the body, LastModified = the virtual clock at the write",
               "one S3 request / one syscall is atomic; no transport faults on lock requests (is_held's retry on NoSuchKey is modelled, other errors are not)",
               "the heartbeat thread is an environment step (one pass of _heartbeat_loop per decision); the 2 s join timeout of _stop_heartbeat_thread is not modelled",
               "time: one virtual clock for time.time / datetime.now / LastModified (no skew between clients and S3)",
               "flock semantics of the running Linux kernel for threads; tmpfs inode numbers are not reused within one execution",
               "stress: CLOCK_MONOTONIC is shared by all processes; log lines are written inside the critical section",
               "S3PollingLockProvider (documented best effort) and the O_EXCL fallback are outside the claim (the latter is modelled as an extension)")


def _selftest(ctx: Ctx, s3: List[Dict[str, Any]], fl: List[Dict[str, Any]], flags: Dict[str, bool]) -> None:
    """The trace specifications must reject corrupted traces (binding anti-vacuity)."""
    good = next((t for t in s3 if sum(1 for e in t["events"] if e["k"] == "Put" and e["status"] == "412") >= 1 and t.get("_accepted")
                 and any(e["k"] == "IsHeldRet" for e in t["events"])), None)
    gf = next((t for t in fl if any(e["k"] == "Flock" and e["status"] == "EWOULDBLOCK" for e in t["events"]) and t.get("_accepted")), None)
    if good is None or gf is None:
        # no accepted execution of the needed shape: the code under test does not conform (reported above), nothing to corrupt
        ctx.cov["binding_selftest"] = "skipped: no accepted trace of the needed shape (see the reported nonconformance)"
        return
    bad1 = json.loads(json.dumps(good))
    next(e for e in bad1["events"] if e["k"] == "Put" and e["status"] == "412")["status"] = "ok"          # a refused create reported as success
    bad2 = json.loads(json.dumps(good))
    i = next(i for i, e in enumerate(bad2["events"]) if e["k"] == "IsHeldRet")
    bad2["events"][i]["res"] = not bad2["events"][i]["res"]
    v = lh.validate_s3([good, bad1, bad2], flags, True, ["A", "B", "C"])
    v2 = lh.validate_s3([good, bad1], flags, False, ["A", "B", "C"])
    if v.accepted != [True, False, False] or v2.accepted != [True, False]:
        raise MachineryError(f"Trace_S3Lock self-test: accepted={v.accepted}/{v2.accepted}, expected only the untouched trace")
    badf = json.loads(json.dumps(gf))
    next(e for e in badf["events"] if e["k"] == "Flock" and e["status"] == "EWOULDBLOCK")["status"] = "ok"
    badg = json.loads(json.dumps(gf))
    next(e for e in badg["events"] if e["k"] == "Open")["ino"] = 7
    vf = lh.validate_flock([gf, badf, badg], "strict", ["a", "b", "c"], 36)
    vr = lh.validate_flock([gf, badf], "reference", ["a", "b", "c"], 36)
    if vf.accepted != [True, False, False] or vr.accepted != [True, False]:
        raise MachineryError(f"Trace_FLock self-test: accepted={vf.accepted}/{vr.accepted}, expected only the untouched trace")
    ctx.cov["binding_selftest"] = "corrupted traces rejected by Trace_S3Lock and Trace_FLock (strict and reference)"


def _judge_stress(ctx: Ctx, stress: Dict[str, Any]) -> None:
    tr = stress["traces"]
    verd = lh.validate_stress(stress)
    ctx.add_tlc(next(iter(verd.values()))[3])
    loop = tr["loop"]["events"]
    enters = [e for e in loop if e["k"] == "Enter"]
    ctx.cov["stress"] = {"processes": len(tr["loop"]["lockers"]), "critical_sections": len(enters), "final_counter": tr["loop"].get("final_counter"),
                         "kill": [f"{e['a']}:{e['k']}" for e in tr["kill"]["events"]], "block": [f"{e['a']}:{e['k']}@{e['t']}" for e in tr["block"]["events"]]}
    if len(enters) < 50 or len({e["a"] for e in enters}) < 2:
        raise MachineryError(f"stress loop too small to mean anything: {len(enters)} critical sections")
    if any(e["k"] in ("Timeout", "AcqOther") for e in loop):
        raise MachineryError("stress loop: an acquirer with a 20 s timeout did not get the lock in a run of a few seconds (overloaded machine?)")
    for name, (ok, reached, violated, _res) in verd.items():
        evs = tr[name]["events"]
        ctx.count_traces(1)
        ctx.count_case(("stress", name, len(evs)), nontrivial=True)
        if violated is not None:
            pos, inv = violated
            ctx.violation(f"flock-stress:{name}:{inv}", f"real processes ({name} experiment): {inv} broken at log line {pos - 1}: {evs[max(0, pos - 4):pos - 1]}",
                          {"kind": "stress", "experiment": name, "events": evs[max(0, pos - 12):pos + 2]})
        elif not ok:
            raise MachineryError(f"stress log of experiment {name} not consumed (line {reached}): {evs[max(0, reached - 3):reached]}")
    if tr["loop"].get("final_counter") != len(enters):
        ctx.violation("flock-stress:loop:CounterSerial", f"counter file ends at {tr['loop'].get('final_counter')} after {len(enters)} critical sections",
                      {"kind": "stress", "experiment": "loop"})
    kill = [f"{e['a']}:{e['k']}" for e in tr["kill"]["events"]]
    if "H:Kill" not in kill or "H:Enter" not in kill or kill.index("H:Kill") < kill.index("H:Enter") or "H:Exit" in kill:
        raise MachineryError(f"kill experiment did not kill a holder: {kill}")
    if "W:AcqCall" not in kill or kill.index("W:AcqCall") > kill.index("H:Kill"):
        raise MachineryError(f"kill experiment: the waiter was not waiting when the holder was killed: {kill}")
    if "W:Enter" not in kill:
        ctx.violation("flock-stress:kill:DeathReleases", f"a waiter did not acquire after the holder was SIGKILLed: {kill}", {"kind": "stress", "experiment": "kill", "events": tr["kill"]["events"]})
    block = [f"{e['a']}:{e['k']}" for e in tr["block"]["events"]]
    if "W:Enter" in block and block.index("W:Enter") < block.index("H:Exit"):
        pass            # reported by MutualExclusion above
    elif "W:Timeout" not in block:
        ctx.violation("flock-stress:block:TimeoutHonoured", f"a blocked acquirer (timeout {tr['block']['timeout_us']} us) did not raise TimeoutError while the holder "
                      f"was live: {[(e['a'], e['k'], e['t']) for e in tr['block']['events']]}", {"kind": "stress", "experiment": "block", "events": tr["block"]["events"]})


def _sched_of(decisions: Sequence[Any]) -> List[Any]:
    return [d[1] if d[0] == "actor" else list(d) for d in decisions]


def replay(ctx: Ctx, path: str) -> None:
    with open(path) as fh:
        payload = json.load(fh)["replay"]
    kind = payload.get("kind")
    if kind in ("s3", "flock"):
        payload["decisions"] = _sched_of(payload["decisions"])
    if kind == "s3":
        flags = lh.probe_s3_flags()
        t = lh.run_s3(payload["programs"], payload["decisions"], lease_s=payload.get("lease_s") or 60, timeout_s=payload.get("timeout_s") or 30.0004,
                      sleep_ms=() if (payload.get("origin") or "").startswith("tlc-") else (500, 500, 10_000))
        t["origin"], t["kind"] = "replay", "s3"
        tm = math.ceil((payload.get("timeout_s") or 30.0004) * 1000)
        _judge(ctx, "s3lock", [t], lambda b: lh.validate_s3(b, flags, True, ["A", "B", "C"], timeout_ms=tm),
               lambda b: lh.validate_s3(b, flags, False, ["A", "B", "C"], timeout_ms=tm), classify_s3)
    elif kind == "flock":
        t = lh.run_flock(payload["programs"], payload["decisions"])
        t["origin"], t["kind"] = "replay", "flock"
        _judge(ctx, "flock", [t], lambda b: lh.validate_flock(b, "strict", ["a", "b", "c"], 36), lambda b: lh.validate_flock(b, "reference", ["a", "b", "c"], 36), classify_fl)
    else:
        _judge_stress(ctx, lh.stress())
