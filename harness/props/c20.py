"""C20 - Both storage backends implement the same contract.

Specification (spec/):
  Storage.tla / MC_Storage.tla        reference contract (key -> bytes,mtime), transcriptions of
                                      LocalStorageBackend and S3StorageBackend, BackendsAgree over all
                                      operation sequences (<= MaxOps mutations, every query in every state)
  RangeReader.tla / MC_RangeReader.tla reference raw file vs transcription of S3RangeFile, all seek/read
                                      programs, issued ranges in bounds, nothing requested for empty reads
  Retry.tla / MC_Retry.tla            transcription of retry_with_backoff, reference predicates
                                      (RetryContract), every sequence of attempt outcomes

Binding:
  1. storage: every distinct state TLC exports (witness mutation sequence + expected result of every
     query) is replayed on LocalStorageBackend (scratch dir) and S3StorageBackend (harness/fakes3.py);
     every query result of both is compared with the REFERENCE result from the spec; the stores are
     read back with the independent readers (harness/project.py).
  2. reader: every exported program is run on S3RangeFile (raw), on open_seekable() of both backends
     (buffered) and on a raw local file (sanity of the reference); bytes, return values, positions and
     errors are compared with the reference outcome, the fake's Range log with InRange/Frugal.
  3. retry: every exported outcome sequence is injected per request attempt at the backend's call
     sites; the ending observed (attempt classes, returned/raised, value, class of the exception) is
     handed back to TLC, which judges it with the reference predicates (MC_Retry!ValidateObserved).
Verdicts come from the reference semantics only; a disagreement with a transcription that still
satisfies the reference is a model-drift note.
"""
from __future__ import annotations

import concurrent.futures
import io
import json
import logging
import os
import shutil
from typing import Any, Callable, Dict, List, Optional, Tuple

from .. import tlc
from ..common import Ctx, MachineryError, rng, scratch_dir

LEVEL = "model_checking"

KEYS = ["data/x", "data2/y", "database/z", "data/x.parquet", "data/sub/w", "metadata/m"]
DIRS = ["data", "data/", "/data", "data/sub", "metadata", "data2", "database", "nodir", ""]
CONTENTS = {"": b"", "ab": b"\x00\xff"}          # abstract content -> concrete bytes (same length)
T0 = 1_700_000_000.0
SIBLING_SIG = "s3:list_files:sibling-prefix-leak"

# Reference classification of S3 error codes (DESIGN Appendix C) - independent of the library's own set.
PERMANENT_REF = ["AccessDenied", "AllAccessDisabled", "AccountProblem", "AuthorizationHeaderMalformed",
                 "InvalidAccessKeyId", "InvalidBucketName", "InvalidObjectState", "InvalidToken", "NoSuchBucket",
                 "PermanentRedirect", "SignatureDoesNotMatch", "TokenRefreshRequired", "UnauthorizedAccess", "403", "401"]
NOTFOUND_CODES = ("NoSuchKey", "404")
PRECOND = [("PreconditionFailed", 412), ("412", 412), ("ConditionalRequestConflict", 409)]
TRANSIENT_CE = [("InternalError", 500), ("ServiceUnavailable", 503), ("SlowDown", 503), ("RequestTimeout", 400),
                ("500", 500), ("503", 503), ("Throttling", 400), ("BadGateway", 502)]


def _json_lines(res: Any) -> List[Dict[str, Any]]:
    out = []
    for ln in res.stdout.splitlines():
        if ln.startswith('"{'):
            out.append(json.loads(json.loads(ln)))
    return out


# =====================================================================================================
# TLC jobs
# =====================================================================================================

def _storage_cfg(raw: bool, maxops: int, invs: List[str], export: bool = False, always: bool = False, probe: bool = False,
                 prefix: str = "t") -> str:
    return tlc.make_cfg(
        spec="Spec",
        constants={"Keys": set(KEYS), "TablePrefix": prefix, "S3ListRaw": raw, "S3ExistsAlwaysLists": always,
                   "Contents": set(CONTENTS), "Dirs": set(DIRS), "MaxOps": maxops, "ProbeDirs": probe, "DoExport": export},
        invariants=invs + (["ExportInv"] if export else []), view="View", check_deadlock=False)


def _range_cfg(maxsteps: int, sizes: List[int], export: bool = False, clamp: bool = False, plus: bool = False, eof: bool = False) -> str:
    return tlc.make_cfg(
        spec="Spec",
        constants={"Sizes": set(sizes), "MaxSteps": maxsteps, "DoExport": export, "ClampNegative": clamp,
                   "EndPlusOne": plus, "RequestAtEOF": eof},
        invariants=["ReaderAgrees", "RangesInBounds", "NoWaste", "NegativeSeekRaises"] + (["ExportInv"] if export else []),
        view="View", check_deadlock=False)


ALL_CLASSES = ["ok", "transient", "permanent", "notfound", "precondition", "pyexc"]


def _retry_cfg(maxr: int = 5, classes: Optional[List[str]] = None, export: bool = False, rp: bool = False, ob: bool = False,
               sw: bool = False, invs: Optional[List[str]] = None) -> str:
    return tlc.make_cfg(
        spec="Spec",
        constants={"MaxRetries": maxr, "InitialDelay": 1, "MaxDelay": 50, "Factor": 2, "Classes": set(classes or ALL_CLASSES),
                   "RetryPermanent": rp, "BudgetOffByOne": ob, "SwallowLast": sw, "DoExport": export},
        invariants=(invs if invs is not None else ["RetryContract"]) + (["ExportInv"] if export else []), check_deadlock=False)


def _run_jobs(ctx: Ctx, quick: bool) -> Dict[str, Any]:
    # list_files lists "<dir>/" since /repo 5e63743 (finding C20-s3-list-sibling-prefix, fixed): the faithful model is
    # S3ListRaw = FALSE.  The raw string-prefix variant stays as a companion that must violate BackendsAgree.
    raw = False
    main_inv = "BackendsAgree"
    bind_depth = 3 if quick else 4
    check_depth = 4 if quick else 5
    rsizes = [0, 1, 2, 5] if quick else [0, 1, 2, 5, 8]
    rsteps = 4 if quick else 5
    # name -> (module, cfg, expectation, kwargs); expectation: "hold" or the invariant that must be violated
    jobs: Dict[str, Tuple[str, str, str, Dict[str, Any]]] = {
        "storage-deep": ("MC_Storage", _storage_cfg(raw, check_depth, [main_inv, "Lockstep"]), "hold", {"workers": 8 if quick else "auto"}),
        "storage-export": ("MC_Storage", _storage_cfg(raw, bind_depth, [main_inv, "Lockstep"], export=True), "hold", {"workers": 2 if quick else 6}),
        "storage-export-prefix-a/b/": ("MC_Storage", _storage_cfg(raw, bind_depth - 1, [main_inv, "Lockstep"], export=True, prefix="a/b/"), "hold", {"workers": 2}),
        "storage-export-no-prefix": ("MC_Storage", _storage_cfg(raw, bind_depth - 1, [main_inv, "Lockstep"], export=True, prefix=""), "hold", {"workers": 2}),
        # a table prefix made of the characters the internal directory names start with (character-set vs. prefix stripping)
        "storage-export-prefix-dat": ("MC_Storage", _storage_cfg(raw, bind_depth - 1, [main_inv, "Lockstep"], export=True, prefix="dat"), "hold", {"workers": 2}),
        "storage-raw-prefix-only-leaks-siblings": ("MC_Storage", _storage_cfg(True, bind_depth, ["AgreeExceptSiblingLeak", "Lockstep"]), "hold", {"workers": 2 if quick else 6}),
        "storage-list-raw-prefix-defect": ("MC_Storage", _storage_cfg(True, 2, ["BackendsAgree"]), "BackendsAgree", {"workers": 1}),
        "storage-mutant-exists-lists": ("MC_Storage", _storage_cfg(False, 2, ["BackendsAgree"], always=True), "BackendsAgree", {"workers": 1}),
        "storage-limit-probe-dirs": ("MC_Storage", _storage_cfg(False, 2, ["BackendsAgree"], probe=True), "BackendsAgree", {"workers": 1}),
        "range-export": ("MC_RangeReader", _range_cfg(rsteps, rsizes, export=True), "hold", {"workers": 2 if quick else 6}),
        "range-mutant-clamp": ("MC_RangeReader", _range_cfg(2, [0, 1, 2], clamp=True), "ReaderAgrees", {"workers": 1}),
        "range-mutant-endplusone": ("MC_RangeReader", _range_cfg(2, [0, 1, 2], plus=True), "RangesInBounds", {"workers": 1}),
        "range-mutant-eof": ("MC_RangeReader", _range_cfg(2, [0, 1, 2], eof=True), "*", {"workers": 1}),
        "retry-export": ("MC_Retry", _retry_cfg(export=True), "hold", {"workers": 1}),
        "retry-cap-export": ("MC_Retry", _retry_cfg(maxr=8, classes=["ok", "transient", "permanent"], export=True), "hold", {"workers": 1}),
        "retry-mutant-permanent": ("MC_Retry", _retry_cfg(rp=True), "RetryContract", {"workers": 1}),
        "retry-mutant-budget": ("MC_Retry", _retry_cfg(ob=True), "RetryContract", {"workers": 1}),
        "retry-mutant-swallow": ("MC_Retry", _retry_cfg(sw=True), "RetryContract", {"workers": 1}),
    }

    def one(name: str) -> Any:
        module, cfg, _exp, kw = jobs[name]
        return tlc.run_tlc(module, cfg, label=name, timeout_s=1200, heap="3g", **kw)

    results: Dict[str, Any] = {}
    order = sorted(jobs, key=lambda n: 0 if n == "storage-deep" else (1 if "export" in n else 2))
    with concurrent.futures.ThreadPoolExecutor(max_workers=5) as ex:
        futs = {n: ex.submit(one, n) for n in order}
        for n in order:
            results[n] = futs[n].result()
    killed = []
    for n in order:
        res = results[n]
        exp = jobs[n][2]
        ctx.add_tlc(res)
        if exp == "hold":
            if res.violated:
                ctx.violation(f"model:{n}:{'+'.join(res.violated)}",
                              f"TLC: {res.violated} violated in {jobs[n][0]} ({n}): the transcription of the current code breaks the reference contract",
                              res.error_trace[:6000])
            elif not res.ok:
                raise MachineryError(f"TLC run {n} did not complete: {res.stdout[-1500:]}")
        else:
            if not res.violated or (exp != "*" and exp not in res.violated):
                raise MachineryError(f"anti-vacuity: {n} was expected to violate {exp}, got {res.violated or 'no violation'}")
            killed.append(n)
    ctx.cov["anti_vacuity"] = {"model_variants_that_violate_as_expected": killed}
    return results


# =====================================================================================================
# shared environment for the bindings
# =====================================================================================================

class _SleepRecorder:
    """Stands in for the `time` module inside datashard.s3_consistency: sleeps are recorded, not slept."""

    def __init__(self) -> None:
        import time as _t

        self._t = _t
        self.sleeps: List[float] = []

    def sleep(self, s: float) -> None:
        self.sleeps.append(float(s))

    def __getattr__(self, name: str) -> Any:
        return getattr(self._t, name)


class _Env:
    def __init__(self, root: Optional[str] = None) -> None:
        import datashard.s3_consistency as s3c

        self.s3c = s3c
        self.real_time = s3c.time
        self.rec = _SleepRecorder()
        s3c.time = self.rec  # type: ignore[assignment]
        logging.disable(logging.CRITICAL)       # the library logs every retry at WARNING
        self.root = root or scratch_dir("c20")

    def close(self) -> None:
        self.s3c.time = self.real_time
        logging.disable(logging.NOTSET)
        shutil.rmtree(self.root, ignore_errors=True)


def _norm(call: Callable[[], Any]) -> Tuple[str, Any]:
    try:
        return ("ok", call())
    except FileNotFoundError:
        return ("notfound", None)
    except Exception as e:  # noqa: BLE001
        return ("error", type(e).__name__ + ": " + str(e)[:120])


# =====================================================================================================
# 1. storage binding
# =====================================================================================================

def _read_variant(be: Any, p: str, variant: int) -> bytes:
    if variant == 0:
        return be.read_file(p)
    if variant == 1:
        with be.open_file(p) as f:
            a = f.read(1)
            b = f.read()
        return a + b
    if variant == 2:
        return be.read_file_with_etag(p)[0]
    f = be.open_seekable(p)
    try:
        return f.read()
    finally:
        f.close()


def _expected(rec: Dict[str, Any], table: Dict[Tuple[str, str], Tuple[str, Any]], op: str, p: str) -> Tuple[str, Any]:
    if (op, p) in table:
        return table[(op, p)]
    d = rec["dflt"][op]
    return (d[0], d[1])


def _dir_of(d: str) -> str:
    return d.lstrip("/").rstrip("/")


def _storage_sig(backend: str, op: str, p: str, exp: Tuple[str, Any], got: Tuple[str, Any]) -> str:
    name = {"read": "read_file", "exists": "exists", "size": "get_size", "mtime": "get_modified_time", "list": "list_files"}[op]
    if op == "list" and got[0] == "ok" and exp[0] == "ok":
        e, g = set(exp[1]), set(got[1])
        extra, missing = g - e, e - g
        dd = _dir_of(p)
        if backend == "s3" and not missing and extra and all(k.startswith(dd) and not k.startswith(dd + "/") for k in extra):
            return SIBLING_SIG
        return f"{backend}:{name}:" + ("missing" if missing else "") + ("extra" if extra else "") + ("dup" if not extra and not missing else "")
    if exp[0] == got[0]:
        return f"{backend}:{name}:wrong-value"
    return f"{backend}:{name}:{exp[0]}->{got[0]}"


def _run_storage_state(env: _Env, rec: Dict[str, Any], ql: List[List[str]], idx: int, only: Optional[Tuple[str, str]] = None) -> Dict[str, Any]:
    """Replay one exported state on both backends; returns the comparisons."""
    from datashard.storage_backend import LocalStorageBackend

    from .. import fakes3, project

    clk = [T0]
    fake = fakes3.FakeS3(clock=lambda: clk[0], page_size=2)
    fake.max_keys_cap = 2
    tprefix = rec.get("prefix", "t")
    canon = tprefix.rstrip("/")
    s3 = fakes3.make_backend(fake, bucket="b", prefix=tprefix)
    base = os.path.join(env.root, f"s{idx}")
    os.mkdir(base)
    local = LocalStorageBackend(base)
    mt: Dict[str, Dict[int, float]] = {"s3": {}, "local": {}}
    problems: List[Dict[str, Any]] = []
    ncmp = 0
    try:
        for i, h in enumerate(rec["hist"], start=1):
            clk[0] = T0 + i
            for name, be in (("local", local), ("s3", s3)):
                if h["op"] == "write":
                    r = _norm(lambda be=be: be.write_file(h["p"], CONTENTS[h["c"]]))
                else:
                    r = _norm(lambda be=be: be.delete_file(h["p"]))
                ncmp += 1
                if r != ("ok", None):
                    problems.append({"backend": name, "op": h["op"] + "_file", "p": h["p"], "expected": ["ok", None], "got": list(r),
                                     "sig": f"{name}:{h['op']}_file:ok->{r[0]}"})
            if h["op"] == "write":
                mt["s3"][i] = T0 + i
                try:
                    mt["local"][i] = os.stat(os.path.join(base, h["p"].lstrip("/"))).st_mtime
                except OSError:
                    mt["local"][i] = -1.0
        # independent read-back of both stores: exact key sets and contents
        table: Dict[Tuple[str, str], Tuple[str, Any]] = {}
        for op, p, r, v in rec["q"]:
            table[(op, p)] = (r, v)
        want = {}
        for k in KEYS:
            e = _expected(rec, table, "read", k)
            if e[0] == "ok":
                want[k] = CONTENTS[e[1]]
        lr, dr = project.LocalReader(base), project.DictReader(fake.objects, canon)
        for name, rd in (("local", lr), ("s3", dr)):
            have = {k: rd.read(k) for k in rd.list()}
            ncmp += 1
            if have != want:
                problems.append({"backend": name, "op": "store", "p": "", "expected": sorted(want), "got": sorted(have),
                                 "sig": f"{name}:store-content:{'extra-keys' if set(have) - set(want) else ('missing-keys' if set(want) - set(have) else 'wrong-bytes')}"})
        if canon and [k for k in fake.objects if not k.startswith(canon + "/")]:
            problems.append({"backend": "s3", "op": "store", "p": "", "expected": f"keys under {canon}/", "got": sorted(fake.objects), "sig": "s3:store-content:outside-prefix"})
        # every query, both backends
        for qi, (op, p) in enumerate(ql):
            if only is not None and (op, p) != only:
                continue
            exp = _expected(rec, table, op, p)
            for name, be in (("local", local), ("s3", s3)):
                variants = [0]
                if op == "read":
                    variants = [0, 1 + (idx + qi) % 3]
                for var in variants:
                    if op == "read":
                        got = _norm(lambda: _read_variant(be, p, var))
                        e2: Tuple[str, Any] = (exp[0], CONTENTS[exp[1]] if exp[0] == "ok" else None)
                    elif op == "exists":
                        got = _norm(lambda: be.exists(p))
                        e2 = (exp[0], exp[1])
                        if got[0] == "ok" and not isinstance(got[1], bool):
                            got = ("error", f"non-bool {got[1]!r}")
                    elif op == "size":
                        got = _norm(lambda: be.get_size(p))
                        e2 = (exp[0], exp[1] if exp[0] == "ok" else None)
                    elif op == "mtime":
                        got = _norm(lambda: be.get_modified_time(p))
                        e2 = (exp[0], mt[name].get(exp[1]) if exp[0] == "ok" else None)
                    else:
                        got = _norm(lambda: be.list_files(p))
                        e2 = (exp[0], sorted(exp[1]))
                        if got[0] == "ok":
                            lst = list(got[1])
                            got = ("ok", sorted(lst)) if len(set(lst)) == len(lst) else ("ok", sorted(lst) + ["<duplicates>"])
                    ncmp += 1
                    if got != e2:
                        problems.append({"backend": name, "op": op, "p": p, "variant": var, "expected": list(e2), "got": list(got),
                                         "sig": _storage_sig(name, op, p, e2, got)})
        # no temp files may stay behind locally, no request may leave the table prefix on S3
        left = [f for f in lr.list() if os.path.basename(f).startswith(".tmp.")]
        if left:
            problems.append({"backend": "local", "op": "store", "p": "", "expected": [], "got": left, "sig": "local:temp-file-left"})
    finally:
        shutil.rmtree(base, ignore_errors=True)
    return {"problems": problems, "compared": ncmp, "s3_listing_results": None}


_CHUNK_ENV: Optional[_Env] = None


def _storage_chunk(args: Tuple[List[Tuple[int, Dict[str, Any]]], List[List[str]], str]) -> List[Tuple[int, Dict[str, Any]]]:
    """Worker (forked process): replay a chunk of exported states."""
    global _CHUNK_ENV
    chunk, ql, root = args
    if _CHUNK_ENV is None:
        _CHUNK_ENV = _Env(root=root)
    return [(idx, _run_storage_state(_CHUNK_ENV, rec, ql, idx)) for idx, rec in chunk]


def _bind_storage(ctx: Ctx, env: _Env, states: List[Dict[str, Any]], procs: int) -> None:
    import multiprocessing

    ql = None
    for s in states:
        if s["ql"]:
            ql = s["ql"]
    if not ql:
        raise MachineryError("storage export: query list missing")
    total = 0
    drift = 0
    leak_predicted = leak_seen = 0
    indexed = list(enumerate(states))
    chunks = [indexed[i:i + 64] for i in range(0, len(indexed), 64)]
    outs: Dict[int, Dict[str, Any]] = {}
    if procs > 1:
        with concurrent.futures.ProcessPoolExecutor(max_workers=procs, mp_context=multiprocessing.get_context("fork")) as ex:
            for part in ex.map(_storage_chunk, [(c, ql, env.root) for c in chunks]):
                outs.update(dict(part))
    else:
        for c in chunks:
            outs.update({idx: _run_storage_state(env, rec, ql, idx) for idx, rec in c})
    for idx, rec in indexed:
        out = outs[idx]
        total += out["compared"]
        ctx.count_case(("storage", rec.get("prefix", "t"), rec["hist"]), nontrivial=len(rec["hist"]) > 0)
        ctx.count_traces(2)
        predicted = {(d[0], d[1]) for d in rec["diff"]}
        leak_predicted += len(predicted)
        seen = set()
        for pr in out["problems"]:
            seen.add((pr["op"], pr["p"]))
            if pr["sig"] == SIBLING_SIG:
                leak_seen += 1
            ctx.violation(pr["sig"],
                          f"{pr['backend']} backend: {pr['op']}({pr['p']!r}) after {json.dumps(rec['hist'])} returned {pr['got']!r}, the contract demands {pr['expected']!r}",
                          {"mode": "storage", "table_prefix": rec.get("prefix", "t"), "hist": rec["hist"], "query": [pr["op"], pr["p"]], "problem": pr, "state": rec})
        # transcription says the code deviates here but the real code does not (or vice versa, already reported): drift
        drift += len(predicted - seen)
    ctx.cov["storage_states_replayed"] = len(states)
    ctx.cov["storage_results_compared"] = total
    ctx.cov["storage_model_predicted_deviations"] = leak_predicted
    ctx.cov["storage_sibling_leaks_observed"] = leak_seen
    ctx.cov["model_drift_notes"] = ctx.cov.get("model_drift_notes", 0) + drift
    ctx.sample({"storage_state": {"hist": states[len(states) // 2]["hist"], "non_default_results": states[len(states) // 2]["q"][:6]}})


def _extra_storage(ctx: Ctx, env: _Env) -> None:
    """JSON helpers and makedirs on both backends (thin wrappers; compared side by side and with the store)."""
    from datashard.storage_backend import LocalStorageBackend

    from .. import fakes3

    fake = fakes3.FakeS3(clock=lambda: T0)
    s3 = fakes3.make_backend(fake, prefix="t/")          # trailing slash in the configured prefix
    base = os.path.join(env.root, "extra")
    os.mkdir(base)
    local = LocalStorageBackend(base)
    doc = {"a": [1, 2, {"b": None}], "s": "é", "n": 1.5}
    for name, be in (("local", local), ("s3", s3)):
        r = _norm(lambda: (be.makedirs("metadata/sub"), be.write_json("metadata/j.json", doc), be.read_json("/metadata/j.json"))[2])
        ctx.count_traces(1)
        if r != ("ok", doc):
            ctx.violation(f"{name}:json-roundtrip", f"{name}: read_json(write_json(d)) = {r!r}", {"mode": "extra", "doc": doc})
        r2 = _norm(lambda: be.read_json("metadata/none.json"))
        if r2[0] != "notfound":
            ctx.violation(f"{name}:read_json:notfound->{r2[0]}", f"{name}: read_json of a missing key gave {r2!r}", {"mode": "extra"})
    a = open(os.path.join(base, "metadata/j.json"), "rb").read()
    b = fake.objects.get("t/metadata/j.json")
    if b is None or a != b.body:
        ctx.violation("json-bytes-differ", "write_json stores different bytes / keys on the two backends", {"mode": "extra", "s3_keys": sorted(fake.objects)})
    shutil.rmtree(base, ignore_errors=True)


# =====================================================================================================
# 2. range reader binding
# =====================================================================================================

def _content(size: int) -> bytes:
    return bytes((65 + 7 * i) % 251 for i in range(size))


def _apply(f: Any, o: Dict[str, Any], buffered: bool) -> Dict[str, Any]:
    """Run one operation on a file object; observable outcome in the spec's vocabulary."""
    out: Dict[str, Any] = {"err": False, "ret": None, "data": b""}
    try:
        if o["op"] == "seek":
            out["ret"] = f.seek(o["a"], o["w"])
        elif o["op"] == "read":
            d = f.read(o["a"])
            out["data"], out["ret"] = bytes(d if d is not None else b""), len(d or b"")
        elif o["op"] == "readinto":
            buf = bytearray(o["a"])
            n = f.readinto(buf)
            n = 0 if n is None else n
            out["data"], out["ret"] = bytes(buf[:n]), n
            if any(buf[n:]):
                out["err_note"] = "bytes written past the returned count"
        elif o["op"] == "readall":
            d = f.read() if buffered else f.readall()
            out["data"], out["ret"] = bytes(d), len(d)
        else:
            out["ret"] = f.tell()
    except Exception as e:  # noqa: BLE001 - whatever the reader raises is the reader's outcome
        out["err"] = True
        out["exc"] = type(e).__name__
    try:
        out["pos"] = f.tell()
    except Exception as e:  # noqa: BLE001
        out["pos"] = f"tell failed: {e!r}"
    return out


def _cmp_step(exp: Dict[str, Any], got: Dict[str, Any], content: bytes) -> Optional[str]:
    if bool(exp["err"]) != bool(got["err"]):
        return "error-expected" if exp["err"] else "unexpected-error"
    if got["pos"] != exp["pos"]:
        return "position"
    if exp["err"]:
        return None
    if got["data"] != content[exp["lo"]:exp["hi"]]:
        return "bytes"
    if got["ret"] != exp["ret"]:
        return "return-value"
    if got.get("err_note"):
        return "buffer-overrun"
    return None


def _range_of(entry: Dict[str, Any]) -> Optional[Tuple[int, int]]:
    r = entry.get("range")
    if not r or not r.startswith("bytes="):
        return None
    a, _, b = r[6:].partition("-")
    try:
        return int(a), int(b)
    except ValueError:
        return (-1, -1)


def _run_program(env: _Env, fake: Any, s3be: Any, localbe: Any, lpath: str, size: int, prog: List[Dict[str, Any]]) -> List[Dict[str, Any]]:
    from datashard.storage_backend import S3RangeFile

    content = _content(size)
    problems: List[Dict[str, Any]] = []
    readers: List[Tuple[str, Any, bool]] = [
        ("raw-s3", S3RangeFile(fake, "b", "t/data/f", size), False),
        ("raw-local", open(lpath, "rb", buffering=0), False),
        ("buffered-s3", s3be.open_seekable("data/f"), True),
        ("buffered-local", localbe.open_seekable("data/f"), True),
    ]
    try:
        for name, f, buffered in readers:
            for si, st in enumerate(prog):
                n0 = len(fake.log)
                got = _apply(f, st["o"], buffered)
                why = _cmp_step(st["ref"], got, content)
                reqs = [(_range_of(e), e) for e in fake.log[n0:] if e["op"] == "get_object"]
                if why:
                    problems.append({"reader": name, "step": si, "op": st["o"], "why": why, "expected": st["ref"],
                                     "got": {k: (v.hex() if isinstance(v, bytes) else v) for k, v in got.items()}})
                    break
                if name.endswith("s3"):
                    for rg, e in reqs:
                        if rg is None or not (0 <= rg[0] <= rg[1] <= size - 1):
                            problems.append({"reader": name, "step": si, "op": st["o"], "why": "request-out-of-range",
                                             "expected": f"0 <= first <= last <= {size - 1}", "got": e.get("range")})
                    nonempty = st["ref"]["hi"] > st["ref"]["lo"]
                    if name == "raw-s3" and len(reqs) > (1 if nonempty else 0):
                        problems.append({"reader": name, "step": si, "op": st["o"], "why": "needless-request",
                                         "expected": 1 if nonempty else 0, "got": [e.get("range") for _, e in reqs]})
                    if name == "raw-s3" and [list(r or ()) for r, _ in reqs] != [list(x) for x in st["rd"]["reqs"]]:
                        problems.append({"reader": name, "step": si, "op": st["o"], "why": "drift", "expected": st["rd"]["reqs"],
                                         "got": [e.get("range") for _, e in reqs]})
    finally:
        for _n, f, _b in readers:
            try:
                f.close()
            except Exception:  # noqa: BLE001
                pass
    return problems


def _bind_range(ctx: Ctx, env: _Env, programs: List[Dict[str, Any]], quick: bool) -> None:
    from datashard.storage_backend import LocalStorageBackend

    from .. import fakes3

    fake = fakes3.FakeS3(clock=lambda: T0)
    s3be = fakes3.make_backend(fake, prefix="t")
    base = os.path.join(env.root, "range")
    os.makedirs(os.path.join(base, "data"))
    localbe = LocalStorageBackend(base)
    lpath = os.path.join(base, "data", "f")
    cur = None
    steps = 0
    drift = 0
    for pr in sorted(programs, key=lambda r: r["size"]):
        size = pr["size"]
        if size != cur:
            cur = size
            fake.seed("t/data/f", _content(size))
            with open(lpath, "wb") as fh:
                fh.write(_content(size))
        if not pr["prog"]:
            continue
        fake.reset_log()
        problems = _run_program(env, fake, s3be, localbe, lpath, size, pr["prog"])
        steps += len(pr["prog"])
        last = pr["prog"][-1]
        ctx.count_case(("range", size, [s["o"] for s in pr["prog"]]), nontrivial=True)
        ctx.count_traces(4)
        for p in problems:
            if p["why"] == "drift":
                drift += 1
                continue
            if p["reader"] == "raw-local":
                raise MachineryError(f"the reference semantics of RangeReader.tla disagrees with a real local file: {p} in program {pr}")
            detail = (f"issued {p['got']!r}; allowed: {p['expected']}" if p["why"] in ("request-out-of-range", "needless-request")
                      else f"-> {p['got']!r}, a local file gives {p['expected']!r}")
            ctx.violation(f"range:{p['reader']}:{p['op']['op']}:{p['why']}",
                          f"{p['reader']} reader over a {size}-byte object, program {[s['o'] for s in pr['prog']]}: step {p['step']} {p['op']} {detail}",
                          {"mode": "range", "size": size, "prog": pr["prog"], "problem": p})
        del last
    ctx.cov["range_programs_replayed"] = len(programs)
    ctx.cov["range_steps_compared_x4_readers"] = steps
    ctx.cov["model_drift_notes"] = ctx.cov.get("model_drift_notes", 0) + drift
    ctx.sample({"range_program": next(p for p in programs if len(p["prog"]) >= 3 and any(s["ref"]["hi"] > s["ref"]["lo"] for s in p["prog"]))})
    # around the BufferedReader's buffer size (1 MiB): oracle = the local file, side by side
    big = (1 << 20) + 1
    r = rng(ctx.seed, "c20-big")
    data = bytes(r.getrandbits(8) for _ in range(4096)) * (big // 4096 + 1)
    for size in ((1 << 20) - 1, 1 << 20, big):
        blob = data[:size]
        fake.seed("t/data/f", blob)
        with open(lpath, "wb") as fh:
            fh.write(blob)
        fake.reset_log()
        fs, fl = s3be.open_seekable("data/f"), localbe.open_seekable("data/f")
        script = [("read", 10), ("seek", (1 << 20) - 5, 0), ("read", 10), ("tell",), ("seek", -3, 2), ("read", 100), ("read", 1),
                  ("seek", 0, 0), ("read", -1), ("read", 1), ("seek", size + 10, 0), ("read", 5), ("seek", -1, 0)]
        for st in script:
            o = {"op": st[0], "a": st[1] if len(st) > 1 else 0, "w": st[2] if len(st) > 2 else 0}
            a, b = _apply(fs, o, True), _apply(fl, o, True)
            ctx.count_traces(1)
            if (a["err"], a["ret"], a["data"], a["pos"]) != (b["err"], b["ret"], b["data"], b["pos"]):
                ctx.violation(f"range:buffered-s3:{o['op']}:buffer-boundary",
                              f"open_seekable over a {size}-byte object: {o} gives ret={a['ret']} pos={a['pos']} err={a['err']} len={len(a['data'])}, "
                              f"local file ret={b['ret']} pos={b['pos']} err={b['err']} len={len(b['data'])}",
                              {"mode": "range-big", "size": size, "script": script})
                break
        for e in fake.log:
            rg = _range_of(e)
            if e["op"] == "get_object" and (rg is None or not (0 <= rg[0] <= rg[1] <= size - 1)):
                ctx.violation("range:buffered-s3:read:request-out-of-range", f"Range {e.get('range')} on a {size}-byte object", {"mode": "range-big", "size": size})
        fs.close()
        fl.close()
    shutil.rmtree(base, ignore_errors=True)


# =====================================================================================================
# 3. retry binding
# =====================================================================================================

class _PyExc(ValueError):
    pass


def _classify(e: BaseException) -> str:
    from botocore.exceptions import BotoCoreError, ClientError

    if isinstance(e, _PyExc):
        return "pyexc"
    if isinstance(e, FileNotFoundError):
        return "notfound"
    if isinstance(e, ClientError):
        code = e.response.get("Error", {}).get("Code", "")
        if code in PERMANENT_REF:
            return "permanent"
        if code in NOTFOUND_CODES:
            return "notfound"
        if code in [c for c, _ in PRECOND]:
            return "precondition"
        return "transient"
    if isinstance(e, (BotoCoreError, OSError)):
        return "transient"
    return "pyexc"


def _concretise(cls: str, k: int, op: str, forced: Optional[Tuple[str, int]] = None) -> BaseException:
    from botocore.exceptions import ConnectTimeoutError, EndpointConnectionError, ReadTimeoutError

    from ..fakes3 import client_error

    if forced is not None and cls == "permanent":
        return client_error(forced[0], "injected", forced[1], op)
    if cls == "transient":
        n = len(TRANSIENT_CE) + 4
        j = k % n
        if j < len(TRANSIENT_CE):
            return client_error(TRANSIENT_CE[j][0], "injected", TRANSIENT_CE[j][1], op)
        j -= len(TRANSIENT_CE)
        return [EndpointConnectionError(endpoint_url="http://s3.invalid"), ConnectionResetError("injected reset"),
                ReadTimeoutError(endpoint_url="http://s3.invalid"), ConnectTimeoutError(endpoint_url="http://s3.invalid")][j]
    if cls == "permanent":
        code = PERMANENT_REF[k % len(PERMANENT_REF)]
        return client_error(code, "injected", 401 if code == "401" else 403, op)
    if cls == "notfound":
        return client_error("404" if op == "head_object" else "NoSuchKey", "injected", 404, op)
    if cls == "precondition":
        c = PRECOND[k % len(PRECOND)]
        return client_error(c[0], "injected", c[1], op)
    if cls == "pyexc":
        return _PyExc("injected non-S3 exception")
    raise MachineryError(f"unknown class {cls}")


class _Injector:
    """Delivers the planned attempt outcomes F to the attempts of ONE backend call."""

    def __init__(self, F: List[str], op: str, when: str = "before", page: Optional[int] = None, salt: int = 0,
                 forced: Optional[Tuple[str, int]] = None) -> None:
        self.F, self.op, self.when, self.page, self.salt, self.forced = F, op, when, page, salt, forced
        self.attempts = 0
        self.pageno = 0

    def _fire(self, i: int) -> None:
        cls = self.F[i] if i < len(self.F) else "ok"
        if cls != "ok":
            raise _concretise(cls, self.salt + i, self.op, self.forced)

    def before(self, op: str, kw: Dict[str, Any]) -> None:
        if op != self.op:
            return
        if self.page is None:
            self.attempts += 1
            if self.when == "before":
                self._fire(self.attempts - 1)
        else:
            if kw.get("ContinuationToken") is None:
                self.attempts += 1
                self.pageno = 1
            else:
                self.pageno += 1
            if self.pageno == self.page:
                self._fire(self.attempts - 1)

    def after(self, op: str, kw: Dict[str, Any], res: Any) -> None:
        if op == self.op and self.page is None and self.when == "after":
            self._fire(self.attempts - 1)


_BODY = b"0123456789abcdef"
_NEW = b"new-content"
_LISTING = sorted(["data/f", "data/g", "data/h", "data/sub/i", "data/sub/j"])


def _sites() -> List[Dict[str, Any]]:
    from datashard.storage_backend import S3RangeFile

    from ..fakes3 import etag_of

    def rng_read(be: Any, fake: Any) -> bytes:
        f = S3RangeFile(fake, "b", "t/data/f", len(_BODY))
        f.seek(3)
        return f.readall()

    def seekable(be: Any, fake: Any) -> bytes:
        with be.open_seekable("data/f") as f:
            return f.read()

    return [
        {"name": "read_file", "op": "get_object", "call": lambda be, fake: be.read_file("data/f"), "want": lambda fake: _BODY},
        {"name": "open_file", "op": "get_object", "call": lambda be, fake: be.open_file("data/f").read(), "want": lambda fake: _BODY},
        {"name": "read_file_with_etag", "op": "get_object", "call": lambda be, fake: be.read_file_with_etag("data/f"),
         "want": lambda fake: (_BODY, etag_of(_BODY))},
        {"name": "read_json", "op": "get_object", "call": lambda be, fake: be.read_json("metadata/j"), "want": lambda fake: {"k": [1, 2]}},
        {"name": "write_file", "op": "put_object", "call": lambda be, fake: be.write_file("data/new", _NEW),
         "want": lambda fake: None, "post": lambda fake: "t/data/new" in fake.objects and fake.objects["t/data/new"].body == _NEW},
        {"name": "write_file/after-effect", "op": "put_object", "when": "after", "call": lambda be, fake: be.write_file("data/new", _NEW),
         "want": lambda fake: None, "post": lambda fake: "t/data/new" in fake.objects and fake.objects["t/data/new"].body == _NEW},
        {"name": "delete_file", "op": "delete_object", "call": lambda be, fake: be.delete_file("data/f"),
         "want": lambda fake: None, "post": lambda fake: "t/data/f" not in fake.objects},
        {"name": "delete_file/after-effect", "op": "delete_object", "when": "after", "call": lambda be, fake: be.delete_file("data/f"),
         "want": lambda fake: None, "post": lambda fake: "t/data/f" not in fake.objects},
        {"name": "exists", "op": "head_object", "call": lambda be, fake: be.exists("data/f"), "want": lambda fake: True, "no_notfound": True},
        {"name": "list_files/page1", "op": "list_objects_v2", "page": 1, "call": lambda be, fake: sorted(be.list_files("data/")), "want": lambda fake: _LISTING},
        {"name": "list_files/page2", "op": "list_objects_v2", "page": 2, "call": lambda be, fake: sorted(be.list_files("data/")), "want": lambda fake: _LISTING},
        {"name": "get_size", "op": "head_object", "call": lambda be, fake: be.get_size("data/f"), "want": lambda fake: len(_BODY)},
        {"name": "get_modified_time", "op": "head_object", "call": lambda be, fake: be.get_modified_time("data/f"), "want": lambda fake: T0},
        {"name": "open_seekable/head", "op": "head_object", "call": seekable, "want": lambda fake: _BODY},
        {"name": "S3RangeFile/_get_range", "op": "get_object", "call": rng_read, "want": lambda fake: _BODY[3:]},
    ]


def _run_retry_case(env: _Env, site: Dict[str, Any], F: List[str], salt: int, forced: Optional[Tuple[str, int]] = None) -> Dict[str, Any]:
    from .. import fakes3

    fake = fakes3.FakeS3(clock=lambda: T0, page_size=2)
    fake.max_keys_cap = 2
    for k in _LISTING:
        fake.seed("t/" + k, _BODY)
    fake.seed("t/data2/sibling", b"s")
    fake.seed("t/metadata/j", json.dumps({"k": [1, 2]}).encode())
    be = fakes3.make_backend(fake, prefix="t")
    inj = _Injector(F, site["op"], when=site.get("when", "before"), page=site.get("page"), salt=salt, forced=forced)
    fake.hooks.before.append(inj.before)
    fake.hooks.after.append(inj.after)
    env.rec.sleeps = []
    obs: Dict[str, Any] = {"status": "returned", "value": "none", "raised": "none"}
    try:
        v = site["call"](be, fake)
        want = site["want"](fake)
        ok = v == want and (site["post"](fake) if "post" in site else True)
        if isinstance(want, bool) and not isinstance(v, bool):
            ok = False
        obs["value"] = "value" if ok else ("empty" if not v else "other")
        obs["returned"] = repr(v)[:120]
    except Exception as e:  # noqa: BLE001
        obs["status"] = "raised"
        obs["raised"] = _classify(e)
        obs["exception"] = f"{type(e).__name__}: {e}"[:160]
    n = inj.attempts
    obs["F"] = [(F[i] if i < len(F) else "ok") for i in range(n)]
    obs["attempts"] = n
    obs["sleeps"] = list(env.rec.sleeps)
    return obs


def _bind_retry(ctx: Ctx, env: _Env, seqs: List[Dict[str, Any]], cap_seqs: List[Dict[str, Any]], quick: bool) -> None:
    sites = _sites()
    runs: List[Dict[str, Any]] = []       # {"site", "F", "obs", "model"}
    drift = 0
    per_seq = 4 if quick else len(sites)
    for si, rec in enumerate(sorted(seqs, key=lambda r: json.dumps(r["F"]))):
        F = rec["F"]
        chosen = [sites[(si * 5 + j * 4 + j // 4) % len(sites)] for j in range(per_seq)] if quick else sites
        seen_names = set()
        for site in chosen:
            if site["name"] in seen_names:
                continue
            seen_names.add(site["name"])
            if site.get("no_notfound") and "notfound" in F:
                continue
            obs = _run_retry_case(env, site, F, salt=si)
            runs.append({"site": site["name"], "F": F, "obs": obs, "model": rec})
    # every permanent code and every transient flavour on its own, at several call sites
    by = {s["name"]: s for s in sites}
    for code in PERMANENT_REF:
        for nm in ("read_file", "write_file", "list_files/page2", "exists", "S3RangeFile/_get_range", "delete_file"):
            for F, model in ((["permanent"], {"status": "raised", "raised": "permanent", "attempts": 1, "sleeps": []}),
                             (["transient", "permanent"], {"status": "raised", "raised": "permanent", "attempts": 2, "sleeps": [1]})):
                obs = _run_retry_case(env, by[nm], F, salt=PERMANENT_REF.index(code), forced=(code, 401 if code == "401" else 403))
                runs.append({"site": nm, "F": F, "obs": obs, "model": dict(model, F=F, value="none"), "code": code})
    for k in range(len(TRANSIENT_CE) + 4):
        for nm in ("read_file", "write_file/after-effect", "list_files/page1", "get_size", "exists", "open_seekable/head"):
            F = ["transient", "ok"]
            obs = _run_retry_case(env, by[nm], F, salt=k)
            runs.append({"site": nm, "F": F, "obs": obs, "model": {"F": F, "status": "returned", "value": "value", "raised": "none", "attempts": 2, "sleeps": [1]}})
    # direct use of the handler with a larger budget: the backoff cap (5.0 s) becomes visible
    from datashard.s3_consistency import S3ConsistencyHandler

    for rec in cap_seqs:
        F = rec["F"]
        h = S3ConsistencyHandler(max_retries=8)
        state = {"i": 0}

        def op() -> str:
            i = state["i"]
            state["i"] += 1
            cls = F[i] if i < len(F) else "ok"
            if cls != "ok":
                raise _concretise(cls, i, "get_object")
            return "the-value"

        env.rec.sleeps = []
        obs = {"status": "returned", "value": "none", "raised": "none"}
        try:
            obs["value"] = "value" if h.retry_with_backoff(op, "direct") == "the-value" else "other"
        except Exception as e:  # noqa: BLE001
            obs["status"], obs["raised"] = "raised", _classify(e)
        obs["F"] = [(F[i] if i < len(F) else "ok") for i in range(state["i"])]
        obs["attempts"], obs["sleeps"] = state["i"], list(env.rec.sleeps)
        runs.append({"site": "handler(max_retries=8)", "F": F, "obs": obs, "model": rec, "maxr": 8})

    # ---- verdict: TLC judges the observed endings with the reference predicates ----
    def key(o: Dict[str, Any]) -> str:
        return json.dumps({"F": o["F"], "status": o["status"], "value": o["value"], "raised": o["raised"]}, sort_keys=True)

    for maxr in (5, 8):
        mine = [r for r in runs if r.get("maxr", 5) == maxr]
        distinct: Dict[str, Dict[str, Any]] = {}
        for r in mine:
            distinct.setdefault(key(r["obs"]), r)
        keys = sorted(distinct)
        obs_file = os.path.join(env.root, f"obs{maxr}.ndjson")
        with open(obs_file, "w") as f:
            for k in keys:
                f.write(k + "\n")
        res = tlc.run_tlc("MC_Retry", _retry_cfg(maxr=maxr, classes=["ok"], invs=["ValidateObserved"]), env={"OBS_FILE": obs_file},
                          workers=1, label=f"retry-validate-observed(max_retries={maxr})", timeout_s=600)
        ctx.add_tlc(res)
        out = _json_lines(res)
        if not res.ok or len(out) != 1 or out[0]["validated"] != len(keys):
            raise MachineryError(f"trace validation of retry endings failed to run: {res.stdout[-1500:]}")
        bad = {keys[b["i"] - 1]: b["failed"] for b in out[0]["bad"]}
        for r in mine:
            k = key(r["obs"])
            if k in bad:
                o = r["obs"]
                how = o["raised"] if o["status"] == "raised" else "returned-" + o["value"]
                ctx.violation(f"retry:{r['site']}:{'+'.join(sorted(bad[k]))}:{how}",
                              f"{r['site']} with attempt outcomes {r['F']} made {o['attempts']} attempt(s) and ended {o['status']} "
                              f"({o.get('exception') or o.get('returned')}); violates {sorted(bad[k])}",
                              {"mode": "retry", "site": r["site"], "F": r["F"], "observed": o, "failed": bad[k]})
        ctx.cov[f"retry_distinct_endings_validated_by_tlc(max_retries={maxr})"] = len(keys)
    # ---- drift: compare with the transcription's prediction (attempts, ending, backoff schedule) ----
    for r in runs:
        o, m = r["obs"], r["model"]
        same = (o["status"] == m["status"] and o["raised"] == m["raised"] and o["attempts"] == m["attempts"]
                and len(o["sleeps"]) == len(m["sleeps"]) and all(abs(a - 0.1 * b) < 1e-9 for a, b in zip(o["sleeps"], m["sleeps"])))
        if not same:
            drift += 1
            if drift <= 3:
                ctx.cov.setdefault("retry_drift_examples", []).append({"site": r["site"], "F": r["F"], "observed": {k: o[k] for k in ("status", "raised", "attempts", "sleeps")},
                                                                       "model": {k: m[k] for k in ("status", "raised", "attempts", "sleeps")}})
        ctx.count_case(("retry", r["site"], r["F"], r.get("code")), nontrivial=len(r["F"]) > 1 or r["F"] != ["ok"])
    ctx.count_traces(len(runs))
    ctx.cov["retry_cases_run"] = len(runs)
    ctx.cov["retry_call_sites"] = [s["name"] for s in sites]
    ctx.cov["model_drift_notes"] = ctx.cov.get("model_drift_notes", 0) + drift
    ex = next(r for r in runs if r["F"][:2] == ["transient", "transient"] and r["obs"]["status"] == "returned")
    ctx.sample({"retry_case": {"site": ex["site"], "F": ex["F"], "observed": ex["obs"]}})

    # exists() on a missing key answers False from one HEAD, without retrying (404 is an answer, not a failure)
    from .. import fakes3

    fake = fakes3.FakeS3()
    be = fakes3.make_backend(fake, prefix="t")
    fake.seed("t/data/x.parquet", b"1")
    r0 = _norm(lambda: be.exists("data/x"))
    ctx.count_traces(1)
    if r0 != ("ok", False):
        ctx.violation("s3:exists:wrong-value", f"exists('data/x') with only data/x.parquet present gave {r0!r}", {"mode": "exists-missing"})
    # is_permanent_s3_error agrees with the reference classification
    from datashard.s3_consistency import is_permanent_s3_error

    for code in PERMANENT_REF:
        if not is_permanent_s3_error(fakes3.client_error(code, "x", 403)):
            ctx.violation(f"retry:is_permanent_s3_error:{code}", f"is_permanent_s3_error does not recognise {code}", {"mode": "classify", "code": code})
    for code, st in TRANSIENT_CE + [("NoSuchKey", 404), ("PreconditionFailed", 412)]:
        if is_permanent_s3_error(fakes3.client_error(code, "x", st)):
            ctx.violation(f"retry:is_permanent_s3_error:{code}", f"is_permanent_s3_error treats {code} as permanent", {"mode": "classify", "code": code})


# =====================================================================================================
# entry points
# =====================================================================================================

def run(ctx: Ctx) -> None:
    quick = ctx.tier == "quick"
    results = _run_jobs(ctx, quick)
    if ctx.violations:
        return
    states: List[Dict[str, Any]] = []
    for job, tprefix in (("storage-export", "t"), ("storage-export-prefix-a/b/", "a/b/"), ("storage-export-no-prefix", ""), ("storage-export-prefix-dat", "dat")):
        part = _json_lines(results[job])
        if len(part) != results[job].distinct:
            raise MachineryError(f"{job}: {len(part)} records for {results[job].distinct} distinct states")
        for rec in part:
            rec["prefix"] = tprefix
        states += part
    programs = _json_lines(results["range-export"])
    if len(programs) != results["range-export"].distinct:
        raise MachineryError(f"range export: {len(programs)} records for {results['range-export'].distinct} distinct states")
    seqs = _json_lines(results["retry-export"])
    cap = _json_lines(results["retry-cap-export"])
    if not seqs or not cap:
        raise MachineryError("retry export empty")
    env = _Env()
    try:
        _bind_storage(ctx, env, states, procs=4 if quick else 8)
        _extra_storage(ctx, env)
        _bind_range(ctx, env, programs, quick)
        _bind_retry(ctx, env, seqs, cap, quick)
    finally:
        env.close()
    ctx.cov["exhaustive"] = True
    ctx.rule("cases = (a) distinct states of MC_Storage (mutation sequence; every query of the model evaluated in it on both backends), "
             "(b) distinct (size, position, step, operation) states of MC_RangeReader with a witness program, run on 4 readers, "
             "(c) (call site, attempt-outcome sequence) pairs from MC_Retry's finished behaviours; non-trivial = at least one mutation / "
             "one step / one failed attempt; distinct by canonical hash of the case")
    ctx.assume("the fake S3 (harness/fakes3.py) is strongly consistent and implements S3's exact-key GET/HEAD/PUT/DELETE, raw string-prefix listing in key order with pagination, and ranged GET (416 past EOF, end clamped)",
               "key universe: 6 keys with sibling prefixes (data/x, data/x.parquet, data/sub/w, data2/y, database/z, metadata/m), 2 contents (0 and 2 bytes), leading-slash spellings, 9 directory spellings; no key is a directory of another",
               "documented limit: exists() on a bare directory name is outside the compared contract (local: True, S3: False; TLC companion 'storage-limit-probe-dirs' shows it); paths with '..' or symlinks are C17's subject",
               "reader: object sizes {0,1,2,5(,8)} exhaustively, 2^20-1, 2^20, 2^20+1 by a fixed script against a local file; object immutable while open",
               "retry: outcome classes per attempt (ok/transient/permanent/not-found/precondition/non-S3 exception); time.sleep inside datashard.s3_consistency replaced by a recorder; conditional writes (write_file_cas) are not part of the common contract",
               "mtime: S3 LastModified from the fake's virtual clock; local mtime compared with an independent os.stat taken right after the write")


def replay(ctx: Ctx, path: str) -> None:
    with open(path) as f:
        payload = json.load(f)
    rp = payload.get("replay", payload)
    env = _Env()
    try:
        mode = rp.get("mode")
        if mode == "storage":
            rec = rp["state"]
            ql = [[rp["query"][0], rp["query"][1]]] if rp["query"][0] not in ("store", "write_file", "delete_file") else []
            out = _run_storage_state(env, rec, ql, 0)
            for pr in out["problems"]:
                print(f"REPRODUCED {pr['sig']}: {pr['backend']} {pr['op']}({pr['p']!r}) -> {pr['got']!r}, expected {pr['expected']!r}")
                ctx.violation(pr["sig"], f"{pr['backend']}: {pr['op']}({pr['p']!r}) returned {pr['got']!r}, expected {pr['expected']!r}", rp)
            if not out["problems"]:
                print("not reproduced")
        elif mode == "range":
            from datashard.storage_backend import LocalStorageBackend

            from .. import fakes3

            fake = fakes3.FakeS3()
            s3be = fakes3.make_backend(fake, prefix="t")
            base = os.path.join(env.root, "r")
            os.makedirs(os.path.join(base, "data"))
            fake.seed("t/data/f", _content(rp["size"]))
            with open(os.path.join(base, "data", "f"), "wb") as fh:
                fh.write(_content(rp["size"]))
            probs = _run_program(env, fake, s3be, LocalStorageBackend(base), os.path.join(base, "data", "f"), rp["size"], rp["prog"])
            for p in probs:
                if p["why"] != "drift":
                    print(f"REPRODUCED {p}")
                    ctx.violation(f"range:{p['reader']}:{p['op']['op']}:{p['why']}", json.dumps(p, default=str), rp)
            if not probs:
                print("not reproduced")
        elif mode == "retry":
            site = {s["name"]: s for s in _sites()}[rp["site"]]
            obs = _run_retry_case(env, site, rp["F"], salt=0)
            print("observed:", json.dumps(obs))
        else:
            print(f"replay: nothing executable for mode {mode!r}; payload: {json.dumps(rp)[:2000]}")
    finally:
        env.close()
