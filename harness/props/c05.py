"""C05 - Garbage collection never deletes anything reachable or in flight.

Three specification-backed parts:

1. NormalizePath.tla (harness/normalize_check.py): the collector's path keys.  TLC enumerates every
   table-location spelling up to length 3/4 over {/ . d a t m e x} plus named longer ones, proves
   that listed and referenced forms of every internal file key to the same string and that distinct
   files stay distinct (repaired mode; the pre-repair string-prefix stripping must fail exactly where
   the location bites into an internal directory name), and the exported table is compared with the
   real functions on the whole domain.
2. History.tla (harness/history_replay.py): all sequential histories up to a length bound over
   {append, delete, expire, delete-snapshot, open / rollback / commit-open transaction, failed commit,
   collect(g in {0, default, large}), tick(1 ms | 2 h)} - TLC checks GCKeepsReachable,
   GCRemovesOldOrphans, RetainedImmutable on every step and exports the expected observation after
   every step.  Every history is replayed on the real library under a virtual clock FOR EACH
   table-location spelling class (absolute, trailing slash, relative, ./x, names that are string
   prefixes of the internal directory names: d, data, m, metadata, data2; symlinked root); after every
   step the independent reader compares what was deleted with the reachable and in-flight sets, re-reads
   every retained snapshot, and checks that old unprotected orphans are gone.
3. DataShard.tla collector (shared with C06/C07): real collection runs with grace 0 / default /
   large over tables with old and fresh orphans and an open transaction, traces validated by TLC
   (a delete is accepted only if the model's rule allows it; the sweep must be complete).
"""
from __future__ import annotations

import os
import shutil
from typing import Any, Dict, List, Tuple

from .. import history_replay as hr, l1, normalize_check
from ..common import Ctx, MachineryError, rng, scratch_dir
from ..l1 import ActorSpec as A, Scenario
from . import c01

LEVEL = "model_checking"

SPELLINGS = ["abs", "abs/", "rel:t", "rel:./x", "rel:x/", "rel:d", "rel:data", "rel:m", "rel:metadata", "rel:data2", "symlink"]


def _replay_with_spelling(case: Dict[str, Any], spelling: str, seed: int) -> Dict[str, Any]:
    """Replay one TLC history with the table location spelled in the given way."""
    base = scratch_dir("c05")
    cwd0 = os.getcwd()
    try:
        if spelling == "abs":
            loc = os.path.join(base, "tbl")
        elif spelling == "abs/":
            loc = os.path.join(base, "tbl") + "/"
        elif spelling == "symlink":
            real = os.path.join(base, "real_tbl")
            os.makedirs(real)
            loc = os.path.join(base, "link_tbl")
            os.symlink(real, loc)
        else:
            os.chdir(base)
            loc = spelling.split(":", 1)[1]
        clock = hr.VirtualClock()
        with clock:
            return hr.replay_case(case, clock, seed=seed, table_dir=loc)
    finally:
        os.chdir(cwd0)
        shutil.rmtree(base, ignore_errors=True)


def _history_part(ctx: Ctx, quick: bool) -> None:
    res, cases = hr.gc_history_cases(exhaustive_len=2 if quick else 3, sample=40 if quick else 400, sample_len=7, seed=ctx.seed, workers=8)
    ctx.add_tlc(res)
    if not res.ok and res.timed_out and not res.violated:
        raise MachineryError("History.tla (gc mode): the time limit ended TLC before the histories were exported")
    if not res.ok:
        ctx.violation("model:History.gc", f"TLC: {res.violated or 'timeout'} in History.tla (gc mode)", res.error_trace[:4000])
        return
    r = rng(ctx.seed, "c05-spell")
    # every spelling gets every short history; longer ones are spread over the spellings
    n = 0
    for ci, case in enumerate(cases):
        has_gc = any(o.get("op") == "collect" for o in case["ops"])
        if not has_gc:
            continue
        directed = case["ops"] in [[hr.OPS[x] for x in h] for h in hr.GC_DIRECTED]
        if directed:
            spells = SPELLINGS
        elif len(case["ops"]) <= 2 or quick is False:
            spells = SPELLINGS if (not quick or ci % 3 == 0) else r.sample(SPELLINGS, 3)
        else:
            spells = r.sample(SPELLINGS, 2)
        for sp in spells:
            out = _replay_with_spelling(case, sp, ctx.seed)
            n += 1
            ctx.count_case(("hist", sp, case["ops"]), nontrivial=True)
            ctx.count_traces(1)
            for v in out["violations"]:
                if v.get("cat") in ("gc", "c09"):
                    ctx.violation(f"gc-history:{v['sig']}:{sp.split(':')[0] if sp.startswith('abs') or sp == 'symlink' else sp}",
                                  f"collection history {case['ops']} at table location spelling '{sp}': {v['what']} (step {v.get('step')})",
                                  {"ops": case["ops"], "spelling": sp, "violation": v})
            if out["drift"]:
                ctx.cov["history_model_drift_notes"] = ctx.cov.get("history_model_drift_notes", 0) + 1
    ctx.cov["history_replays"] = n
    if cases:
        ctx.sample({"history": cases[len(cases) // 2]["ops"], "spellings": SPELLINGS})


def _collector_part(ctx: Ctx, quick: bool) -> None:
    """Sequential real collection runs validated against DataShard.tla's collector."""
    scns = []
    for g in (0, 3600000, 36000000):
        scns.append(Scenario(f"gc-seq-grace{g}", [A("c1", "committer", [{"t": "append"}, {"t": "delete", "refs": [("init", 1)]}, {"t": "expire", "cutoff": 8}]),
                                                 A("g1", "collector", [{"t": "gc", "grace": g}, {"t": "gc", "grace": g}])],
                             data_age_ms=10_000, orphans=2, init_snaps=3, grace=g))
    # a delete that keeps part of a multi-file manifest: the survivors are referenced only through the REWRITTEN manifest
    # (entries with status EXISTING, none ADDED) once the older snapshots are expired
    scns.append(Scenario("gc-seq-rewritten-manifest", [A("c1", "committer", [{"t": "append", "n": 2}, {"t": "delete", "refs": [("c1", 1, 1)]}, {"t": "expire", "cutoff": 100000}]),
                                                       A("g1", "collector", [{"t": "gc", "grace": 0}, {"t": "gc", "grace": 0}])],
                         data_age_ms=10_000, orphans=1, init_snaps=2, grace=0))
    for scn in scns:
        jobs: List[Tuple[str, Any]] = [("list", [["c1", 400], ["g1", 400]]), ("list", [["g1", 400], ["c1", 400]])]
        steps = l1.solo_steps(scn)
        for k in range(0, steps["c1"], 7 if quick else 2):       # the transaction is open (paused) while the collector runs
            jobs.append(("list", [["c1", k], ["g1", 400], ["c1", 400]]))
        traces = l1.run_many(scn, jobs, parallel=False)
        for t in traces:
            if t.get("harness_error"):
                raise MachineryError(f"execution of {scn.name} failed in the harness: {t['harness_error']}")
        v = l1.validate(scn, traces)
        ctx.add_tlc(v.res)
        for i, t in enumerate(traces):
            ctx.count_case((scn.name, [(e["a"], e["k"]) for e in t["events"]]), nontrivial=any(e["k"] == "DeleteFile" and e["a"] == "g1" for e in t["events"]))
            ctx.count_traces(1)
            if v.accepted[i]:
                continue
            replay = {"scenario": scn.name, "schedule": t["schedule"], "outcomes": t["outcomes"], "errors": t["errors"]}
            if v.violated[i] is not None:
                pos, inv = v.violated[i]
                replay["events"] = t["events"][max(0, pos - 14):pos]
                ctx.violation(f"{inv}:{scn.name}", f"invariant {inv} violated by a real collection run ({scn.name})", replay)
            else:
                pos = v.reached[i]
                bad = t["events"][pos - 1] if 0 < pos <= len(t["events"]) else {}
                replay["events"] = t["events"][max(0, pos - 12):pos + 1]
                ctx.violation(f"nonconformance:{scn.name}:{bad.get('k')}",
                              f"real collection run of {scn.name} is not a behaviour of DataShard.tla (e.g. an eligible orphan was kept, or an ineligible file deleted): "
                              f"event {pos} { {k: x for k, x in bad.items() if k not in ('obs', 'body')} }", replay)


def run(ctx: Ctx) -> None:
    quick = ctx.tier == "quick"
    try:
        normalize_check.run_normalize(ctx, quick)
        _history_part(ctx, quick)
        _collector_part(ctx, quick)
    finally:
        l1.close_pool()
    ctx.rule("histories: all of length <= 2 (quick) / 3 (thorough) plus seeded longer ones from History.tla's gc alphabet, each replayed per table-location spelling; "
             "path keys: every location string up to length 3/4 plus named ones; collector traces: grace in {0, default, large} with an open transaction paused at many points; "
             "non-trivial = the history contains a collection / the collector deleted something")
    ctx.assume("location spellings that would require creating tables at the filesystem root (/data, /d, ...) are covered at function level (NormalizePath) only",
               "S3 prefixes use the same key functions; the in-memory S3 listing semantics are covered by C20")
