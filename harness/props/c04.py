"""C04 - A failed, interrupted or ambiguous commit never damages committed data.

Specification: spec/DataShard.tla with the Fault(a, kind) action (kind "before": the storage call
raises without effect; "after": object storage pointer write lands, then raises; "async":
KeyboardInterrupt/SystemExit delivered at a step boundary), the swallowed best-effort failures
(SkipMarker, SkipRollbackData) and the call styles (context manager vs explicit begin/commit).
Invariants: ReachablePresent (every file referenced by a retained snapshot exists), AckedOnce
(ok => reflected once, error/cme => not reflected, ambiguous/interrupted => at most once),
NoDeleteOnAmbiguous, Serializable (uncommitted files never become reachable), NoLiveDelete.

TLC: every single fault (and double faults) at every step of append / delete / expire /
delete-snapshot commits followed by another commit, local and CAS backends, both call styles;
anti-vacuity: the pre-repair handling of interrupts must violate ReachablePresent.
Binding: on the real library every scheduling point of every operation is failed once (OSError
before effect; KeyboardInterrupt and SystemExit at every boundary), alone and with a second
committer racing; each trace is validated by TLC against the same actions - the error path the
code takes (what it deletes, what it keeps, what it reports) must be the one the model takes, and
every invariant is evaluated after every event, including the follow-up commit and final read.
"""
from __future__ import annotations

from typing import Any, Dict, List, Tuple

from .. import l1
from ..common import Ctx, MachineryError, rng
from ..l1 import ActorSpec as A, Scenario
from ..tlc import Raw
from . import c01

LEVEL = "model_checking"
INV = c01.INV + ["NoDeleteOnAmbiguous"]
ONE = dict(Actors=Raw("<- A1"), Role=Raw("<- Role_C1"), Idx=Raw("<- Idx_1"), Handle=Raw("<- Sep_1"))


def mc_configs(quick: bool) -> List[Tuple[str, Dict[str, Any], bool]]:
    b = c01.mc_base
    fi = dict(FixInterrupt=True)
    c = [
        ("append then append; one fault (before/async), local", b(Prog=Raw("<- Prog_1AppThenApp"), FaultKinds={"before", "async"}, FaultBudget=1, **ONE, **fi), True),
        ("delete then append; one fault, local", b(Prog=Raw("<- Prog_1DelThenApp"), FaultKinds={"before", "async"}, FaultBudget=1, **ONE, **fi), True),
        ("expire then append; one fault, local", b(Prog=Raw("<- Prog_1ExpThenApp"), FaultKinds={"before", "async"}, FaultBudget=1, **ONE, **fi), True),
        ("delete-snapshot then append; one fault, local", b(Prog=Raw("<- Prog_1DsThenApp"), FaultKinds={"before", "async"}, FaultBudget=1, **ONE, **fi), True),
        ("explicit begin/commit; one fault", b(Prog=Raw("<- Prog_1AppExplicit"), FaultKinds={"before", "async"}, FaultBudget=1, **ONE, **fi), True),
        ("CAS object storage; before/after/async at every step", b(Prog=Raw("<- Prog_1AppThenApp"), FaultKinds={"before", "after", "async"}, FaultBudget=1, Backend="s3cas", **ONE, **fi), True),
        ("non-CAS object storage; before/after", b(Prog=Raw("<- Prog_1AppThenApp"), FaultKinds={"before", "after"}, FaultBudget=1, Backend="s3plain", **ONE, **fi), True),
        ("append then append; two faults", b(Prog=Raw("<- Prog_1AppThenApp"), FaultKinds={"before", "async"}, FaultBudget=2, **ONE, **fi), True),
        ("[must fail] interrupts handled as before the repair", b(Prog=Raw("<- Prog_1AppThenApp"), FaultKinds={"async"}, FaultBudget=1, **ONE), False),
    ]
    if not quick:
        c += [
            ("two committers, one fault anywhere", b(FaultKinds={"before", "async"}, FaultBudget=1, **fi), True),
            ("append || delete, one fault, CAS", b(Prog=Raw("<- Prog_AppDel"), FaultKinds={"before", "after", "async"}, FaultBudget=1, Backend="s3cas", **fi), True),
            ("delete then append; two faults", b(Prog=Raw("<- Prog_1DelThenApp"), FaultKinds={"before", "async"}, FaultBudget=2, **ONE, **fi), True),
        ]
    return c


def scenarios(quick: bool) -> List[Tuple[Scenario, str]]:
    """(scenario, actor whose steps are failed)"""
    rd = A("r1", "reader", [{"t": "read", "api": "scan"}])
    s = [
        (Scenario("f-append-ctx", [A("c1", "committer", [{"t": "append"}, {"t": "append"}])]), "c1"),
        (Scenario("f-append-explicit", [A("c1", "committer", [{"t": "append", "style": "explicit"}, {"t": "append", "style": "explicit"}])]), "c1"),
        (Scenario("f-delete", [A("c1", "committer", [{"t": "delete", "refs": [("init", 1)]}, {"t": "append"}])]), "c1"),
        (Scenario("f-expire", [A("c1", "committer", [{"t": "expire", "cutoff": 8}, {"t": "append"}])]), "c1"),
        (Scenario("f-delsnap", [A("c1", "committer", [{"t": "delsnap", "who": ("init", 2)}, {"t": "append"}])]), "c1"),
        # object storage with conditional writes: a request may fail AFTER it took effect (ambiguous pointer write)
        (Scenario("f-append-s3cas", [A("c1", "committer", [{"t": "append"}, {"t": "append"}])], backend="s3cas"), "c1"),
    ]
    if not quick:
        s += [
            (Scenario("f-2file-tx", [A("c1", "committer", [{"t": "append", "n": 2}, {"t": "delete", "refs": [("c1", 1, 1)]}])]), "c1"),
            (Scenario("f-multi", [A("c1", "committer", [{"t": "multi", "n": 1, "refs": [("init", 1)], "cutoff": 8}, {"t": "append"}])]), "c1"),
            (Scenario("f-with-racer", [A("c1", "committer", [{"t": "append"}]), A("c2", "committer", [{"t": "append"}]), rd]), "c1"),
        ]
    return s


def run(ctx: Ctx) -> None:
    quick = ctx.tier == "quick"
    kinds = [("before", "oserror"), ("async", "kbd"), ("async", "sysexit")]
    try:
        c01.run_mc(ctx, mc_configs(quick), INV)
        from concurrent.futures import ThreadPoolExecutor

        batches = []
        for scn, victim in scenarios(quick):
            steps = l1.solo_steps(scn)
            kk = kinds + ([("after", "oserror"), ("before", "clienterror")] if scn.backend != "local" else [])
            if scn.backend == "local" and scn.name in ("f-append-ctx", "f-delete"):
                # the flush of the temp file / of its directory fails inside the atomic write (1st / 2nd fsync of the call)
                kk = kk + [("sys", "fsync1"), ("sys", "fsync2")]
            if quick and scn.name not in ("f-append-ctx", "f-append-s3cas"):
                kk = [k_ for k_ in kk if k_[1] != "sysexit"]        # SystemExit everywhere only in the thorough tier
            jobs = [("list", s_) for s_ in l1.fault_schedules(scn, steps, victim, kk, stride=1)]
            if len(scn.actors) > 1:
                # the victim is paused/failed while the others run first, or after
                r = rng(ctx.seed, scn.name)
                extra = []
                for _ in range(150):
                    k = r.randint(0, steps[victim])
                    when, kind = r.choice(kinds)
                    others = [a.name for a in scn.actors if a.name != victim]
                    pre = [[o, r.randint(0, steps.get(o, 1))] for o in others]
                    extra.append(("list", pre + [[victim, k], ["fault", victim, when, kind], [victim, 400]]))
                jobs += extra
            traces = l1.run_many(scn, jobs)
            for t in traces:
                if t.get("harness_error"):
                    raise MachineryError(f"execution of {scn.name} failed in the harness: {t['harness_error']}")
            # the model places "the request took effect, the client saw an error" at the pointer write only (elsewhere it is
            # indistinguishable from a failure of the next request as far as leftovers are concerned)
            traces = [t for t in traces if not any(e["k"] == "Fault" and e.get("when") == "after" and not (e.get("cls") in ("hint", "meta") and e.get("op") in ("write_file", "write_file_cas")) for e in t["events"])]
            n_fault = sum(1 for t in traces if any(e["k"] == "Fault" for e in t["events"]))
            ctx.cov["faults_delivered"] = ctx.cov.get("faults_delivered", 0) + n_fault
            for lo in range(0, len(traces), 120):
                batches.append((scn, traces[lo:lo + 120]))
            mid = traces[len(traces) // 2]
            ctx.sample({"scenario": scn.name, "schedule": mid["schedule"], "outcomes": mid["outcomes"],
                        "events": [f"{e['a']}:{e['k']}" + (f"({e.get('op')},{e.get('when')})" if e["k"] == "Fault" else "") for e in mid["events"][:60]]}, cap=4)
        with ThreadPoolExecutor(max_workers=6) as tp:
            verdicts = list(tp.map(lambda b_: l1.validate(b_[0], b_[1]), batches))
        for (scn, batch), v in zip(batches, verdicts):
            ctx.add_tlc(v.res)
            for i, t in enumerate(batch):
                faulted = [e for e in t["events"] if e["k"] == "Fault"]
                key = (scn.name, [(e["a"], e["k"]) for e in t["events"]], [(e.get("op"), e.get("when"), e.get("kind")) for e in faulted])
                ctx.count_case(key, nontrivial=bool(faulted))
                ctx.count_traces(1)
                if v.accepted[i]:
                    continue
                replay = {"scenario": scn.name, "schedule": t["schedule"], "outcomes": t["outcomes"], "errors": t["errors"]}
                fdesc = (faulted[0].get("op"), faulted[0].get("when")) if faulted else None
                if v.violated[i] is not None:
                    pos, inv = v.violated[i]
                    replay["events"] = t["events"][max(0, pos - 14):pos]
                    ctx.violation(f"{inv}:{scn.name}:{fdesc}", f"invariant {inv} violated by a real execution of {scn.name} with fault {fdesc} "
                                  f"(outcomes {t['outcomes']})", replay)
                else:
                    pos = v.reached[i]
                    evs = t["events"]
                    bad = evs[pos - 1] if 0 < pos <= len(evs) else {}
                    replay["events"] = evs[max(0, pos - 12):pos + 1]
                    ctx.violation(f"nonconformance:{scn.name}:{fdesc}:{bad.get('k')}",
                                  f"real execution of {scn.name} with fault {fdesc} is not a behaviour of DataShard.tla: event {pos} "
                                  f"{ {k: x for k, x in bad.items() if k not in ('obs', 'body')} } has no enabled action", replay)
    finally:
        l1.close_pool()
    ctx.rule("model: Fault enabled at every step of every operation kind (budget 1-2); implementation: one fault per execution at every scheduling point "
             "(OSError before the call's effect; KeyboardInterrupt/SystemExit at every boundary incl. clock reads, fence, commit entry, _finish_committed entry), "
             "plus seeded placements with a racing committer; non-trivial = the fault was delivered; distinct by (event sequence, fault)")
    ctx.assume("asynchronous exceptions are delivered at scheduling points (an interrupt inside a C call surfaces at the next bytecode boundary)",
               "object-storage faults (after-effect at the pointer write) are model-checked here and exercised on the in-memory S3 by C08's harness",
               "lock-release failures are swallowed by the library (modelled as successful release)")
