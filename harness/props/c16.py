"""C16 - Commits are durable: the pointer never outruns the data it references.

Specification: spec/FSDurable.tla (L0 file-system model with Crash and PowerLoss; invariants
PointerNeverOutruns, PostLossOK, AckedCommitDurable, AtomicPublish), spec/MC_FSDurable.tla (the
library's publish protocol as an explicit process, for every operation type x 0..2 prior snapshots),
spec/Trace_FS.tla (trace validation with a silent PowerLoss branch after every event).

1. TLC proves the invariants for the protocol as the code implements it, and must FAIL for each of
   eight one-step deviations (no fsync, no directory fsync, pointer first, in place, ...).
2. Binding = trace validation of REAL system-call traces: an unpatched child interpreter performs
   create, append, a multi-file transaction, delete_files, expire_snapshots, delete_snapshot, two
   racing commits with a forced optimistic-concurrency retry, garbage_collect and a commit after it,
   under `strace -f -y`.  Each traced call becomes one event; every pointer write carries the
   reachable set of the version it names, computed by the independent reader (harness/project.py).
   TLC must accept the whole trace and evaluates the invariants in every state and in every
   power-loss branch after every event.
3. Anti-vacuity of the binding: the same real trace with its fsync events removed must be rejected.
"""
from __future__ import annotations

import json
import os
import re
import shutil
from concurrent.futures import ThreadPoolExecutor
from typing import Any, Dict, List, Optional, Tuple

from .. import strace_trace as S
from .. import tlc
from ..common import Ctx, MachineryError, scratch_dir

LEVEL = "model_checking"

C16_INV = ["PointerNeverOutruns", "PostLossOK", "AckedCommitDurable", "AtomicPublish", "CrashPreOrPost0"]
MC_INV = C16_INV + ["AtMostOneFlip", "Finishes"]

# deviation -> invariants of which at least one must be reported
VARIANTS: Dict[str, List[str]] = {
    "nofsync": ["PointerNeverOutruns", "PostLossOK"],
    "nodirfsync": ["PointerNeverOutruns", "PostLossOK", "AckedCommitDurable"],
    "nodatafsync": ["PointerNeverOutruns", "PostLossOK"],
    "nodatadirfsync": ["PointerNeverOutruns", "PostLossOK"],
    "hintfirst": ["PointerNeverOutruns", "CrashPreOrPost0", "PostLossOK"],
    "inplace": ["AtomicPublish"],
    "datafinal": ["AtomicPublish"],
    "gclive": ["PointerNeverOutruns", "CrashPreOrPost0"],
}


def mc_cfg(variant: str, invariants: List[str], max_prior: int = 2, export: bool = False) -> str:
    return tlc.make_cfg(spec="Spec", constants={"Variant": variant, "MaxPrior": max_prior}, invariants=invariants,
                        postcondition="Export" if export else None, check_deadlock=False) + "ALIAS Alias\n"


def model_check(ctx: Ctx, invariants: List[str], expected: Dict[str, List[str]], max_prior: int = 2) -> None:
    """Protocol proof + the deviations that must fail, run concurrently."""
    def one(variant: str) -> Any:
        return tlc.run_tlc("MC_FSDurable", mc_cfg(variant, invariants, max_prior), timeout_s=600, workers=2,
                           label=f"MC_FSDurable Variant={variant} MaxPrior={max_prior}")

    names = ["ok"] + list(expected)
    with ThreadPoolExecutor(max_workers=5) as ex:
        results = dict(zip(names, ex.map(one, names)))
    ok = results["ok"]
    ctx.add_tlc(ok)
    if not ok.ok:
        ctx.violation("model:" + "+".join(ok.violated or ["error"]),
                      f"TLC: {ok.violated} violated by the publish protocol as transcribed from the code", ok.error_trace[:6000])
        return
    failed_as_expected = {}
    for v, exp in expected.items():
        r = results[v]
        if not (set(r.violated) & set(exp)):
            raise MachineryError(f"anti-vacuity: deviation {v!r} must violate one of {exp}, TLC reported {r.violated} ok={r.ok}")
        failed_as_expected[v] = r.violated
    ctx.cov["anti_vacuity_model"] = failed_as_expected


# ------------------------------------------------------------------------------------------------
# trace validation
# ------------------------------------------------------------------------------------------------
def trace_cfg(invariants: List[str]) -> str:
    return tlc.make_cfg(spec="Spec", invariants=invariants, postcondition="Post", check_deadlock=False) + "ALIAS Alias\n"


_RE_TID = re.compile(r"/\\ tid = (\d+)")
_RE_L = re.compile(r"/\\ l = (\d+)")


def last_state(error_trace: str) -> Tuple[int, int, Dict[str, Any]]:
    """(tid, l, why) of the final state of a TLC error trace printed through ALIAS Alias."""
    tids, ls = _RE_TID.findall(error_trace), _RE_L.findall(error_trace)
    if not tids or not ls:
        raise MachineryError("cannot locate the violating state in TLC's error trace:\n" + error_trace[:2000])
    why: Dict[str, Any] = {}
    i = error_trace.rfind("/\\ why = ")
    if i >= 0:
        vals = tlc.split_top_level(error_trace[i + len("/\\ why = "):])
        if vals:
            try:
                why = tlc.plain(tlc.parse_tla(vals[0]))
            except ValueError:
                why = {}
    return int(tids[-1]), int(ls[-1]), why


def validate(traces: List[Dict[str, Any]], invariants: List[str], label: str) -> Tuple[Any, Dict[str, Any]]:
    d = scratch_dir("fstr")
    tf, out = os.path.join(d, "traces.json"), os.path.join(d, "out.json")
    with open(tf, "w") as f:
        json.dump(traces, f)
    res = tlc.run_tlc("Trace_FS", trace_cfg(invariants), env={"TRACE_FILE": tf, "VERIF_OUT": out}, workers=1,
                      timeout_s=900, label=label)
    post: Dict[str, Any] = {}
    if os.path.exists(out):
        with open(out) as f:
            line = f.readline().strip()
            post = json.loads(line) if line else {}
    shutil.rmtree(d, ignore_errors=True)
    return res, post


def culprit_classes(why: Dict[str, Any]) -> str:
    cl = set()
    for k in ("notDurable", "notComplete", "emptyFinal"):
        for p in why.get(k, []) or []:
            cl.add(S.classify(p))
    if why.get("ptrUnsynced"):
        cl.add("pointer")
    return "+".join(sorted(cl)) or "-"


def judge(ctx: Ctx, traces: List[Dict[str, Any]], names: List[str], invariants: List[str], label: str,
          prop_prefix: str = "", ancestors: bool = True) -> int:
    """Validate traces; report invariant violations (re-validating the remaining traces after each one);
    a trace the model cannot follow is a machinery error (model drift), never a verdict."""
    todo = list(range(len(traces)))
    accepted = 0
    for _round in range(4):
        if not todo:
            break
        res, post = validate([traces[i] for i in todo], invariants, label)
        ctx.add_tlc(res)
        if res.violated and not any(v in invariants for v in res.violated) and "Post" not in " ".join(res.violated):
            raise MachineryError(f"TLC error in trace validation: {res.violated}\n{res.stdout[-2000:]}")
        bad = [v for v in res.violated if v in invariants]
        if bad:
            tid, l, why = last_state(res.error_trace)
            gi = todo[tid - 1]
            ev = traces[gi]["events"]
            last = ev[max(0, min(l - 2, len(ev) - 1))]
            sig = f"{prop_prefix}{bad[0]}:{last['ph'] or '-'}:{culprit_classes(why)}"
            ctx.violation(sig,
                          f"{bad[0]} fails in trace {names[gi]} after event #{l - 1} {S.describe(last)}; "
                          f"not durable: {sorted(why.get('notDurable', []))[:4]} not complete: {sorted(why.get('notComplete', []))[:4]} "
                          f"empty under a final name: {sorted(why.get('emptyFinal', []))[:4]} written while published: {why.get('pubTorn')} "
                          f"acknowledged commit revocable: {why.get('ackBad')} mode: {why.get('mode')}",
                          {"invariant": bad[0], "trace_name": names[gi], "event_index": l - 1, "why": why,
                           "trace": dict(traces[gi], events=ev[: l + 1])})
            todo.remove(gi)
            continue
        acc = set(post.get("accepted", []))
        prog = post.get("progress", [])
        for j, gi in enumerate(todo):
            if (j + 1) not in acc:
                k = prog[j] if j < len(prog) else 0
                ev = traces[gi]["events"]
                nxt = ev[k] if k < len(ev) else None
                raise MachineryError(f"model drift: trace {names[gi]} is not a behaviour of FSDurable: consumed {k}/{len(ev)} events; "
                                     f"next unexplained event: {S.describe(nxt) if nxt else None}; previous: {S.describe(ev[k - 1]) if k else None}")
        accepted += len(todo)
        for note in (post.get("ancestors", []) if ancestors else []):
            gi = todo[note[0] - 1]
            notes = ctx.cov.setdefault("ancestor_directory_notes", {})
            txt = f"directory {note[1]!r} not yet durable in its parent at a moment the pointer named a file below it"
            notes.setdefault(txt, [])
            if len(notes[txt]) < 4:
                notes[txt].append(names[gi])
        todo = []
    return accepted


def record_workload(nrows: int, extra: int) -> Tuple[List[Dict[str, Any]], List[str], Dict[str, int]]:
    """Two traced phases on one table: (A) every committing operation incl. the forced OCC retry;
    (B) garbage collection and a commit after it.  Returns (traces, names, stats)."""
    d = scratch_dir("c16")
    root = os.path.join(d, "tbl")
    try:
        lines, _err = S.run_strace(S.WORKLOAD_A, [root, str(nrows), str(extra)])
        recs_a, moved = S.causal_repair(S.parse_strace(lines))
        tr_a = S.build_trace(recs_a, root, S.Reach(root), {"entries": [], "reach": []}, loss=True)
        init_b = S.project_init(root)
        lines, err = S.run_strace(S.WORKLOAD_B, [root, str(nrows), str(extra)])
        tr_b = S.build_trace(S.parse_strace(lines), root, S.Reach(root), init_b, loss=True)
        gc = re.search(r"GCSTATS (\d+) (\d+)", err)
    finally:
        shutil.rmtree(d, ignore_errors=True)
    ev = tr_a["events"]
    stats = {
        "flips": sum(1 for e in ev if e["op"] == "rename" and e["dst"] == S.HINT),
        "lists": sum(1 for e in ev if e["op"] == "rename" and e["cls"] == "list"),
        "acks": sum(1 for e in ev if e["op"] == "ack"),
        "fsyncs": sum(1 for e in ev if e["op"] == "fsync"),
        "gc_deleted": (int(gc.group(1)) + int(gc.group(2))) if gc else 0,
        "gc_unlinks": sum(1 for e in tr_b["events"] if e["op"] == "unlink" and e["cls"] in ("data", "manifest", "list")),
        "events": len(ev) + len(tr_b["events"]),
        "cross_thread_reorder_repairs": moved,
    }
    tag = f"rows{nrows}-extra{extra}"
    return [tr_a, tr_b], [f"A[{tag}]", f"B[{tag}]"], stats


def strip_fsync(trace: Dict[str, Any]) -> Dict[str, Any]:
    """The same real trace as if no file content had ever been fsynced (binding self-test): the
    fsync events on regular files are removed, those on directories are kept."""
    out = [e for e in trace["events"] if not (e["op"] == "fsync" and e["cls"] != "dir")]
    return dict(trace, events=out)


def run(ctx: Ctx) -> None:
    quick = ctx.tier == "quick"
    # 1. the protocol design
    model_check(ctx, MC_INV, VARIANTS, max_prior=2 if quick else 3)
    if ctx.violations:
        return

    # 2. real system-call traces
    plans = [(5, 0), (4000, 0)] if quick else [(5, 0), (4000, 0), (3, 1), (20000, 2), (1, 3), (700, 1), (60000, 0), (50, 4), (9000, 3), (2, 2)]
    traces: List[Dict[str, Any]] = []
    names: List[str] = []
    with ThreadPoolExecutor(max_workers=3) as ex:
        for trs, nms, st in ex.map(lambda p: record_workload(*p), plans):
            # workload sanity (anti-vacuity of the scenario itself)
            if st["lists"] <= st["flips"] - 3 or st["gc_unlinks"] < 3 or st["fsyncs"] < 40:
                raise MachineryError(f"traced workload did not exercise what it must (OCC retry / GC deletions / fsyncs): {st}")
            traces += trs
            names += nms
            ctx.cov.setdefault("workloads", []).append(st)
    n_ok = judge(ctx, traces, names, C16_INV, f"Trace_FS {len(traces)} strace traces")
    ctx.count_traces(n_ok)
    for t, nm in zip(traces, names):
        for i, e in enumerate(t["events"]):
            ctx.count_case((nm, i), nontrivial=e["op"] in ("write", "pwrite", "trunc", "fsync", "rename", "unlink", "mkdir", "ack")
                           or (e["op"] == "open" and (e["creat"] or e["trunc"])))
    ctx.sample({"trace": names[0], "events": len(traces[0]["events"]),
                "pointer_flip": next((S.describe(e) for e in traces[0]["events"] if e["op"] == "rename" and e["dst"] == S.HINT), None)})
    flip = next((e for e in traces[0]["events"] if e["target"]), None)
    if flip:
        ctx.sample({"pointer_write_target": flip["target"], "reach_from_independent_reader": flip["reach"][:6]})

    # 3. the binding can fail: the same real trace without its file fsyncs must be rejected
    if not ctx.violations:
        res, _post = validate([strip_fsync(traces[0])], C16_INV, "Trace_FS self-test: fsync events removed (must fail)")
        if not (set(res.violated) & {"PointerNeverOutruns", "PostLossOK"}):
            raise MachineryError(f"binding self-test: a trace without fsync was not rejected (TLC: {res.violated})")
        ctx.cov["anti_vacuity_binding"] = f"real trace with fsync(file) events removed violates {res.violated}"

    ctx.rule("case = one prefix of a real system-call trace (trace, event index) on which TLC evaluated the invariants and every "
             "power-loss branch; non-trivial = the event changes file-system state or acknowledges an operation")
    ctx.assume(
        "power-loss model (FSDurable.PowerLoss): content beyond the last fsync is lost, torn or kept; a directory's un-fsynced updates "
        "persist all or none, independently per directory; evaluated after every traced call",
        "directory fsync works on the file system used (the library swallows OSError around it); scratch is tmpfs, whose fsync "
        "returns success - durability itself is the model's, the trace only shows which calls were made in which order",
        "the table root's own entry in its parent directory is out of scope; ancestor directories inside the table are reported "
        "separately (coverage.ancestor_directory_notes), not as violations",
        "reachable sets attached to pointer writes are read after the run by the independent reader; sound because all files but the "
        "pointer are write-once and the traced phase that computes them deletes no list, manifest or data file",
        "strace reports every write/fsync/rename/unlink family call of the child and its threads (-f); calls it does not know are "
        "rejected as unsupported rather than ignored",
    )


def replay(ctx: Ctx, path: str) -> None:
    with open(path) as f:
        payload = json.load(f)
    tr = payload["replay"]["trace"]
    judge(ctx, [tr], [payload["replay"].get("trace_name", "replay")], C16_INV, "Trace_FS replay")
