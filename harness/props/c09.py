"""C09 - Retained snapshots are immutable and time travel is stable.

Specification: spec/History.tla invariants RetainedImmutable (every retained snapshot is readable
with exactly the manifests / entries / data files it was committed with - compared with a frozen
ghost copy taken at commit), ByTimestampMeansMostRecent (lookup by timestamp = most recently COMMITTED
retained snapshot with ts <= t, for every t at, between and around every commit time, with EQUAL
timestamps for consecutive commits), DeleteCurrentRepoints; transcriptions in spec/Metadata.tla
(ByTimestamp, ById, MostRecent, DeleteSnapshot, FileOps, ...) and the collector in History.tla.

1. MC_History: all histories up to a length bound over {append, delete (manifest rewrite / drop),
   expire, delete-snapshot, retention, failed commit (pointer write fails, rolled back), collect(grace),
   tick(1 ms | 2 h)} under a non-decreasing clock; the invariants after every step.  Companions: manifest
   rewritten in place / collector walking only the current snapshot / lookup returning the first
   snapshot >= t / repointing to the oldest survivor must each violate the matching invariant.
2. MC_HistoryCases: all histories of a short length + a seeded sample of long ones, expected
   observation exported, each replayed on the real library under a virtual clock; after EVERY step the
   independent reader re-reads EVERY retained snapshot (list -> manifests -> parquet rows, sha256 of
   every file) and compares with what was recorded at its commit; time_travel(snapshot_id) and
   time_travel(timestamp=t) are queried for every probe time against the reference answer; the
   library's own scan of the current snapshot is compared with its committed content.
"""
from __future__ import annotations

import json
from typing import Any

from .. import history_replay as hr
from ..common import Ctx

LEVEL = "model_checking"

C09_INV = ["RetainedImmutable", "ByTimestampMeansMostRecent", "DeleteCurrentRepoints", "GCKeepsReachable"]


def run(ctx: Ctx) -> None:
    quick = ctx.tier == "quick"
    for mode, L in (("c09", 4 if quick else 6), ("all", 3 if quick else 5)):
        res = hr.check_model(ctx, mode, L, C09_INV + ["WellFormedInv"])
        ctx.add_tlc(res)
        if not res.ok:
            ctx.violation(f"model:{mode}:{','.join(res.violated) or 'error'}",
                          f"TLC: {res.violated} violated in MC_History mode={mode} (the model of the code as it is)", res.error_trace[:6000])
            return
    hr.expect_flaw_caught(ctx, "c09", 4, "inplace", "RetainedImmutable")
    hr.expect_flaw_caught(ctx, "c09", 4, "gc_current", "RetainedImmutable")
    hr.expect_flaw_caught(ctx, "c09", 3, "bytime_first", "ByTimestampMeansMostRecent")
    hr.expect_flaw_caught(ctx, "c09", 4, "recent_oldest", "DeleteCurrentRepoints")

    w = {"append1": 2.5, "append2": 2.5, "del_first": 2.0, "del_last": 1.5, "coll0": 1.5, "colldef": 1.2, "tickbig": 1.5,
         "ds_current": 1.5, "ds_oldest": 1.2, "fail": 1.0, "tick1": 1.2}
    # directed: several deletions of the current snapshot with many survivors (snapshot ids are random
    # in the library, so "most recent" vs "largest id" differ only by chance: repeat), equal-timestamp
    # chains, delete + collect around the grace period
    directed = [["append1", "append1", "append1", "append1", "ds_current", "ds_current", "ds_current"],
                ["append1", "tick1", "append1", "append1", "append1", "exp_old", "ds_current", "ds_current"],
                ["append2", "del_first", "append1", "ds_current", "coll0", "tickbig", "coll0", "colldef"],
                ["append2", "append2", "del_first", "del_last", "exp_all", "tickbig", "colldef", "append1"]]
    if quick:
        hr.check_histories(ctx, {"c09"}, "c09", 2, 250, 7, invariants=C09_INV, weights=w, directed=directed, repeat_directed=4)
    else:
        hr.check_histories(ctx, {"c09"}, "c09", 3, 2500, 9, invariants=C09_INV, weights=w, timeout_s=1800,
                           directed=directed, repeat_directed=8)
    ctx.cov["exhaustive"] = True
    ctx.rule("cases = histories exported by MC_HistoryCases mode c09 (all of the exhaustive length + seeded sample of long ones), each replayed "
             "step by step on the real library; after every step every retained snapshot is re-read and every probe time queried "
             "(non-trivial = at least two different kinds of operation besides tick); distinct by operation sequence")
    ctx.assume("timestamps are non-decreasing in commit order (equal timestamps included); clock regressions are outside this property's quantifier",
               "sequential histories; a failed commit = the version-pointer write raises (local backend: clean failure, rolled back)",
               "in-flight markers younger than the 24 h abandonment timeout",
               "independent reader harness/project.py (json + fastavro + pyarrow) is trusted to parse what is on storage",
               "history length bounded: <=6 (thorough) for the model, <=8 for sampled replays")


def replay(ctx: Ctx, path: str) -> None:
    payload: Any = json.load(open(path))["replay"]
    clock = hr.VirtualClock()
    with clock:
        r = hr.replay_case({"ops": payload["ops"]}, clock, seed=ctx.seed)
    for v in r["violations"]:
        if v["cat"] == "c09":
            ctx.violation(v["sig"], f"history {json.dumps(payload['ops'])} step {v['step']}: {v['what']}", payload)
    ctx.count_traces(1)
