"""C14 - Reads fail closed: damaged or missing files raise, never yield partial rows.

Specification: spec/ReadPath.tla (file graph, damage classes, line-by-line transcription of the read
path as a step function, and the REFERENCE rule written from the statement) and
spec/MC_ReadPath.tla (one TLC behaviour per case; invariants; POSTCONDITION Export).

1. TLC checks the transcription against the reference rule on every case
   (file x damage class x API x verify option x filter x fresh/open handle, + double damage):
   - flags of the code as it is (RecoverOnMissingTarget=TRUE: open finding S12; JsonObjectIsEmpty=FALSE:
     fixed by /repo 122cfe9), invariant VerdictKF (the open finding carved out by name), Sane, NoNeedlessRaise;
   - anti-vacuity companions that must FAIL: Verdict WITHOUT the carve-out; VerdictKF with the pre-fix JSON
     fallback (JsonObjectIsEmpty=TRUE);
   - the S12 repair modelled as well (RecoverOnMissingTarget=FALSE): VerdictRepaired holds;
   - thorough: "checksum mismatch only logged" and "verify defaults to off" must FAIL.
   Every exported case that breaks the reference rule must lie inside a named carve-out and every
   carve-out must be reachable (so a silently fixed/changed behaviour is noticed).
2. Binding, direction spec -> code: a real table with the model's file graph is built
   (3 commits, the last a delete that rewrote a manifest: EXISTING entry), every exported damage
   is realised concretely (several realisations per class, byte-level sweeps in thorough), every
   read API/option is executed on the damaged table, and the verdict is the model case's
   reference class (`ref`): must_raise / full_or_raise / unconstrained.  Byte-level realisations
   are first classified with the independent reader (json / fastavro / pyarrow directly) so that
   e.g. a cut that leaves a parseable Avro prefix is an observation, not a violation.
   Disagreement with the model's predicted outcome that does not break the reference rule is
   counted as model_drift_notes.
"""
from __future__ import annotations

import collections
import errno
import io
import json
import logging
import os
import re
import shutil
import struct
from typing import Any, Callable, Dict, Iterable, Iterator, List, Optional, Tuple

from .. import project, tlc
from ..common import Ctx, MachineryError, rng, scratch_dir

LEVEL = "model_checking"

ROLES = ["hint", "v2", "v3", "L2", "L3", "m1", "m1r", "m2", "d1", "d2", "d3"]
KIND = {"hint": "hint", "v2": "meta", "v3": "meta", "L2": "list", "L3": "list", "m1": "manifest",
        "m1r": "manifest", "m2": "manifest", "d1": "data", "d2": "data", "d3": "data"}
FILTERS: Dict[str, Optional[Dict[str, Any]]] = {"none": None, "lo": {"k": ("<", 12)}, "hi": {"k": (">=", 22)}}
FILTER_PRED: Dict[str, Callable[[Dict[str, Any]], bool]] = {
    "none": lambda r: True, "lo": lambda r: r["k"] < 12, "hi": lambda r: r["k"] >= 22}
VOPT = {"on": True, "off": False, "default": None}
KMAX = 7

# concrete API variants -> model api
API_VARIANTS: List[Tuple[str, str, Dict[str, Any]]] = [
    ("scan", "scan", {}),
    ("scan_par", "scan(parallel=2)", {"parallel": 2}),
    ("batches_1", "scan_batches(1)", {"batch_size": 1}),
    ("batches_1", "scan_batches(2)", {"batch_size": 2}),
    ("batches_big", "scan_batches(1000)", {"batch_size": 1000}),
    ("iter", "iter_records", {}),
]
ROW_APIS = {"scan", "scan_par", "batches_1", "batches_big", "iter"}


# ------------------------------------------------------------------------------------------------
# TLC
# ------------------------------------------------------------------------------------------------

def _consts(**kw: Any) -> Dict[str, Any]:
    R = tlc.Raw
    d: Dict[str, Any] = {
        # the code as it is: S12 recovery still there (open finding), JSON-object fallback fixed by /repo 122cfe9
        "RecoverOnMissingTarget": True, "JsonObjectIsEmpty": False, "ChecksumEnforced": True, "VerifyDefault": True,
        "Metas": R("<- MC_Metas"), "ListOf": R("<- MC_ListOf"), "MansOf": R("<- MC_MansOf"), "DataOf": R("<- MC_DataOf"),
        "RowsOf": R("<- MC_RowsOf"), "AltRowsOf": R("<- MC_AltRowsOf"), "Sibling": R("<- MC_Sibling"),
        "Filters": R("<- MC_Filters"), "Sel": R("<- MC_Sel"), "Pruned": R("<- MC_Pruned"),
        "Doubles": "few", "KSet": set(range(1, KMAX + 1)), "Reduced": True,
    }
    d.update(kw)
    return d


def _jvm_tmp() -> List[str]:
    # TLC unpacks the standard modules into java.io.tmpdir: keep that out of /tmp
    return [f"java.io.tmpdir={scratch_dir('c14jvm')}"]


def _dmg_key(dmg: Iterable[Iterable[Any]]) -> Tuple[Tuple[str, str], ...]:
    return tuple(sorted((str(x[0]), str(x[-1])) for x in dmg))


def _run_models(ctx: Ctx, quick: bool, companions: bool = True) -> Tuple[Dict[str, Any], Dict[Any, Dict[str, Any]], List[Dict[str, Any]]]:
    out = os.path.join(scratch_dir("c14out"), "cases.ndjson")
    workers = 4 if quick else 8
    # quick: k = 1 (first exists), 3 (Avro open -> JSON fallback), 4 (fallback read), KMAX (never fires)
    base = dict(Doubles="few" if quick else "all", Reduced=quick, KSet={1, 3, 4, KMAX} if quick else set(range(1, KMAX + 1)))
    cfg = tlc.make_cfg(spec="Spec", constants=_consts(**base), invariants=["VerdictKF", "Sane", "NoNeedlessRaise"],
                       postcondition="Export", check_deadlock=False)
    res = tlc.run_tlc("MC_ReadPath", cfg, env={"VERIF_OUT": out}, timeout_s=900, workers=workers, jvm_props=_jvm_tmp(),
                      label=f"MC_ReadPath as-is (VerdictKF,Sane,NoNeedlessRaise) Doubles={base['Doubles']}")
    ctx.add_tlc(res)
    if not res.ok:
        ctx.violation("model:" + ",".join(res.violated),
                      f"TLC: {res.violated} violated in the read-path model (transcription of the read path vs the reference rule)",
                      res.error_trace[:6000])
        raise _Abort()
    if companions:
        _companions(ctx, quick, base, workers)
    return _load_export(ctx, out, res)


def _companions(ctx: Ctx, quick: bool, base: Dict[str, Any], workers: int) -> None:
    # anti-vacuity 1: without the carve-out the as-is model must break the rule (the open S12 finding)
    cfg0 = tlc.make_cfg(spec="Spec", constants=_consts(Doubles="none", Reduced=True, KSet={1}), invariants=["Verdict"], check_deadlock=False)
    res0 = tlc.run_tlc("MC_ReadPath", cfg0, timeout_s=600, workers=workers, jvm_props=_jvm_tmp(), label="MC_ReadPath as-is, Verdict without carve-outs (must fail)")
    if "Verdict" not in res0.violated:
        raise MachineryError("anti-vacuity: the as-is model no longer violates Verdict (finding fixed or model changed?)")
    # anti-vacuity 2: the pre-122cfe9 JSON fallback (any JSON object = empty manifest/list) must be caught by the model
    cfgj = tlc.make_cfg(spec="Spec", constants=_consts(Doubles="none", Reduced=True, KSet={1}, JsonObjectIsEmpty=True),
                        invariants=["VerdictKF"], check_deadlock=False)
    resj = tlc.run_tlc("MC_ReadPath", cfgj, timeout_s=600, workers=workers, jvm_props=_jvm_tmp(),
                       label="MC_ReadPath JsonObjectIsEmpty=TRUE (pre-fix JSON fallback; must fail)")
    if "VerdictKF" not in resj.violated:
        raise MachineryError("anti-vacuity: the model with the pre-fix JSON fallback (JsonObjectIsEmpty=TRUE) does not violate VerdictKF")
    # the S12 repair modelled as well: the rule holds (up to the inherent pointer-and-target-lost case)
    cfg1 = tlc.make_cfg(spec="Spec", constants=_consts(RecoverOnMissingTarget=False, **base),
                        invariants=["VerdictRepaired", "Sane"], check_deadlock=False)
    res1 = tlc.run_tlc("MC_ReadPath", cfg1, timeout_s=900, workers=workers, jvm_props=_jvm_tmp(), label="MC_ReadPath S12 repair modelled (VerdictRepaired)")
    ctx.add_tlc(res1)
    if not res1.ok:
        raise MachineryError(f"the repaired model violates {res1.violated}:\n{res1.error_trace[:3000]}")
    av = ["as-is model violates Verdict without carve-outs (open S12 finding)",
          "model with the pre-122cfe9 JSON fallback (JsonObjectIsEmpty=TRUE) violates VerdictKF",
          "model with the S12 repair satisfies VerdictRepaired"]
    if not quick:
        for flag in ("ChecksumEnforced", "VerifyDefault"):
            cfgm = tlc.make_cfg(spec="Spec", constants=_consts(Doubles="none", Reduced=True, KSet={1}, **{flag: False}),
                                invariants=["VerdictKF"], check_deadlock=False)
            resm = tlc.run_tlc("MC_ReadPath", cfgm, timeout_s=600, workers=workers, jvm_props=_jvm_tmp(), label=f"MC_ReadPath {flag}=FALSE (must fail)")
            if "VerdictKF" not in resm.violated:
                raise MachineryError(f"anti-vacuity: model with {flag}=FALSE does not violate VerdictKF")
            av.append(f"{flag}=FALSE violates VerdictKF")
    ctx.cov["anti_vacuity"] = av


def _load_export(ctx: Ctx, out: str, res: Any) -> Tuple[Dict[str, Any], Dict[Any, Dict[str, Any]], List[Dict[str, Any]]]:
    recs = [json.loads(line) for line in open(out)]
    graph = recs[0]
    cases = recs[1:]
    if graph.get("rec") != "graph":
        raise MachineryError("export: first record is not the graph")
    # one behaviour per case: initial states = cases
    n_init = re.search(r"(\d+) distinct states? generated at", res.stdout)
    index: Dict[Any, Dict[str, Any]] = {}
    kf_seen: Dict[str, int] = collections.Counter()
    for c in cases:
        key = (_dmg_key(c["dmg"]), c["k"], c["api"], c["vopt"], c["filt"], c["fresh"])
        index[key] = c
        if not c["refok"]:
            if not c["kf"]:
                raise MachineryError(f"exported case breaks the reference rule outside every carve-out: {c}")
            kf_seen[c["kf"]] += 1
    if len(index) != len(cases):
        raise MachineryError("export: duplicate case keys")
    for kf in ("meta_absent",):
        if not kf_seen.get(kf):
            raise MachineryError(f"carve-out {kf} is no longer reachable in the model (finding fixed or model changed)")
    ctx.cov["model_cases"] = len(cases)
    ctx.cov["model_cases_breaking_rule_inside_carveouts"] = dict(kf_seen)
    ctx.cov["model_outcome_kinds"] = dict(collections.Counter(f"{c['ref']}/{c['kind']}" for c in cases))
    if n_init and int(n_init.group(1)) != len(cases):
        raise MachineryError(f"exported {len(cases)} cases but TLC started from {n_init.group(1)} initial states")
    return graph, index, cases


class _Abort(Exception):
    pass


# ------------------------------------------------------------------------------------------------
# The real table
# ------------------------------------------------------------------------------------------------

def _schema() -> Any:
    from datashard import Schema

    return Schema(schema_id=1, fields=[{"id": 1, "name": "k", "type": "long", "required": True},
                                       {"id": 2, "name": "s", "type": "string", "required": False}])


class Tab:
    """A built table with the model's roles resolved by the independent reader."""

    def __init__(self, root: str) -> None:
        self.root = root
        self.rel: Dict[str, str] = {}
        self.orig: Dict[str, bytes] = {}
        self.older_metas: List[str] = []
        self.snap_id: Any = None
        self.rows: Dict[str, List[Dict[str, Any]]] = {}

    def path(self, role: str) -> str:
        return os.path.join(self.root, self.rel[role])


def build_table(root: str, graph: Dict[str, Any]) -> Tab:
    from datashard import create_table

    t = create_table(root, _schema())
    with t.new_transaction() as tx:                     # commit 1: d1, d2 in ONE manifest
        tx.append_data([{"k": i, "s": f"a{i}"} for i in range(0, 3)])
        tx.append_data([{"k": i, "s": f"b{i}"} for i in range(10, 14)])
        tx.commit()
    t.append_records([{"k": i, "s": (f"c{i}" if i != 21 else None)} for i in range(20, 25)])   # commit 2: d3
    first = t._get_all_data_files()[0].file_path
    with t.new_transaction() as tx:                     # commit 3: delete d1 -> manifest rewritten (EXISTING d2)
        tx.delete_files([first])
        tx.commit()

    rd = project.LocalReader(root)
    st = project.read_state(rd)
    if st["broken"] or st["hint"]["cls"] != "name":
        raise MachineryError(f"fresh table is not clean: {st['broken']} {st['hint']}")
    tab = Tab(root)
    cur_name = st["hint"]["name"]
    ver = lambda n: int(project.META_RE.match(n).group(1))  # noqa: E731
    by_ver = sorted(st["metas"], key=ver)
    if by_ver[-1] != cur_name or len(by_ver) < 3:
        raise MachineryError(f"unexpected metadata versions {by_ver} / hint {cur_name}")
    prev_name = by_ver[-2]
    tab.older_metas = ["metadata/" + n for n in by_ver[:-1]]

    def cur_snap(meta: Dict[str, Any]) -> Dict[str, Any]:
        return [s for s in meta["snapshots"] if s["snapshot_id"] == meta["current_snapshot_id"]][0]

    cur, prev = st["metas"][cur_name], st["metas"][prev_name]
    l3 = cur_snap(cur)["manifest_list"].lstrip("/")
    l2 = cur_snap(prev)["manifest_list"].lstrip("/")
    m3, m2s = st["lists"][l3], st["lists"][l2]
    if len(m3) != 2 or len(m2s) != 2 or m3[1] != m2s[1] or m3[0] == m2s[0]:
        raise MachineryError(f"unexpected manifest layout {m3} / {m2s}")
    e_m1r, e_m2, e_m1 = st["manifests"][m3[0]], st["manifests"][m3[1]], st["manifests"][m2s[0]]
    if [e["status"] for e in e_m1r] != [0] or len(e_m1) != 2 or len(e_m2) != 1 or e_m1[1]["file"] != e_m1r[0]["file"]:
        raise MachineryError("unexpected manifest entries (the rewritten manifest must hold one EXISTING entry)")
    tab.rel = {"hint": project.HINT, "v3": "metadata/" + cur_name, "v2": "metadata/" + prev_name, "L3": l3, "L2": l2,
               "m1r": m3[0], "m2": m3[1], "m1": m2s[0], "d1": e_m1[0]["file"], "d2": e_m1[1]["file"], "d3": e_m2[0]["file"]}
    tab.snap_id = cur["current_snapshot_id"]
    # the real graph must be the model's graph
    real = {"listOf": {"v2": "L2", "v3": "L3"},
            "mansOf": {"L2": [_role(tab, x) for x in m2s], "L3": [_role(tab, x) for x in m3]},
            "dataOf": {"m1": [_role(tab, e["file"]) for e in e_m1], "m2": [_role(tab, e["file"]) for e in e_m2],
                       "m1r": [_role(tab, e["file"]) for e in e_m1r]}}
    for k in real:
        if real[k] != graph[k]:
            raise MachineryError(f"table graph differs from the model graph: {k}: {real[k]} vs {graph[k]}")
    files, problems = project.snapshot_files(st, cur_snap(cur))
    if problems or files != [tab.rel["d2"], tab.rel["d3"]]:
        raise MachineryError(f"independent reader: current snapshot files {files} {problems}")
    for r in ROLES:
        tab.orig[r] = rd.read(tab.rel[r])
    for d in ("d1", "d2", "d3"):
        tab.rows[d] = project.read_rows(rd, tab.rel[d])
    # the model's pruning table must be what the bounds really give
    for fl, pred in FILTER_PRED.items():
        for d in ("d1", "d2", "d3"):
            has = any(pred(r) for r in tab.rows[d])
            if (d in graph["pruned"][fl]) == has:
                raise MachineryError(f"model pruning table does not fit the data: filter {fl} file {d}")
    return tab


def _role(tab: Tab, rel: str) -> str:
    for r, p in tab.rel.items():
        if p == rel:
            return r
    return "?" + rel


def _ms(rows: Iterable[Dict[str, Any]]) -> List[str]:
    return sorted(json.dumps(r, sort_keys=True, default=str) for r in rows)


def expected_answer(tab: Tab, api: str, filt: str, proj: Optional[List[str]]) -> Any:
    """The undamaged answer, from the independent reader's rows (not from the library)."""
    if api == "cursnap":
        return tab.snap_id
    rows = tab.rows["d2"] + tab.rows["d3"]
    if api == "count":
        return len(rows)
    rows = [r for r in rows if FILTER_PRED[filt](r)]
    if proj is not None:
        rows = [{c: r[c] for c in proj} for r in rows]
    return _ms(rows)


# ------------------------------------------------------------------------------------------------
# Running one read
# ------------------------------------------------------------------------------------------------

def run_read(tbl_factory: Callable[[], Any], api: str, kwargs: Dict[str, Any], vopt: str, filt: str,
             proj: Optional[List[str]]) -> Dict[str, Any]:
    """Execute one read API fully; never lets an exception escape.  Returns the observed outcome."""
    yielded = 0
    rows: List[Dict[str, Any]] = []
    try:
        t = tbl_factory()
        v = VOPT[vopt]
        f = FILTERS[filt]
        if api == "count":
            return {"done": True, "answer": t.row_count(), "yielded": 0}
        if api == "cursnap":
            s = t.current_snapshot()
            return {"done": True, "answer": (s.snapshot_id if s is not None else None), "yielded": 0}
        if api in ("scan", "scan_par"):
            rows = t.scan(columns=proj, filter=f, verify_checksums=v, **kwargs)
            return {"done": True, "answer": _ms(rows), "yielded": 0}
        if api in ("batches_1", "batches_big"):
            for b in t.scan_batches(columns=proj, filter=f, verify_checksums=v, **kwargs):
                yielded += 1
                rows.extend(b)
            return {"done": True, "answer": _ms(rows), "yielded": yielded}
        if api == "iter":
            for r in t.iter_records(columns=proj, filter=f, verify_checksums=v):
                yielded += 1
                rows.append(r)
            return {"done": True, "answer": _ms(rows), "yielded": yielded}
        raise MachineryError(f"unknown api {api}")
    except MachineryError:
        raise
    except BaseException as e:  # noqa: BLE001 - the property is about ANY exception
        if isinstance(e, (KeyboardInterrupt, SystemExit)):
            raise
        return {"done": False, "exc": type(e).__name__, "msg": str(e)[:160], "yielded": yielded}


def outcome_kind(out: Dict[str, Any], expect: Any, api: str) -> str:
    if not out["done"]:
        return "Raise"
    a = out["answer"]
    if a == expect:
        return "Full"
    if api == "count":
        return "Empty" if a == 0 else ("Partial" if isinstance(a, int) and a < expect else "Wrong")
    if api == "cursnap":
        return "Empty" if a is None else "Wrong"
    if not a:
        return "Empty"
    ce, ca = collections.Counter(expect), collections.Counter(a)
    return "Partial" if all(ca[x] <= ce[x] for x in ca) else "Wrong"


# ------------------------------------------------------------------------------------------------
# Independent parsers and structural boundaries
# ------------------------------------------------------------------------------------------------

def _varint(b: bytes, i: int) -> Tuple[int, int]:
    shift = n = 0
    while True:
        c = b[i]
        i += 1
        n |= (c & 0x7F) << shift
        if not c & 0x80:
            break
        shift += 7
    return (n >> 1) ^ -(n & 1), i


def avro_layout(b: bytes) -> Dict[str, Tuple[int, int]]:
    """Byte regions of an Avro object container file (own parser; no library code)."""
    reg: Dict[str, Tuple[int, int]] = {"magic": (0, 4)}
    i = 4
    first_meta = i
    while True:
        cnt, i = _varint(b, i)
        if cnt == 0:
            break
        if cnt < 0:
            _, i = _varint(b, i)
            cnt = -cnt
        for _ in range(cnt):
            ln, i = _varint(b, i)
            key = b[i:i + ln]
            i += ln
            ln2, i = _varint(b, i)
            reg["hdr_" + key.decode()] = (i, i + ln2)
            i += ln2
    reg["hdr_meta"] = (first_meta, i)
    reg["hdr_sync"] = (i, i + 16)
    i += 16
    blk = 0
    while i < len(b):
        s = i
        _, i = _varint(b, i)
        reg[f"blk{blk}_count"] = (s, i)
        s = i
        size, i = _varint(b, i)
        reg[f"blk{blk}_size"] = (s, i)
        reg[f"blk{blk}_data"] = (i, i + size)
        i += size
        reg[f"blk{blk}_sync"] = (i, i + 16)
        i += 16
        blk += 1
    if i != len(b):
        raise MachineryError("avro layout parser: file does not end at a block boundary")
    return reg


def parquet_layout(b: bytes) -> Dict[str, Tuple[int, int]]:
    import pyarrow.parquet as pq

    n = len(b)
    flen = struct.unpack("<I", b[n - 8:n - 4])[0]
    reg = {"magic": (0, 4), "footer": (n - 8 - flen, n - 8), "footer_len": (n - 8, n - 4), "tail_magic": (n - 4, n)}
    md = pq.ParquetFile(io.BytesIO(b)).metadata
    for g in range(md.num_row_groups):
        for ci in range(md.row_group(g).num_columns):
            col = md.row_group(g).column(ci)
            start = col.dictionary_page_offset if col.has_dictionary_page else col.data_page_offset
            reg[f"rg{g}_{col.path_in_schema}_chunk"] = (start, start + col.total_compressed_size)
            reg[f"rg{g}_{col.path_in_schema}_datapage"] = (col.data_page_offset, start + col.total_compressed_size)
    return reg


def json_layout(b: bytes) -> Dict[str, Tuple[int, int]]:
    reg = {"open_brace": (0, 1), "close_brace": (len(b) - 1, len(b))}
    for key in (b'"current_snapshot_id"', b'"snapshots"', b'"manifest_list"', b'"schemas"', b'"table_uuid"'):
        i = b.find(key)
        if i >= 0:
            reg[key.decode().strip('"')] = (i, i + len(key) + 12)
    return reg


def layout(kind: str, b: bytes) -> Dict[str, Tuple[int, int]]:
    if kind == "meta":
        return json_layout(b)
    if kind in ("list", "manifest"):
        return avro_layout(b)
    if kind == "data":
        return parquet_layout(b)
    return {"all": (0, len(b))}


def iparse(kind: str, b: bytes) -> Tuple[bool, Any]:
    """Independent reader: does this byte string parse as a file of `kind`, and to what logical content."""
    try:
        if kind == "meta":
            d = json.loads(b.decode("utf-8"))
            if not isinstance(d, dict) or not {"snapshots", "current_snapshot_id", "schemas", "table_uuid"} <= set(d):
                return False, "json-but-not-metadata"
            return True, d
        if kind in ("list", "manifest"):
            import fastavro

            need = "manifest_path" if kind == "list" else "data_file"
            try:
                recs = [dict(r) for r in fastavro.reader(io.BytesIO(b))]
                if any(need not in r for r in recs):
                    return False, "avro-of-another-kind"
                return True, recs
            except Exception:  # noqa: BLE001
                pass
            d = json.loads(b.decode("utf-8"))        # legacy JSON form: an object WITH the key
            key = "manifests" if kind == "list" else "files"
            if isinstance(d, dict) and isinstance(d.get(key), list):
                return True, d[key]
            return False, ("json_object" if isinstance(d, dict) else "json-non-object")
        if kind == "data":
            return _iparse_parquet(b)
        if kind == "hint":
            return (project.parse_hint(b)["name"] is not None), project.parse_hint(b)["name"]
    except Exception as e:  # noqa: BLE001
        return False, type(e).__name__
    return False, "?"


def _iparse_parquet(b: bytes) -> Tuple[bool, Any]:
    """A parquet file "parses" if EITHER pyarrow entry point (whole-table read, batch iterator) reads
    it; its logical content is the schema, the rows each entry point returns, and the footer
    metadata (row counts and column statistics steer filtered / batched reads, so a flipped
    statistic is an ALTERED file even when an unfiltered read returns the same rows)."""
    import pyarrow.parquet as pq

    rows_rt = rows_it = md = schema = None
    err = "?"
    try:
        t = pq.read_table(io.BytesIO(b))
        rows_rt, schema = t.to_pylist(), str(t.schema)
    except Exception as e:  # noqa: BLE001
        err = type(e).__name__
    try:
        pf = pq.ParquetFile(io.BytesIO(b))
        rows_it = [r for bt in pf.iter_batches(batch_size=2) for r in bt.to_pylist()]
        md = pf.metadata.to_dict()
        md.pop("created_by", None)
        schema = schema or str(pf.schema_arrow)
    except Exception as e:  # noqa: BLE001
        err = type(e).__name__
    if rows_rt is None and rows_it is None:
        return False, err
    return True, (schema, rows_rt, rows_it, json.dumps(md, sort_keys=True, default=str))


def classify(tab: Tab, role: str, new: Optional[bytes], planned: str) -> str:
    """Model damage class of a concrete realisation, decided by the independent reader."""
    kind = KIND[role]
    if new is None:
        return "absent"
    if new == tab.orig[role]:
        return "ok"
    ok, content = iparse(kind, new)
    if not ok:
        if planned == "prefix":
            return "prefix"
        return "json_object" if (content in ("json_object", "json-but-not-metadata") and kind != "data" and kind != "hint") else "garbage"
    ok0, content0 = iparse(kind, tab.orig[role])
    if content == content0:
        return "benign"
    if kind == "data":
        sib = {"d1": "d2", "d2": "d3", "d3": "d2"}[role]
        return "swap" if new == tab.orig[sib] else "altered"
    if planned == "prefix":
        return "parseable_prefix"
    return "swap" if planned == "swap" else "parses_differently"


# ------------------------------------------------------------------------------------------------
# Realisations
# ------------------------------------------------------------------------------------------------

class Real:
    """One concrete realisation of a damage on one role."""

    def __init__(self, role: str, planned: str, desc: str, new: Optional[bytes], partial: bool = False) -> None:
        self.role, self.planned, self.desc, self.new, self.partial = role, planned, desc, new, partial
        self.cls = planned

    def tag(self) -> str:
        return f"{self.role}:{self.planned}:{self.desc}"


def _altered_parquet(b: bytes) -> bytes:
    import pyarrow as pa
    import pyarrow.parquet as pq

    t = pq.read_table(io.BytesIO(b))
    rows = t.to_pylist()
    rows[0] = dict(rows[0], s="ALTERED")
    buf = io.BytesIO()
    pq.write_table(pa.Table.from_pylist(rows, schema=t.schema), buf, compression="lz4")
    return buf.getvalue()


def realisations(tab: Tab, role: str, tier: str, r: Any) -> List[Real]:
    kind = KIND[role]
    b = tab.orig[role]
    n = len(b)
    out: List[Real] = [Real(role, "absent", "unlink", None)]
    sib = {"v2": "v3", "v3": "v2", "L2": "L3", "L3": "L2", "m1": "m2", "m2": "m1r", "m1r": "m2", "d1": "d2", "d2": "d3", "d3": "d2"}
    if kind == "hint":
        out += [Real(role, "garbage", "random", bytes(r.getrandbits(8) | 0x80 for _ in range(40))),
                Real(role, "garbage", "empty", b""), Real(role, "garbage", "text", b"not a hint")]
        return out
    reg = layout(kind, b)
    # --- truncations at structural boundaries (+-1) ---
    cuts = {0, 1, 3, 4, 5, n // 2, n - 1}
    for _name, (lo, hi) in reg.items():
        for x in (lo - 1, lo, lo + 1, hi - 1, hi, hi + 1):
            if 0 <= x < n:
                cuts.add(x)
    names = {}
    for name, (lo, hi) in reg.items():
        names.setdefault(lo, f"{name}.start")
        names.setdefault(hi, f"{name}.end")
    for x in sorted(cuts):
        nm = names.get(x) or (names.get(x - 1, "") and names[x - 1] + "+1") or (names.get(x + 1, "") and names[x + 1] + "-1") or "len"
        out.append(Real(role, "prefix", f"cut@{x}/{n}({nm})", b[:x]))
    # --- garbage: random bytes, files of another kind, JSON that is not an object ---
    out.append(Real(role, "garbage", "random200", bytes(r.getrandbits(8) for _ in range(200))))
    out.append(Real(role, "garbage", f"random{n}", bytes(r.getrandbits(8) for _ in range(n))))
    others = {"meta": ["m2", "d3"], "list": ["m2", "d3"], "manifest": ["L2", "d3"], "data": ["m2", "L3"]}[kind]
    for o in others:
        if o != role:
            out.append(Real(role, "garbage", f"bytes-of-{o}({KIND[o]})", tab.orig[o]))
    if kind != "meta":
        for js in (b"[]", b"null", b"3", b'"x"', b'[{"files": []}]'):
            out.append(Real(role, "garbage", f"json:{js.decode()}", js))
    # --- JSON object where Avro (or a metadata document) is expected ---
    if kind != "data":
        for js in (b"{}", b'{"foo": 1}'):
            out.append(Real(role, "json_object", f"json:{js.decode()}", js))
        if kind != "meta":
            out.append(Real(role, "json_object", "bytes-of-v3(meta json)", tab.orig["v3"]))
            out.append(Real(role, "json_object", "bytes-of-v2(meta json)", tab.orig["v2"]))
    else:
        out.append(Real(role, "garbage", "json:{}", b"{}"))
        out.append(Real(role, "garbage", "bytes-of-v3(meta json)", tab.orig["v3"]))
    # --- sibling of the same kind ---
    out.append(Real(role, "swap", f"bytes-of-{sib[role]}", tab.orig[sib[role]]))
    # --- data: altered but parses ---
    if kind == "data":
        out.append(Real(role, "altered", "rewritten-one-value-changed", _altered_parquet(b)))
    # --- benign change for JSON: whitespace ---
    if kind == "meta":
        out.append(Real(role, "benign", "trailing-newline", b + b"\n"))
        out.append(Real(role, "benign", "reserialised-compact", json.dumps(json.loads(b)).encode()))
    # --- byte flips in every region (classified afterwards) ---
    for name, (lo, hi) in sorted(reg.items()):
        if hi <= lo:
            continue
        pos = sorted({lo, (lo + hi) // 2, hi - 1})
        if tier == "thorough":
            pos = sorted(set(pos) | {r.randrange(lo, hi) for _ in range(3)})
        for x in pos:
            for mask in (0xFF, 0x01):
                nb = bytearray(b)
                nb[x] ^= mask
                out.append(Real(role, "flip", f"flip@{x}^{mask:02x}({name})", bytes(nb), partial=True))
    return out


def sweep_realisations(tab: Tab, role: str, r: Any) -> Iterator[Real]:
    """thorough: every prefix length and every byte flipped."""
    b = tab.orig[role]
    n = len(b)
    for x in range(0, n):
        yield Real(role, "prefix", f"cut@{x}/{n}", b[:x])
    for x in range(0, n):
        nb = bytearray(b)
        nb[x] ^= 0xFF
        yield Real(role, "flip", f"flip@{x}^ff", bytes(nb), partial=True)
        if x % 5 == 0:
            nb = bytearray(b)
            nb[x] ^= 1 << r.randrange(8)
            yield Real(role, "flip", f"flip@{x}^bit", bytes(nb), partial=True)


def apply_real(tab: Tab, re_: Real) -> None:
    p = tab.path(re_.role)
    targets = [p]
    if re_.role == "v2" and re_.new is None:
        targets = [os.path.join(tab.root, x) for x in tab.older_metas]     # "v2 absent" = every older version absent
    for q in targets:
        if re_.new is None:
            if os.path.exists(q):
                os.unlink(q)
        else:
            with open(q, "wb") as f:
                f.write(re_.new)


def restore(tab: Tab, saved: Dict[str, bytes]) -> None:
    for rel, b in saved.items():
        q = os.path.join(tab.root, rel)
        with open(q, "wb") as f:
            f.write(b)


# ------------------------------------------------------------------------------------------------
# Transient faults: a proxy on the storage backend instance (and on the local parquet open)
# ------------------------------------------------------------------------------------------------

class _Injector:
    def __init__(self, root: str, rel: str, k: int) -> None:
        self.root, self.rel, self.k = os.path.realpath(root), rel, k
        self.n = 0
        self.fired = False
        self.abs = os.path.realpath(os.path.join(root, rel))

    def touch(self, what: str) -> None:
        self.n += 1
        if self.n == self.k:
            self.fired = True
            raise OSError(errno.EIO, f"injected transient error on call #{self.k} ({what}) of {self.rel}")

    def is_target(self, path: Any) -> bool:
        try:
            p = str(path)
            if os.path.isabs(p) and os.path.realpath(p) == self.abs:
                return True
            return os.path.realpath(os.path.join(self.root, p.lstrip("/"))) == self.abs
        except Exception:  # noqa: BLE001
            return False


class _Stream(io.RawIOBase):
    """A readable, seekable file object whose reads count as storage calls on the target."""

    def __init__(self, f: Any, inj: _Injector) -> None:
        super().__init__()
        self._f, self._inj = f, inj

    def readable(self) -> bool:
        return True

    def seekable(self) -> bool:
        return True

    def readinto(self, b: Any) -> int:
        self._inj.touch("read")
        d = self._f.read(len(b))
        b[:len(d)] = d
        return len(d)

    def read(self, n: Any = -1) -> bytes:
        self._inj.touch("read")
        return self._f.read(-1 if n is None else n)

    def seek(self, o: int, w: int = 0) -> int:
        return self._f.seek(o, w)

    def tell(self) -> int:
        return self._f.tell()

    def close(self) -> None:
        try:
            self._f.close()
        finally:
            super().close()


def instrument(storage: Any, inj: _Injector) -> None:
    for name in ("read_file", "open_file", "exists", "open_seekable", "get_size"):
        real = getattr(storage, name)

        def wrapped(path: Any, *a: Any, _real: Any = real, _name: str = name, **kw: Any) -> Any:
            if inj.is_target(path):
                inj.touch(_name)
                res = _real(path, *a, **kw)
                if _name in ("open_file", "open_seekable"):
                    return _Stream(res, inj)
                return res
            return _real(path, *a, **kw)

        setattr(storage, name, wrapped)


class transient:
    """Context manager: every handle created inside has the injector installed; the local
    verify-off parquet path (data_operations.open_parquet_source -> builtin open) is covered by
    shadowing `open` in that module's namespace."""

    def __init__(self, root: str, rel: str, k: int, handle: Any = None) -> None:
        self.inj = _Injector(root, rel, k)
        self.handle = handle
        self._undo: List[Callable[[], None]] = []

    def __enter__(self) -> _Injector:
        import builtins

        import datashard.data_operations as dops
        import datashard.storage_backend as sb

        inj = self.inj
        real_create = sb.create_storage_backend

        def create(path: str) -> Any:
            s = real_create(path)
            instrument(s, inj)
            return s

        sb.create_storage_backend = create
        self._undo.append(lambda: setattr(sb, "create_storage_backend", real_create))

        def fake_open(path: Any, *a: Any, **kw: Any) -> Any:
            if inj.is_target(path):
                inj.touch("open")
                return _Stream(builtins.open(path, *a, **kw), inj)
            return builtins.open(path, *a, **kw)

        dops.open = fake_open  # type: ignore[attr-defined]
        self._undo.append(lambda: delattr(dops, "open"))
        if self.handle is not None:
            st = self.handle.storage
            saved = {n: st.__dict__.get(n) for n in ("read_file", "open_file", "exists", "open_seekable", "get_size")}
            instrument(st, inj)

            def undo_handle() -> None:
                for n, v in saved.items():
                    if v is None:
                        st.__dict__.pop(n, None)
                    else:
                        st.__dict__[n] = v

            self._undo.append(undo_handle)
        return inj

    def __exit__(self, *exc: Any) -> None:
        for u in reversed(self._undo):
            u()


# ------------------------------------------------------------------------------------------------
# Judging
# ------------------------------------------------------------------------------------------------

class Judge:
    def __init__(self, ctx: Ctx, tab: Tab, index: Dict[Any, Dict[str, Any]]) -> None:
        self.ctx, self.tab, self.index = ctx, tab, index
        self.runs = 0
        self.drift = 0
        self.obs: Dict[str, int] = collections.Counter()
        self.raise_after_yield: Dict[str, int] = collections.Counter()
        self.max_yield_before_raise = 0
        self.exc_types: Dict[str, int] = collections.Counter()
        self.classes_seen: Dict[str, int] = collections.Counter()
        self.by_ref: Dict[str, int] = collections.Counter()
        self.drift_detail: Dict[str, int] = collections.Counter()

    def model_case(self, dmg: List[Tuple[str, str]], k: int, api: str, vopt: str, filt: str, fresh: bool) -> Optional[Dict[str, Any]]:
        if api in ("count", "cursnap"):
            vopt, filt = "default", "none"
        return self.index.get((tuple(sorted(dmg)), k, api, vopt, filt, fresh))

    def judge(self, *, dmg: List[Tuple[str, str]], reals: List[Real], k: int, fired: Optional[bool], api: str, label: str,
              vopt: str, filt: str, proj: Optional[List[str]], fresh: bool, out: Dict[str, Any]) -> None:
        """dmg = [(role, model class)] after classification; decides by the model case's reference class."""
        ctx, tab = self.ctx, self.tab
        self.runs += 1
        # classes the model does not have are mapped to the model class with the same reference treatment
        mapped = []
        special = None
        for role, cls in dmg:
            if cls in ("parseable_prefix", "parses_differently"):
                special = cls
                cls = "swap"            # "parses, to other content": outside the statement for non-data files
            mapped.append((role, cls))
        mk = k
        if k:
            mk = 1 if fired else KMAX
        case = self.model_case(mapped, mk, api, vopt, filt, fresh)
        if case is None and fresh:
            case = self.model_case(mapped, mk, api, vopt, filt, False)   # reduced export: fresh only for non-transient
        if case is None:
            raise MachineryError(f"no model case for {mapped} k={mk} {api} {vopt} {filt} fresh={fresh}")
        if k and bool(case["fired"]) != bool(fired):
            self.drift += 1     # the model and the code disagree on whether the file is touched that often
        ref = case["ref"]
        expect = expected_answer(tab, api, filt, proj)
        kind = outcome_kind(out, expect, api)
        self.by_ref[f"{ref}/{kind}"] += 1
        for role, cls in dmg:
            self.classes_seen[f"{KIND[role]}:{cls}"] += 1
        nontrivial = ref != "full_or_raise" or bool(dmg)
        ctx.count_case(("c14", sorted(dmg), [x.desc for x in reals], mk, label, vopt, filt, proj, fresh), nontrivial=nontrivial)
        if not out["done"]:
            self.exc_types[out["exc"]] += 1
            if out["yielded"]:
                self.raise_after_yield[f"{api}"] += 1
                self.max_yield_before_raise = max(self.max_yield_before_raise, out["yielded"])
        partial_real = any(x.partial for x in reals)
        # the signature names the culprit CLOSEST TO THE ROOT of the file graph (a lost metadata file
        # decides the outcome before any list / manifest / data file below it is looked at)
        depth = {"meta": 0, "list": 1, "manifest": 2, "data": 3, "hint": 4}
        culp = [(r, c) for r, c in dmg if r in case["culprits"]]
        top = min((depth[KIND[r]] for r, _ in culp), default=None)
        culprit_desc = "+".join(sorted({f"{KIND[r]}.{c}" for r, c in culp if depth[KIND[r]] == top})) or \
            "harmless(" + "+".join(sorted(f"{KIND[r]}.{c}" for r, c in dmg)) + ")"
        fam = "rows" if api in ROW_APIS else api
        bad = None
        if ref == "must_raise":
            if kind != "Raise":
                data_verify = any(KIND[r] == "data" for r, _ in dmg if r in case["culprits"]) and vopt in ("on", "default")
                if kind == "Full" and k:
                    self.obs["transient_absorbed_full_answer"] += 1
                elif kind == "Full" and partial_real and not data_verify:
                    # a flipped byte in a region this read does not decode (e.g. a column that is not
                    # projected): the answer is exactly the undamaged one - not a fail-open
                    self.obs["flip_untouched_by_read_full_answer"] += 1
                else:
                    bad = f"returned {kind} instead of raising"
        elif ref == "full_or_raise":
            if kind not in ("Raise", "Full"):
                bad = f"returned {kind} although the damage is outside what the read needs"
        else:
            what = special or ("double-damage" if len(dmg) > 1 else "+".join(KIND[r] + "." + c for r, c in dmg))
            self.obs[f"unconstrained:{what}:{kind}"] += 1
        if kind != case["kind"] and special is None:
            self.drift += 1
            self.drift_detail[f"{'+'.join(sorted(KIND[r] + '.' + c for r, c in dmg))}:{fam}:model={case['kind']}:code={kind}"] += 1
        if bad:
            sig = f"{culprit_desc}:{fam}:{'no-raise' if ref == 'must_raise' else kind}"
            what = (f"{label}(verify_checksums={VOPT[vopt]!r}, filter={FILTERS[filt]!r}, columns={proj!r}, "
                    f"{'fresh handle' if fresh else 'handle opened before the damage'}) on a table with "
                    f"{', '.join(x.tag() for x in reals) or dmg} {bad}"
                    + (f" (yielded {out['yielded']} batches/records)" if out.get("yielded") else ""))
            ctx.violation(sig, what, {
                "damage": [{"role": x.role, "planned": x.planned, "desc": x.desc, "class": x.cls,
                            "file": tab.rel[x.role], "new_hex": (x.new.hex() if x.new is not None and len(x.new) <= 4096 else None),
                            "absent": x.new is None} for x in reals],
                "transient": ({"role": dmg[0][0], "k": k} if k else None),
                "api": api, "label": label, "vopt": vopt, "filt": filt, "proj": proj, "fresh": fresh,
                "observed": {kk: (vv if kk != "answer" else (vv if not isinstance(vv, list) else vv[:40])) for kk, vv in out.items()},
                "expected": expect, "model_case": case})

    def finish(self) -> None:
        ctx = self.ctx
        ctx.count_traces(self.runs)
        ctx.cov["model_drift_notes"] = self.drift
        ctx.cov["model_drift_detail"] = dict(sorted(self.drift_detail.items()))
        ctx.cov["observations"] = dict(sorted(self.obs.items()))
        ctx.cov["raised_after_yielding"] = {"by_api": dict(self.raise_after_yield), "max_batches_or_records_before_raise": self.max_yield_before_raise}
        ctx.cov["exception_types"] = dict(self.exc_types)
        ctx.cov["classes_exercised"] = dict(sorted(self.classes_seen.items()))
        ctx.cov["runs_by_reference_class_and_outcome"] = dict(sorted(self.by_ref.items()))


# ------------------------------------------------------------------------------------------------
# Option combinations
# ------------------------------------------------------------------------------------------------

def all_options() -> List[Tuple[str, str, Dict[str, Any], str, str, Optional[List[str]], bool]]:
    out = []
    for api, label, kw in API_VARIANTS:
        for vopt in ("on", "off", "default"):
            for filt in ("none", "lo", "hi"):
                for proj in (None, ["k"]):
                    for fresh in (False, True):
                        out.append((api, label, kw, vopt, filt, proj, fresh))
    for api in ("count", "cursnap"):
        for fresh in (False, True):
            out.append((api, {"count": "row_count", "cursnap": "current_snapshot"}[api], {}, "default", "none", None, fresh))
    return out


def sampled_options(i: int, role: str, small: bool = False) -> List[Tuple[str, str, Dict[str, Any], str, str, Optional[List[str]], bool]]:
    """A covering sample: every API variant x every verify option, the other dimensions rotate with
    the realisation index (so that over the realisations of one class everything is combined)."""
    out = []
    filts = ("none", "lo", "hi")
    j = i
    variants = API_VARIANTS if not small else [API_VARIANTS[i % 6], API_VARIANTS[(i + 3) % 6]]
    for api, label, kw in variants:
        for vopt in (("on", "off", "default") if not small else (("default", "off") if i % 2 else ("on", "off"))):
            filt = filts[j % 3]
            proj = None if (j // 3) % 2 == 0 else ["k"]
            fresh = (j // 6) % 2 == 1
            out.append((api, label, kw, vopt, filt, proj, fresh))
            j += 1
    out.append(("count", "row_count", {}, "default", "none", None, i % 2 == 0))
    if not small or i % 4 == 0:
        out.append(("cursnap", "current_snapshot", {}, "default", "none", None, i % 2 == 1))
    return out


# ------------------------------------------------------------------------------------------------
# The check
# ------------------------------------------------------------------------------------------------

def _selfcheck(tab: Tab, handle: Any) -> None:
    from datashard import load_table

    for api, label, kw, vopt, filt, proj, fresh in all_options():
        fac = (lambda: load_table(tab.root)) if fresh else (lambda: handle)
        out = run_read(fac, api, kw, vopt, filt, proj)
        if outcome_kind(out, expected_answer(tab, api, filt, proj), api) != "Full":
            raise MachineryError(f"undamaged table: {label} {vopt} {filt} {proj} fresh={fresh} gives {out} "
                                 f"(independent reader expects {expected_answer(tab, api, filt, proj)})")


def _exercise(judge: Judge, tab: Tab, handle: Any, reals: List[Real], options: Iterable[Any]) -> None:
    """Apply the realisations (already classified), run the reads, restore the files."""
    from datashard import load_table

    saved: Dict[str, bytes] = {}
    for x in reals:
        rels = [tab.rel[x.role]] + (tab.older_metas if (x.role == "v2" and x.new is None) else [])
        for rel in rels:
            with open(os.path.join(tab.root, rel), "rb") as f:
                saved.setdefault(rel, f.read())
    try:
        for x in reals:
            apply_real(tab, x)
        dmg = [(x.role, x.cls) for x in reals]
        for api, label, kw, vopt, filt, proj, fresh in options:
            fac = (lambda: load_table(tab.root)) if fresh else (lambda: handle)
            out = run_read(fac, api, kw, vopt, filt, proj)
            judge.judge(dmg=dmg, reals=reals, k=0, fired=None, api=api, label=label, vopt=vopt, filt=filt, proj=proj, fresh=fresh, out=out)
    finally:
        restore(tab, saved)


def _transient_runs(judge: Judge, tab: Tab, handle: Any, role: str, options: Iterable[Any], ks: Callable[[int], Iterable[int]], cap: int) -> None:
    from datashard import load_table

    for oi, (api, label, kw, vopt, filt, proj, fresh) in enumerate(options):
        k = 1
        seq = iter(ks(oi))
        while True:
            try:
                k = next(seq)
            except StopIteration:
                break
            if k > cap:
                break
            with transient(tab.root, tab.rel[role], k, handle=None if fresh else handle) as inj:
                fac = (lambda: load_table(tab.root)) if fresh else (lambda: handle)
                out = run_read(fac, api, kw, vopt, filt, proj)
            judge.judge(dmg=[(role, "transient")], reals=[], k=k, fired=inj.fired, api=api, label=label, vopt=vopt, filt=filt,
                        proj=proj, fresh=fresh, out=out)
            if not inj.fired:
                break       # the read makes fewer than k calls on this file: larger k never fire


def run(ctx: Ctx) -> None:
    logging.disable(logging.CRITICAL)
    os.environ.pop("DATASHARD_VERIFY_CHECKSUMS", None)
    quick = ctx.tier == "quick"
    try:
        graph, index, cases = _run_models(ctx, quick)
    except _Abort:
        return
    from datashard import load_table

    root = os.path.join(scratch_dir("c14tab"), "t")
    tab = build_table(root, graph)
    handle = load_table(root)
    _selfcheck(tab, handle)
    judge = Judge(ctx, tab, index)
    r = rng(ctx.seed, "c14")
    import time as _time
    phases: Dict[str, float] = {"tlc+build": round(_time.time() - ctx.t0, 1)}
    _t = _time.time()

    def _phase(name: str) -> None:
        nonlocal _t
        phases[name] = round(_time.time() - _t, 1)
        _t = _time.time()

    # ---- undamaged + single damage: every role, every class, several realisations ----
    _exercise(judge, tab, handle, [], all_options())
    need_classes = collections.defaultdict(set)
    for c in cases:
        if len(c["dmg"]) == 1 and c["k"] == 0:
            need_classes[c["dmg"][0][0]].add(c["dmg"][0][2])
    seen_classes = collections.defaultdict(set)
    n_real = 0
    for role in ROLES:
        rs = realisations(tab, role, ctx.tier, r)
        for x in rs:
            x.cls = classify(tab, role, x.new, x.planned)
        rs = [x for x in rs if x.cls != "ok"]
        per_class: Dict[str, int] = collections.Counter()
        for i, x in enumerate(rs):
            per_class[x.cls] += 1
            seen_classes[role].add(x.cls)
            first = per_class[x.cls] == 1
            older = role in ("v2", "L2", "m1", "d1")
            if quick:
                # first realisation of every class with the covering sample; the rest with a small one;
                # older-snapshot-only files (never needed) get a thinner sample
                if older and not first and i % 4:
                    continue
                opts = sampled_options(i, role, small=not first or older)
            else:
                opts = all_options() if (first and not older or x.planned != "flip" and per_class[x.cls] <= 2 and not older) else sampled_options(i, role)
            _exercise(judge, tab, handle, [x], opts)
            n_real += 1
    for role, need in need_classes.items():
        missing = need - seen_classes[role] - {"transient"}
        if missing:
            raise MachineryError(f"no concrete realisation for model classes {missing} of {role}")
    ctx.cov["realisations_single"] = n_real
    _phase("single")

    # ---- double damage (the pairs the model exported) ----
    pairs = sorted({_dmg_key(c["dmg"]) for c in cases if len(c["dmg"]) == 2})
    n_pairs = 0
    for pi, pair in enumerate(pairs):
        reals = []
        for role, cls in pair:
            cand = [x for x in realisations(tab, role, "quick", rng(ctx.seed, "c14pair", role)) if x.planned == cls]
            for x in cand:
                x.cls = classify(tab, role, x.new, x.planned)
            cand = [x for x in cand if x.cls == cls]
            if not cand:
                raise MachineryError(f"no realisation of {cls} for {role}")
            reals.append(cand[pi % len(cand)])
        _exercise(judge, tab, handle, reals, all_options() if (not quick and pi % 4 == 0) else sampled_options(pi, pair[0][0], small=not quick or pi % 2 == 1))
        n_pairs += 1
    ctx.cov["double_damage_pairs"] = n_pairs
    _phase("double")

    # ---- transient faults ----
    if quick:
        for ri, role in enumerate(ROLES):
            older = role in ("v2", "L2", "m1", "d1")
            opts = sampled_options(ri, role, small=older)
            _transient_runs(judge, tab, handle, role, opts,
                            (lambda oi: (1,)) if older else (lambda oi: (1, 2, 3, 4, 5, 6, 8, 11, 15, 20, 30, 45)), cap=45)
    else:
        for ri, role in enumerate(ROLES):
            older = role in ("v2", "L2", "m1", "d1")
            if older:
                _transient_runs(judge, tab, handle, role, sampled_options(ri, role), lambda oi: (1, 2), cap=2)
                continue
            _transient_runs(judge, tab, handle, role, all_options(), lambda oi: range(1, 9), cap=8)
            _transient_runs(judge, tab, handle, role, sampled_options(ri, role), lambda oi: range(9, 2000), cap=2000)

    _phase("transient")
    # ---- thorough: every prefix length, every byte flipped, for the files the current snapshot needs ----
    if not quick:
        n_sweep = 0
        for role in ("v3", "L3", "m1r", "m2", "d2", "d3"):
            for i, x in enumerate(sweep_realisations(tab, role, r)):
                x.cls = classify(tab, role, x.new, x.planned)
                if x.cls == "ok":
                    continue
                _exercise(judge, tab, handle, [x], sampled_options(i, role, small=True))
                n_sweep += 1
        ctx.cov["sweep_realisations"] = n_sweep
        _phase("sweep")
        _wide_variant(ctx, judge, graph)
        _phase("wide")

    # the table must be intact again
    _selfcheck(tab, handle)
    judge.finish()
    ctx.cov["phase_wall_s"] = phases
    hit = {h["signature"] for h in ctx.known_hits}
    ctx.cov["known_findings_not_reproduced"] = sorted(k["signature"] for k in ctx._known if k["signature"] not in hit)
    shutil.rmtree(os.path.dirname(root), ignore_errors=True)
    ctx.cov["exhaustive"] = True
    ctx.rule("cases = TLC behaviours of MC_ReadPath (file x damage class [x k-th call for transient] x API x verify option x "
             "filter x fresh/open handle, + double damage); each realised concretely several times per class on a real table "
             "and executed through every read API variant; a run is non-trivial when a file is damaged; distinct by "
             "(damage, realisation, API variant, options)")
    ctx.sample({"model_case": cases[len(cases) // 3]})
    ctx.sample({"model_case": next(c for c in cases if c["kf"] == "meta_absent" and not c["refok"])})
    ctx.sample({"model_case": next(c for c in cases if any(d[2] == "json_object" and d[0] == "L3" for d in c["dmg"]) and c["api"] == "scan")})
    ctx.sample({"table_roles": tab.rel})
    ctx.assume("LocalStorageBackend only (S3 backend reads go through the same Table code; its retry wrapper is C20's subject)",
               "transient faults are injected by wrapping the storage backend instance's read_file/open_file/exists/open_seekable/get_size "
               "(and the builtin open used by data_operations.open_parquet_source on local tables); listing calls are not faulted",
               "the independent reader (json, fastavro, pyarrow used directly) decides whether a damaged file still parses and to what content",
               "one table shape (3 commits; thorough adds a wide variant with a multi-block manifest); 2 older metadata versions are represented by the model's v2",
               "a Full (exactly undamaged) answer after a byte flip in a region the read does not decode, or after an absorbed transient fault, is recorded as an observation, not a violation")


# ------------------------------------------------------------------------------------------------
# thorough: a wide table whose rewritten manifest spans several Avro blocks
# ------------------------------------------------------------------------------------------------

def _wide_variant(ctx: Ctx, judge0: Judge, graph: Dict[str, Any]) -> None:
    """Cuts at Avro BLOCK boundaries of a multi-block manifest leave a parseable prefix: outside the
    statement; executed and recorded as observations.  Cuts and flips elsewhere must raise."""
    from datashard import create_table, load_table

    root = os.path.join(scratch_dir("c14wide"), "t")
    t = create_table(root, _schema())
    nfiles = 170
    with t.new_transaction() as tx:
        for j in range(nfiles):
            tx.append_data([{"k": 100 * j + i, "s": f"w{j}_{i}"} for i in range(2)])
        tx.commit()
    t.append_records([{"k": 100000 + i, "s": "z"} for i in range(3)])
    first = t._get_all_data_files()[0].file_path
    with t.new_transaction() as tx:
        tx.delete_files([first])
        tx.commit()
    rd = project.LocalReader(root)
    st = project.read_state(rd)
    cur = st["metas"][st["hint"]["name"]]
    snap = [s for s in cur["snapshots"] if s["snapshot_id"] == cur["current_snapshot_id"]][0]
    mans = st["lists"][snap["manifest_list"].lstrip("/")]
    m1r = mans[0]
    raw = rd.read(m1r)
    reg = avro_layout(raw)
    nblocks = len([k for k in reg if k.endswith("_sync") and k.startswith("blk")])
    ctx.cov["wide_manifest_blocks"] = nblocks
    if nblocks < 2:
        raise MachineryError("wide variant: the manifest has a single Avro block")
    files, _ = project.snapshot_files(st, snap)
    exp_rows = _ms([r for f in files for r in project.read_rows(rd, f)])
    handle = load_table(root)
    cuts = set()
    for name, (lo, hi) in reg.items():
        if name.startswith("blk") and name.endswith(("_count", "_sync")) or name == "hdr_sync":
            for x in (lo - 1, lo, lo + 1, hi - 1, hi):
                if 0 <= x < len(raw):
                    cuts.add(x)
    obs = collections.Counter()
    p = os.path.join(root, m1r)
    try:
        for x in sorted(cuts):
            new = raw[:x]
            ok, content = iparse("manifest", new)
            with open(p, "wb") as f:
                f.write(new)
            for label, fn in (("scan", lambda h: _ms(h.scan(verify_checksums=False))),
                              ("scan_batches", lambda h: _ms([r for b in h.scan_batches(batch_size=1000) for r in b])),
                              ("row_count", lambda h: h.row_count())):
                for fresh in ((x % 2 == 0),):
                    try:
                        h = load_table(root) if fresh else handle
                        ans = fn(h)
                        kind = "Full" if ans in (exp_rows, len(exp_rows)) else "not-full"
                    except Exception:  # noqa: BLE001
                        kind = "Raise"
                    judge0.runs += 1
                    ctx.count_case(("c14wide", x, label, fresh), nontrivial=True)
                    if ok:
                        obs[f"parseable_prefix(cut at block boundary):{kind}"] += 1
                    elif kind != "Raise":
                        ctx.violation(f"manifest.prefix:rows:{kind}:multi-block",
                                      f"{label} on a table whose multi-block manifest is cut to an unparseable prefix ({x}/{len(raw)} bytes) returned {kind}",
                                      {"wide": True, "cut": x, "len": len(raw), "api": label, "fresh": fresh})
                    else:
                        obs["unparseable_prefix:Raise"] += 1
    finally:
        with open(p, "wb") as f:
            f.write(raw)
    ctx.cov["wide_manifest_observations"] = dict(obs)
    shutil.rmtree(os.path.dirname(root), ignore_errors=True)


# ------------------------------------------------------------------------------------------------
# Replay of a recorded violation
# ------------------------------------------------------------------------------------------------

def replay(ctx: Ctx, path: str) -> None:
    logging.disable(logging.CRITICAL)
    os.environ.pop("DATASHARD_VERIFY_CHECKSUMS", None)
    from datashard import load_table

    with open(path) as f:
        payload = json.load(f)["replay"]
    if isinstance(payload, str) or payload.get("wide"):
        raise MachineryError("this replay file records a model-level or wide-variant result; re-run the check instead")
    graph, index, _cases = _run_models(ctx, True, companions=False)
    root = os.path.join(scratch_dir("c14replay"), "t")
    tab = build_table(root, graph)
    handle = load_table(root)
    judge = Judge(ctx, tab, index)
    r = rng(ctx.seed, "c14")
    reals = []
    for d in payload["damage"]:
        cands = [x for x in realisations(tab, d["role"], "thorough", r) if x.planned == d["planned"] and x.desc.split("/")[0] == d["desc"].split("/")[0]]
        if not cands and d.get("new_hex") is not None:
            cands = [Real(d["role"], d["planned"], d["desc"], bytes.fromhex(d["new_hex"]), partial=d["planned"] == "flip")]
        if not cands and d.get("absent"):
            cands = [Real(d["role"], "absent", "unlink", None)]
        if not cands:
            raise MachineryError(f"cannot rebuild realisation {d['desc']} for {d['role']}")
        x = cands[0]
        x.cls = classify(tab, x.role, x.new, x.planned)
        reals.append(x)
    opt = (payload["api"], payload["label"], dict(next(kw for a, l, kw in API_VARIANTS + [("count", "row_count", {}), ("cursnap", "current_snapshot", {})] if l == payload["label"])),
           payload["vopt"], payload["filt"], payload["proj"], payload["fresh"])
    if payload.get("transient"):
        tr = payload["transient"]
        _transient_runs(judge, tab, handle, tr["role"], [opt], lambda oi: (tr["k"],), cap=tr["k"])
    else:
        _exercise(judge, tab, handle, reals, [opt])
    judge.finish()
